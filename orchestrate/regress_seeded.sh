#!/bin/sh
# development helper: every seeded change against the quick check of the property it breaks
cd "$(dirname "$0")/.."
for d in seeded/*/ whitebox/mlw/ whitebox/fmt/ whitebox/queue/ whitebox/sock/ whitebox/holder/ whitebox/macros/ whitebox/pass2/*/; do
  case "$d" in
    seeded/*) id=$(basename "$d"); prop=${id%%-*}; if [ -n "$REGRESS_FROM" ] && [ "$(printf '%s\n%s\n' "$REGRESS_FROM" "$prop" | sort | head -1)" != "$REGRESS_FROM" ]; then continue; fi; python3 orchestrate/try_patch.py "$d/patch.diff" "$prop" 2>&1 | grep -E "^C[0-9]+ " | sed "s|^|$id |" | cut -c1-260;;
    whitebox/*) e=$(basename "$d"); case $e in mlw) props="C05 C06 C07 C19";; fmt) props="C01 C02 C03 C04";; queue) props="C08 C09 C10 C11";; sock) props="C12 C13 C14";; holder) props="C18";; macros) props="C17";; esac
       for n in 1 2 3 4; do python3 orchestrate/try_patch.py "$d/$n.diff" $props 2>&1 | grep -E "^C[0-9]+ " | sed "s|^|wb-$e-$n |" | cut -c1-260; done;;
  esac
done
