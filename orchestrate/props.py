"""Per-property and per-engine tables used by the orchestrator."""

KERNEL = "Lean 4.33.0 kernel (lake build); axioms limited to propext, Classical.choice, Quot.sound (audited by #print axioms on every property theorem)"
TIE = "hand-written Lean model tied to /repo's working tree by the differential correspondence check (Rust harness in-process against the real code, same cases through the compiled Lean driver); its reach is bounded by the generators"
STD_BUFWRITER = "std::io::BufWriter (write, write_cold, flush_buf with Interrupted retry, Drop) is modelled, not verified; Vec::with_capacity(n) has capacity exactly n for u8"
ORACLE = "every underlying write is all-or-nothing (Ok(len) or Err), as C07 states; the environment is an arbitrary outcome list (oracle) the theorems quantify over"


def _hex(b):
    return "-" if not b else "".join("%02x" % x for x in b)


def mlw_continuations(case):
    """continuation search for the line writer: append up to 3 further ops from a boundary alphabet"""
    f = case.split(" ")
    if f[0] != "mlw" or len(f) != 5:
        return []
    cap = int(f[1])
    elen = 0 if f[2] == "-" else len(f[2]) // 2
    base_ops = [] if f[4] == "-" else f[4].split(",")
    lens = sorted(set(x for x in [0, 1, cap - elen - 1, cap - elen, cap - elen + 1, cap, cap + 1] if x >= 0))
    alpha = ["f"] + ["e" + _hex([0x41 + (i % 26)] * n) for i, n in enumerate(lens)]
    out = []
    seqs = [[]]
    for _ in range(3):
        seqs = [s + [a] for s in seqs for a in alpha]
        for s in seqs:
            for orc in (f[3], "-"):
                out.append("mlw %s %s %s %s" % (f[1], f[2], orc, ",".join(base_ops + s)))
    return out


ENGINES = {
    "mlw": {"continuations": mlw_continuations},
}

_WRITER_TB = [KERNEL, TIE, STD_BUFWRITER, ORACLE]
_WRITER_RULE = ("engine mlw: exhaustive small scope (capacities 0..4(6), terminators of length 0..2(3), op sequences over boundary "
                "lengths/flush to depth 3(4-5), every ok/err/Interrupted oracle to depth 2(3)), seeded random long histories with fault "
                "scripts, a hostile stream (metrics containing the terminator), and BufferedSpyMetricSink through StatsdClient::flush and "
                "QueuingMetricSink::flush with a bounded receiver as fault injector; a case is distinct by its text and non-trivial when "
                "its model run reaches a branch other than plain buffering / empty flush (counted by the driver)")

_WRITER_NOTE = ("Trusted: Lean kernel + propext/Classical.choice/Quot.sound; the hand-written model of std BufWriter and of "
                "MultiLineWriter is tied to the code only by the correspondence harness (differential testing, bounded by its "
                "generators); all-or-nothing underlying writes")

PROPS = {
    "C05": {
        "engine": "mlw",
        "level_text": "Lean 4 theorems C05.framing / refines_spec / invariant_reachable: for every capacity (0 and 1 included), terminator, history of emits/flushes + drop and every oracle, each attempted underlying write is a frame; the concrete writer refines the pending-lines spec. Model tied to the code by the correspondence check on every run.",
        "level_note": _WRITER_NOTE,
        "technique": "Lean 4 proof (inductive invariant + refinement to a pending-lines specification) + model/implementation correspondence",
        "trusted_base": _WRITER_TB,
        "assumptions": [STD_BUFWRITER, ORACLE, "sinks lock a Mutex around each whole emit/flush (C12's concern)"],
        "rule": _WRITER_RULE,
        "exhaustive_part": "small-scope enumeration of the mlw engine (see rule); the random parts are sampled",
    },
    "C06": {
        "engine": "mlw",
        "level_text": "Lean 4 theorems C06.conservation / flush_ok_all_written / drop_all_written / flush_idempotent / emit_ok_len / oversize_written_in_own_emit over the same model: delivered ++ pending = acknowledged lines (as lists: exactly once, in order) for every history and oracle. Line-level statements assume a non-empty terminator.",
        "level_note": _WRITER_NOTE + "; StatsdClient::flush and QueuingMetricSink::flush are covered by the correspondence (spy cases) as delegations",
        "technique": "Lean 4 proof (refinement + conservation invariant over histories) + model/implementation correspondence",
        "trusted_base": _WRITER_TB,
        "assumptions": [STD_BUFWRITER, ORACLE],
        "rule": _WRITER_RULE,
        "exhaustive_part": "small-scope enumeration of the mlw engine (see rule); the random parts are sampled",
    },
    "C07": {
        "engine": "mlw",
        "level_text": "Lean 4 theorems C07.emit_result / flush_result / failed_emit_not_kept / conservation_under_faults / flush_writes_all_pending / framing_survives_faults, each universally quantified over the oracle (every fail/succeed/Interrupted assignment to every attempted write).",
        "level_note": _WRITER_NOTE,
        "technique": "Lean 4 proof (oracle-quantified refinement and conservation) + fault-script correspondence",
        "trusted_base": _WRITER_TB,
        "assumptions": [STD_BUFWRITER, ORACLE],
        "rule": _WRITER_RULE,
        "exhaustive_part": "small-scope enumeration of the mlw engine incl. every fault assignment to depth 2(3); the random parts are sampled",
    },
    "C19": {
        "engine": "mlw",
        "level_text": "Lean 4 theorems C19.write_only_when_needed / flush_writes_only_pending / emits_are_greedy / greedy_is_minimal / greedy_groups_fit: writes happen only when forced, emit runs produce the in-order greedy packing, which is minimal among all in-order packings.",
        "level_note": _WRITER_NOTE,
        "technique": "Lean 4 proof (refinement + greedy-packing minimality by induction) + model/implementation correspondence",
        "trusted_base": _WRITER_TB,
        "assumptions": [STD_BUFWRITER, ORACLE],
        "rule": _WRITER_RULE,
        "exhaustive_part": "small-scope enumeration of the mlw engine (see rule); the random parts are sampled",
    },
}


MANIFEST_ENGINES = [
    {"name": "mlw", "path": "harness/src/bin/mlw.rs", "serves_properties": ["C05", "C06", "C07", "C19"],
     "kind_free_text": "drives cadence::ext::MultiLineWriter and BufferedSpyMetricSink (also through StatsdClient::flush and QueuingMetricSink::flush) over a scripted recording Write; the Lean driver runs the model on the same cases"},
]

HOOK_COMMITS = []

_WIP = "check not built yet (work in progress; planned, see DESIGN.md section 7)"
NOT_CLAIMED = {"C%02d" % i: _WIP for i in range(1, 21)}
