"""Per-property and per-engine tables used by the orchestrator."""

KERNEL = "Lean 4.33.0 kernel (lake build); axioms limited to propext, Classical.choice, Quot.sound (audited by #print axioms on every property theorem)"
TIE = "hand-written Lean model tied to /repo's working tree by the differential correspondence check (Rust harness in-process against the real code, same cases through the compiled Lean driver); its reach is bounded by the generators"
STD_BUFWRITER = "std::io::BufWriter (write, write_cold, flush_buf with Interrupted retry, Drop) is modelled, not verified; Vec::with_capacity(n) has capacity exactly n for u8"
ORACLE = "every underlying write is all-or-nothing (Ok(len) or Err), as C07 states; the environment is an arbitrary outcome list (oracle) the theorems quantify over"


def _hex(b):
    return "-" if not b else "".join("%02x" % x for x in b)


def mlw_continuations(case):
    """continuation search for the line writer: append up to 3 further ops from a boundary alphabet"""
    f = case.split(" ")
    if f[0] != "mlw" or len(f) != 5:
        return []
    cap = int(f[1])
    elen = 0 if f[2] == "-" else len(f[2]) // 2
    base_ops = [] if f[4] == "-" else f[4].split(",")
    lens = sorted(set(x for x in [0, 1, cap - elen - 1, cap - elen, cap - elen + 1, cap, cap + 1] if x >= 0))
    alpha = ["f"] + ["e" + _hex([0x41 + (i % 26)] * n) for i, n in enumerate(lens)]
    out = []
    seqs = [[]]
    for _ in range(3):
        seqs = [s + [a] for s in seqs for a in alpha]
        for s in seqs:
            for orc in (f[3], "-"):
                out.append("mlw %s %s %s %s" % (f[1], f[2], orc, ",".join(base_ops + s)))
    return out


ENGINES = {
    "mlw": {"continuations": mlw_continuations},
}

_WRITER_TB = [KERNEL, TIE, STD_BUFWRITER, ORACLE]
_WRITER_RULE = ("engine mlw: exhaustive small scope (capacities 0..4(6), terminators of length 0..2(3), op sequences over boundary "
                "lengths/flush to depth 3(4-5), every ok/err/Interrupted oracle to depth 2(3)), seeded random long histories with fault "
                "scripts, a hostile stream (metrics containing the terminator), and BufferedSpyMetricSink through StatsdClient::flush and "
                "QueuingMetricSink::flush with a bounded receiver as fault injector; a case is distinct by its text and non-trivial when "
                "its model run reaches a branch other than plain buffering / empty flush (counted by the driver)")

PROPS = {
    "C05": {
        "engine": "mlw",
        "trusted_base": _WRITER_TB,
        "assumptions": [STD_BUFWRITER, ORACLE, "sinks lock a Mutex around each whole emit/flush (C12's concern)"],
        "rule": _WRITER_RULE,
        "exhaustive_part": "small-scope enumeration of the mlw engine (see rule); the random parts are sampled",
    },
    "C06": {
        "engine": "mlw",
        "trusted_base": _WRITER_TB,
        "assumptions": [STD_BUFWRITER, ORACLE],
        "rule": _WRITER_RULE,
        "exhaustive_part": "small-scope enumeration of the mlw engine (see rule); the random parts are sampled",
    },
    "C07": {
        "engine": "mlw",
        "trusted_base": _WRITER_TB,
        "assumptions": [STD_BUFWRITER, ORACLE],
        "rule": _WRITER_RULE,
        "exhaustive_part": "small-scope enumeration of the mlw engine incl. every fault assignment to depth 2(3); the random parts are sampled",
    },
    "C19": {
        "engine": "mlw",
        "trusted_base": _WRITER_TB,
        "assumptions": [STD_BUFWRITER, ORACLE],
        "rule": _WRITER_RULE,
        "exhaustive_part": "small-scope enumeration of the mlw engine (see rule); the random parts are sampled",
    },
}
