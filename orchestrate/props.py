"""Per-property and per-engine tables used by the orchestrator."""

KERNEL = "Lean 4.33.0 kernel (lake build); axioms limited to propext, Classical.choice, Quot.sound (audited by #print axioms on every property theorem)"
TIE = "hand-written Lean model tied to /repo's working tree by the differential correspondence check (Rust harness in-process against the real code, same cases through the compiled Lean driver); its reach is bounded by the generators"
STD_BUFWRITER = "std::io::BufWriter (write, write_cold, flush_buf with Interrupted retry, Drop) is modelled, not verified; Vec::with_capacity(n) has capacity exactly n for u8"
ORACLE = "every underlying write is all-or-nothing (Ok(len) or Err), as C07 states; the environment is an arbitrary outcome list (oracle) the theorems quantify over"


def _hex(b):
    return "-" if not b else "".join("%02x" % x for x in b)


def mlw_continuations(case):
    """continuation search for the line writer: append up to 3 further ops from a boundary alphabet"""
    f = case.split(" ")
    if f[0] != "mlw" or len(f) != 5:
        return []
    cap = int(f[1])
    elen = 0 if f[2] == "-" else len(f[2]) // 2
    base_ops = [] if f[4] == "-" else f[4].split(",")
    lens = sorted(set(x for x in [0, 1, cap - elen - 1, cap - elen, cap - elen + 1, cap, cap + 1] if x >= 0))
    alpha = ["f"] + ["e" + _hex([0x41 + (i % 26)] * n) for i, n in enumerate(lens)]
    out = []
    seqs = [[]]
    for _ in range(3):
        seqs = [s + [a] for s in seqs for a in alpha]
        for s in seqs:
            for orc in (f[3], "-"):
                out.append("mlw %s %s %s %s" % (f[1], f[2], orc, ",".join(base_ops + s)))
    return out


ENGINES = {
    "mlw": {"continuations": mlw_continuations},
    "fmt": {},
    "queue": {"liveness_marker": "T", "shards": 8},
    "sock": {},
    "holder": {},
    "macros": {},
}

KERNEL_SOCKETS = "the operating system's datagram sockets: one send_to = one datagram or one error; loopback delivery is loss-free and synchronous (a missing datagram is waited for up to 200 ms)"
MUTEX = "std::sync::Mutex gives mutual exclusion for a whole emit/flush (modelled: a concurrent execution is an interleaving of whole operations)"
MEMMODEL = "the release/acquire fragment of the C11 memory model as formalised in Cadence/Model/Holder.lean (views as sets of event ids, coherence per location, RMW atomicity) is the meaning of 'data race' here"
_S_TB = [KERNEL, TIE, STD_BUFWRITER, KERNEL_SOCKETS]
_S_RULE = ("engine sock: UdpMetricSink / UnixMetricSink / BufferedUdpMetricSink / BufferedUnixMetricSink on 127.0.0.1 and temp-dir Unix "
           "datagram sockets, blocking and non-blocking, capacities {0,1,8,512,1432,default,random}, metric lengths incl. 0, 1432, 8192, "
           "65507, 65508 (EMSGSIZE on UDP), 70000, multi-byte UTF-8; injected failures: EMSGSIZE, ENOENT (missing path), EAGAIN (full "
           "peer queue, manual drain); stats read directly and through a wrapping QueuingMetricSink after ops; the peer's received "
           "datagrams are the ground truth; free-running multi-thread runs (2-16 threads) on BufferedSpyMetricSink / BufferedUnixMetricSink "
           "with and without concurrent flushes; a deterministic lock-contention scenario. Distinct by text; every case is non-trivial")
_S_NOTE = ("Trusted: Lean kernel + propext/Classical.choice/Quot.sound; kernel socket behaviour is outside any model; the sink model is tied "
           "to the code by the correspondence on real sockets")

CROSSBEAM = "crossbeam_channel bounded/unbounded channels are linearizable FIFO queues with atomic try_send/recv/is_empty; std::thread::spawn; Arc drop order; unwinding through the worker into Sentinel::drop (all modelled as atomic labels, not verified)"
_Q_TB = [KERNEL, TIE, CROSSBEAM]
_Q_RULE = ("engine queue: QueuingMetricSink with a gated scripted wrapped sink (records thread, order, its own Drop); every history over "
           "{emit h, clone, drop, finish ok/err/panic, read counters} to depth 4(6) over 2 handles for capacities {1,2,(3),unbounded}; "
           "back-pressure tables (capacity 1..8, gate closed) and last-drop at every occupancy with every outcome pattern; seeded random "
           "histories (<= 5 handles, capacities 1..8/unbounded, handler on/off); free-running multi-producer stress. The engine waits "
           "event-driven for exactly the events the history makes due (no conclusion from silence except a reported timeout, re-run "
           "with 5x the timeout before it counts). Distinct by text; non-trivial = contains a clone, drop, error, panic, refusal or counter read")
_Q_NOTE = ("Trusted: Lean kernel + propext/Classical.choice/Quot.sound; the LTS's atomicity granularity (crossbeam, Arc, thread spawn, "
           "unwinding) is modelled; real-thread schedules are sampled by the harness in the sequentialised (quiescent) schedule plus "
           "free-running stress, not enumerated; capacity 0 (rendezvous channel) has its own model Cadence/Model/Queue0.lean (crossbeam zero flavour: try_send succeeds iff a receiver waits, is_empty() constantly true - trusted), tied by the queue0 histories, in which a refused emit is taken from the implementation (the harness cannot steer whether the worker is back in recv_timeout)")

STD_DISPLAY = "impl Display for integers and f64 (std), str::trim_end_matches, String concatenation, Duration::as_millis/as_nanos are modelled, not verified"
_FMT_TB = [KERNEL, TIE, STD_DISPLAY]
_FMT_RULE = ("engine fmt: for every sampled client configuration (prefix shapes, 0-5 default tags, optional default container) all 24 "
             "entry points x {plain, tagged try_send, tagged quiet send} x all 16 subsets of {rate, tags, container, timestamp}, values "
             "from type-boundary edge sets and random; an exhaustive {valid, invalid} x {accept, refuse(3 kinds)} x form x entry table; "
             "random call sequences with accept/refuse scripts; a hostile stream (delimiter-laden, empty, multi-byte, very long strings); "
             "the 10 standalone constructors. A case is distinct by its text; non-trivial = anything but a plain accepted call")
_FMT_NOTE = ("Trusted: Lean kernel + propext/Classical.choice/Quot.sound; the hand-written model of MetricFormatter/StatsdClient/"
             "MetricBuilder is tied to the code only by the correspondence harness; std's integer/float Display and Duration arithmetic")

_WRITER_TB = [KERNEL, TIE, STD_BUFWRITER, ORACLE]
_WRITER_RULE = ("engine mlw: exhaustive small scope (capacities 0..4(6), terminators of length 0..2(3), op sequences over boundary "
                "lengths/flush to depth 3(4-5), every ok/err/Interrupted oracle to depth 2(3)), seeded random long histories with fault "
                "scripts, a hostile stream (metrics containing the terminator), and BufferedSpyMetricSink through StatsdClient::flush and "
                "QueuingMetricSink::flush with a bounded receiver as fault injector; a case is distinct by its text and non-trivial when "
                "its model run reaches a branch other than plain buffering / empty flush (counted by the driver)")

_WRITER_NOTE = ("Trusted: Lean kernel + propext/Classical.choice/Quot.sound; the hand-written model of std BufWriter and of "
                "MultiLineWriter is tied to the code only by the correspondence harness (differential testing, bounded by its "
                "generators); all-or-nothing underlying writes")

PROPS = {
    "C01": {
        "engine": "fmt",
        "level_text": "Lean 4 theorems C01.format_is_line / call_emits_line / name_of_prefix / parse_back / numerals_delimFree / standalone_same_text: every string any call form of any entry point hands the sink is the grammar's rendering of exactly the supplied fields, and parsing a well-formed rendered line returns it. The macro call form is tied in by C17.",
        "level_note": _FMT_NOTE + "; float tokens are delimiter-free only by std's printing (checked per sampled float)",
        "technique": "Lean 4 proof (formatter = grammar rendering; parser round trip via splitOn/joinSep lemmas) + model/implementation correspondence with parse-back predicates",
        "trusted_base": _FMT_TB,
        "assumptions": [STD_DISPLAY, "float text is what std printed for the sampled value"],
        "rule": _FMT_RULE,
        "exhaustive_part": "the outcome table and, per sampled configuration, every entry point x form x subset of optional sections; configurations and values are sampled",
    },
    "C02": {
        "engine": "fmt",
        "level_text": "Lean 4 theorems C02.unsigned_roundtrip / signed_roundtrip / canonical / integers_exact / timer_millis / timer_overflow / histogram_nanos / histogram_overflow / duration_lists / packed_keeps_length_and_order / float_text_passthrough. Integers, durations, lists: whole range. PARTIAL for 'all finite f64': cadence passes std's text through unchanged (proved); that the numeral on the wire lies in the round-to-nearest-even interval of the supplied bits is decided exactly (integer arithmetic, Check/Float.lean `RoundTrips`) for every sampled float value and sampling rate, but not proved for all doubles (that is std's shortest-round-trip printing).",
        "level_note": _FMT_NOTE + "; std's shortest-round-trip float printing is trusted (partial clause)",
        "technique": "Lean 4 proof (numeral round trips, conversion arithmetic) + model/implementation correspondence on boundary values",
        "trusted_base": _FMT_TB + ["std's f64 Display prints a decimal that parses back to the same bits: decided exactly per sampled float by RoundTrips, trusted for the unsampled ones"],
        "assumptions": [STD_DISPLAY],
        "rule": _FMT_RULE,
        "exhaustive_part": "as C01; Duration boundaries (+-1 ns around both overflow limits) are always included",
    },
    "C03": {
        "engine": "fmt",
        "level_text": "Lean 4 theorems C03.one_emit_iff_valid / ok_means_accepted / refused_means_sink_error / rejected_means_invalid_input / handler_silent_on_success / quiet_never_errors / sequence_pointwise over the call model, for all entry points, forms, values and sink-outcome scripts.",
        "level_note": _FMT_NOTE + "; error identity is observed through a unique token embedded in each scripted io::Error",
        "technique": "Lean 4 proof (case analysis of the call model; statelessness lifts to sequences) + scripted-sink correspondence",
        "trusted_base": _FMT_TB,
        "assumptions": [STD_DISPLAY, "the sink is called synchronously by send_metric; the error handler is the one configured on the client"],
        "rule": _FMT_RULE,
        "exhaustive_part": "{valid, invalid} x {accept, refuse x 3 kinds} x {plain, try_send, send} x 24 entry points; sequences are sampled",
    },
    "C04": {
        "engine": "fmt",
        "level_text": "Lean 4 theorems C04.defaults_then_call_tags / container_override / override_does_not_persist / no_defaults_adds_nothing / emitted_decoration over the client model; uniformity over the seven separately written *_with_tags impls is established by the exhaustive entry-point enumeration of the correspondence.",
        "level_note": _FMT_NOTE,
        "technique": "Lean 4 proof (fold invariant over builder operations) + model/implementation correspondence over every entry point and form",
        "trusted_base": _FMT_TB,
        "assumptions": [STD_DISPLAY],
        "rule": _FMT_RULE,
        "exhaustive_part": "per sampled configuration every entry point x form x subset of optional sections",
    },
    "C05": {
        "engine": ["mlw", "sock"],
        "level_text": "Lean 4 theorems C05.framing / refines_spec / invariant_reachable: for every capacity (0 and 1 included), terminator, history of emits/flushes + drop and every oracle, each attempted underlying write is a frame; the concrete writer refines the pending-lines spec. Model tied to the code by the correspondence check on every run.",
        "level_note": _WRITER_NOTE,
        "technique": "Lean 4 proof (inductive invariant + refinement to a pending-lines specification) + model/implementation correspondence",
        "trusted_base": _WRITER_TB,
        "assumptions": [STD_BUFWRITER, ORACLE, "sinks lock a Mutex around each whole emit/flush (C12's concern)"],
        "rule": _WRITER_RULE,
        "exhaustive_part": "small-scope enumeration of the mlw engine (see rule); the random parts are sampled",
    },
    "C06": {
        "engine": ["mlw", "sock", "queue"],
        "level_text": "Lean 4 theorems C06.conservation / flush_ok_all_written / drop_all_written / flush_idempotent / emit_ok_len / oversize_written_in_own_emit over the same model: delivered ++ pending = acknowledged lines (as lists: exactly once, in order) for every history and oracle. Line-level statements assume a non-empty terminator.",
        "level_note": _WRITER_NOTE + "; StatsdClient::flush and QueuingMetricSink::flush are covered by the correspondence as delegations (spy cases; queue-engine cases flush through the wrapper while metrics are still queued)",
        "technique": "Lean 4 proof (refinement + conservation invariant over histories) + model/implementation correspondence",
        "trusted_base": _WRITER_TB,
        "assumptions": [STD_BUFWRITER, ORACLE],
        "rule": _WRITER_RULE,
        "exhaustive_part": "small-scope enumeration of the mlw engine (see rule); the random parts are sampled",
    },
    "C07": {
        "engine": ["mlw", "sock"],
        "level_text": "Lean 4 theorems C07.emit_result / flush_result / failed_emit_not_kept / conservation_under_faults / flush_writes_all_pending / framing_survives_faults, each universally quantified over the oracle (every fail/succeed/Interrupted assignment to every attempted write).",
        "level_note": _WRITER_NOTE,
        "technique": "Lean 4 proof (oracle-quantified refinement and conservation) + fault-script correspondence",
        "trusted_base": _WRITER_TB,
        "assumptions": [STD_BUFWRITER, ORACLE],
        "rule": _WRITER_RULE,
        "exhaustive_part": "small-scope enumeration of the mlw engine incl. every fault assignment to depth 2(3); the random parts are sampled",
    },
    "C08": {
        "engine": "queue",
        "level_text": 'Lean 4 theorems C08.exactly_once_in_order / per_producer_order / worker_alive_while_handle_alive / worker_makes_progress / quiescent_schedule_is_a_run / quiescent_schedule_settles / predicate_accepts_every_model_history / predicate_accepts_every_closed_model_history; for capacity 0 (rendezvous model Queue0) rendezvous_fifo_exactly_once / rendezvous_in_hand_is_delivered / rendezvous_model_run_is_lts_run: an inductive invariant of the queuing-sink LTS over all interleavings of producers, clones, drops, worker steps and wrapped-sink outcomes; liveness as progress + bounded worker runs; the executable per-operation predicates (Check/Queue.lean) are proved to accept every history as the model runs it (no alarm can be an artefact of a predicate).',
        "level_note": _Q_NOTE,
        "technique": 'Lean 4 proof (inductive invariant of a labelled transition system over all schedules; progress + termination measure) + sequentialised correspondence + stress',
        "trusted_base": _Q_TB,
        "assumptions": [CROSSBEAM, "the wrapped sink returns from every call (liveness statements)", "the scheduler does not starve the worker thread"],
        "rule": _Q_RULE,
        "exhaustive_part": "all histories to the stated depth over 2 handles; back-pressure and last-drop tables; random and stress parts are sampled",
    },
    "C09": {
        "engine": "queue",
        "level_text": 'Lean 4 theorems C09.drop_never_blocks / stop_request_survives / last_drop_terminates / drains_before_release over the same LTS, for every capacity >= 1 or unbounded, every occupancy (full queue included) and every outcome script. Capacity 0 (rendezvous channel): C09.rendezvous_drop_never_blocks / rendezvous_stop_request_survives / rendezvous_last_drop_terminates / rendezvous_drains_before_release over the model Queue0 of the polling worker loop (cea8c71), and C09.rendezvous_blocking_recv_loses_stop (the loop before the repair reaches a state with no enabled step and the wrapped sink unreleased). PARTIAL there: finiteness before the dropping thread has set the flag needs a scheduler-fairness assumption that is not proved; tied by queue0 histories against Queue0.modelRun and the qstop0 race scenario.',
        "level_note": _Q_NOTE,
        "technique": 'Lean 4 proof (invariant + progress + termination measure after the last drop) + last-drop correspondence at every occupancy',
        "trusted_base": _Q_TB,
        "assumptions": [CROSSBEAM, "the wrapped sink returns from every call (liveness statements)", "the scheduler does not starve the worker thread"],
        "rule": _Q_RULE,
        "exhaustive_part": "all histories to the stated depth over 2 handles; back-pressure and last-drop tables; random and stress parts are sampled",
    },
    "C10": {
        "engine": "queue",
        "level_text": "Lean 4 theorems C10.emit_depends_only_on_room / capacity_never_exceeded / unbounded_accepts_all / callers_never_run_the_sink; capacity 0: C10.rendezvous_emit_never_waits (accepted exactly when the worker waits, model Queue0). PARTIAL for 'promptly': non-blocking is a theorem of the model and of crossbeam's try_send contract; wall-clock latency is observed (2 s watchdog).",
        "level_note": _Q_NOTE + '; wall-clock promptness is a runtime observation',
        "technique": 'Lean 4 proof (emit result is a function of queue room; capacity invariant; actor separation) + gate-closed correspondence',
        "trusted_base": _Q_TB,
        "assumptions": [CROSSBEAM, "the wrapped sink returns from every call (liveness statements)", "the scheduler does not starve the worker thread"],
        "rule": _Q_RULE,
        "exhaustive_part": "all histories to the stated depth over 2 handles; back-pressure and last-drop tables; random and stress parts are sampled",
    },
    "C11": {
        "engine": "queue",
        "level_text": 'Lean 4 theorems C11.panic_consumes_only_the_metric / delivery_survives_panics / keeps_accepting / panic_count_exact / stop_honoured_after_panic over the same LTS (reachability includes every pattern of panics).',
        "level_note": _Q_NOTE,
        "technique": 'Lean 4 proof (invariant across panic/respawn transitions) + scripted-panic correspondence',
        "trusted_base": _Q_TB,
        "assumptions": [CROSSBEAM, "the wrapped sink returns from every call (liveness statements)", "the scheduler does not starve the worker thread"],
        "rule": _Q_RULE,
        "exhaustive_part": "all histories to the stated depth over 2 handles; back-pressure and last-drop tables; random and stress parts are sampled",
    },
    "C15": {
        "engine": "queue",
        "level_text": 'Lean 4 theorems C15.counters_track_history / refused_not_counted / quiescent_values / queued_never_wraps; try_send/count and recv/count are separate labels so the overtaking window is in the model. Capacity 0: C15.rendezvous_counters over the rendezvous model Queue0 (submitted counted with the try_send there: the window is not in that model).',
        "level_note": _Q_NOTE,
        "technique": 'Lean 4 proof (counter invariants over all interleavings; saturating difference bounds) + counter-read correspondence and concurrent sampling',
        "trusted_base": _Q_TB,
        "assumptions": [CROSSBEAM, "the wrapped sink returns from every call (liveness statements)", "the scheduler does not starve the worker thread"],
        "rule": _Q_RULE,
        "exhaustive_part": "all histories to the stated depth over 2 handles; back-pressure and last-drop tables; random and stress parts are sampled",
    },
    "C16": {
        "engine": "queue",
        "level_text": 'Lean 4 theorems C16.handler_sees_each_error_once / handler_before_next_metric / handler_on_worker / delivery_independent_of_handler: the real-time event log is, call by call, enter then (handled iff failed and configured).',
        "level_note": _Q_NOTE,
        "technique": 'Lean 4 proof (trace-structure invariant) + scripted Ok/Err correspondence with and without handler',
        "trusted_base": _Q_TB,
        "assumptions": [CROSSBEAM, "the wrapped sink returns from every call (liveness statements)", "the scheduler does not starve the worker thread"],
        "rule": _Q_RULE,
        "exhaustive_part": "all histories to the stated depth over 2 handles; back-pressure and last-drop tables; random and stress parts are sampled",
    },
    "C12": {
        "engine": "sock",
        "level_text": "Lean 4 theorems C12.interleaving_framing / interleaving_conservation / per_thread_program_order: the writer theorems hold for every list of thread-tagged operations, i.e. every interleaving of any number of threads. PARTIAL: the step from threads to interleavings of whole operations is the Mutex assumption, validated (not proved) by free-running stress whose datagram stream must equal the model's for the observed linearisation and by a deterministic lock-contention scenario.",
        "level_note": _S_NOTE + "; " + MUTEX + "; real schedules are sampled",
        "technique": "Lean 4 proof at operation granularity (all interleavings) + threaded correspondence and lock-contention scenario",
        "trusted_base": _S_TB + [MUTEX],
        "assumptions": [MUTEX, KERNEL_SOCKETS],
        "rule": _S_RULE,
        "exhaustive_part": "",
    },
    "C13": {
        "engine": "sock",
        "level_text": "Lean 4 theorems C13.unbuffered_exact / buffered_configuration / buffered_datagrams_framed / buffered_sends_the_rest (thin: one attempt with exactly the metric's bytes; buffered sinks are the line writer with terminator newline, capacity 512 by default). PARTIAL: the content is the tie to real sockets; kernel behaviour is outside any model.",
        "level_note": _S_NOTE,
        "technique": "Lean 4 proof (thin) + byte-for-byte correspondence on real loopback UDP / Unix datagram sockets",
        "trusted_base": _S_TB,
        "assumptions": [KERNEL_SOCKETS],
        "rule": _S_RULE,
        "exhaustive_part": "",
    },
    "C14": {
        "engine": ["sock", "queue"],
        "level_text": "Lean 4 theorems C14.counters_add_up / counters_never_decrease / unbuffered_attempts_are_emits / exact_under_concurrency (fetch_adds commute: any interleaving of any number of threads gives the same totals) + correspondence of stats() after every op against the datagrams the peer actually received, incl. EMSGSIZE / ENOENT / EAGAIN failures (refused payloads retried after back-pressure), more than 4 GiB through one sink, and reads through a wrapping queuing sink.",
        "level_note": _S_NOTE + "; counters are Nat (2^64 wrap-around out of physical reach)",
        "technique": "Lean 4 proof (fold over attempts; permutation invariance of increments) + stats-vs-received-datagrams correspondence",
        "trusted_base": _S_TB,
        "assumptions": [KERNEL_SOCKETS, "Relaxed fetch_add is atomic per counter"],
        "rule": _S_RULE,
        "exhaustive_part": "",
    },
    "C17": {
        "engine": "macros",
        "level_text": "Lean 4 theorems C17.unset_panics_first / panics_iff_unset / evaluates_each_argument_once_in_order / same_as_tagged_quiet_send over a model of the _generate_impl! expansion whose send is the `call` of C01/C03/C04. PARTIAL: the expansion model is tied to macros.rs by sampled invocations (all 7 macros x every value type x 0..4 tags, counting blocks, one fresh child process per global configuration incl. unset), not by translating the macro_rules! source.",
        "level_note": _FMT_NOTE + "; the model of the macro expansion is hand-written",
        "technique": "Lean 4 proof over a model of the macro expansion + instrumented-invocation correspondence in fresh child processes",
        "trusted_base": _FMT_TB,
        "assumptions": [STD_DISPLAY, "Rust evaluates macro-substituted argument expressions where the expansion places them"],
        "rule": "engine macros: per sampled global configuration (prefix, 0-3 default tags, optional container, unset every 12th) one child process; in it all 22 value-typed entry points through their statsd_*! macro with tag arity rotating over 0..4, each argument wrapped in a counting block, accept/refuse sink scripts, boundary values incl. overflowing Durations and empty lists; the event trace (evaluations, emit, handler, panic) is compared with the model's. Distinct by text; every case is non-trivial",
        "exhaustive_part": "every macro x value type x tag arity 0..4 occurs in every run; configurations and values are sampled",
    },
    "C18": {
        "engine": "holder",
        "level_text": "Lean 4 theorems C18.race_free_and_single_winner / protocol_invariant / reports_set_only_after_complete / orderings_are_needed over a release/acquire memory model: any number of threads, any programs of set/get/is_set, every schedule and every coherence-permitted read, under the orderings written in state.rs. The hook traces the orderings the code actually passes; every interleaving of the listed 2-3 thread program sets is executed on the real SingletonHolder under a controlled scheduler and compared event by event.",
        "level_note": "Trusted: Lean kernel + propext/Classical.choice/Quot.sound; " + MEMMODEL + "; cell accesses are classified read/write by the API call they occur in; on real hardware only sequentially consistent executions are exercised, weak behaviours exist in the model only",
        "technique": "Lean 4 proof in an operational release/acquire memory model + controlled-scheduler correspondence through the cfg(cadence_verif) hook (orderings are compared data)",
        "trusted_base": [KERNEL, TIE, MEMMODEL],
        "assumptions": [MEMMODEL, "the hook shim performs the real operation with the ordering it was given"],
        "rule": "engine holder: SingletonHolder<usize> under a controlled scheduler (each shim operation waits for a grant): every interleaving (capped at 700 per set in quick) of the program sets {s|g, s|s, s|i, s|s|g, s|g|g, s|g|i, sg|g, sg|sg, gs|ig, s|gg, sgi|is} plus seeded random programs/schedules of 2-3 threads; per call the shim events (operation, Ordering, value observed, sequence number) and the result (None / Some value @ pointer identity) are compared with the model's; distinct by text; non-trivial = contains a losing set or a get",
        "exhaustive_part": "all interleavings of the listed program sets (thorough: uncapped)",
    },
    "C19": {
        "engine": ["mlw", "sock", "queue"],
        "level_text": "Lean 4 theorems C19.write_only_when_needed / flush_writes_only_pending / emits_are_greedy / greedy_is_minimal / greedy_groups_fit: writes happen only when forced, emit runs produce the in-order greedy packing, which is minimal among all in-order packings.",
        "level_note": _WRITER_NOTE,
        "technique": "Lean 4 proof (refinement + greedy-packing minimality by induction) + model/implementation correspondence",
        "trusted_base": _WRITER_TB,
        "assumptions": [STD_BUFWRITER, ORACLE],
        "rule": _WRITER_RULE,
        "exhaustive_part": "small-scope enumeration of the mlw engine (see rule); the random parts are sampled",
    },
    "C20": {
        "engine": ["fmt", "mlw", "queue", "sock", "macros"],
        "level_text": "Lean 4 theorems C20.writer_never_panics / size_hint_never_panics / duration_conversions_safe / queued_never_panics / calls_total: the library's checked arithmetic and unwraps, modelled with an explicit panic outcome, are shown unreachable (under the resource hypothesis that the inputs exist in memory). Every engine runs its hostile stream under catch_unwind with overflow checks and debug assertions on; any panic is a violation.",
        "level_note": "Trusted: Lean kernel + propext/Classical.choice/Quot.sound; which arithmetic exists in the code is read off the source by hand (modelled: MultiLineWriter::write, from_val/with_tag/size_hint, Duration conversions, queued()); allocation failure, thread-spawn failure and stack exhaustion are excluded by hypothesis",
        "technique": "Lean 4 proof of the modelled checked arithmetic + catch_unwind correspondence over every engine's hostile inputs (overflow-checks, debug-assertions on)",
        "trusted_base": [KERNEL, TIE, STD_BUFWRITER, STD_DISPLAY, CROSSBEAM],
        "assumptions": ["every Vec/String an API call refers to exists in memory (total < 2^59 bytes/elements)", "no allocation / thread-spawn failure"],
        "rule": "engines fmt, mlw, queue, sock, macros: all their generated cases (hostile streams: empty / delimiter-laden / multi-byte / 40 kB strings, NaN / inf / -0.0 / subnormals / 1e300, i64::MIN, u64::MAX, Duration::MAX and the overflow boundaries, empty and 300-element packed lists, capacities 0 and 1, queue capacities 0 and 1) run under catch_unwind; a case is non-trivial by its engine's rule",
        "exhaustive_part": "the small-scope parts of the mlw and queue engines",
    },
}


MANIFEST_ENGINES = [
    {"name": "macros", "path": "harness/src/bin/macros.rs", "serves_properties": ["C17", "C20"],
     "kind_free_text": "the seven statsd_*! macros with counting-block arguments, one fresh child process per global-client configuration"},
    {"name": "sock", "path": "harness/src/bin/sock.rs", "serves_properties": ["C05", "C06", "C07", "C12", "C13", "C14", "C19", "C20"],
     "kind_free_text": "socket sinks on real loopback UDP / Unix datagram sockets with a reading peer; multi-threaded runs; lock-contention scenario"},
    {"name": "holder", "path": "harness/src/bin/holder.rs", "serves_properties": ["C18"],
     "kind_free_text": "SingletonHolder under a controlled scheduler through the cfg(cadence_verif) shim"},
    {"name": "queue", "path": "harness/src/bin/queue.rs", "serves_properties": ["C06", "C08", "C09", "C10", "C11", "C14", "C15", "C16", "C19", "C20"],
     "kind_free_text": "drives QueuingMetricSink / its builder with a gated scripted wrapped sink recording thread id, call order, handler calls and its own Drop; plus free-running multi-producer stress"},
    {"name": "fmt", "path": "harness/src/bin/fmt.rs", "serves_properties": ["C01", "C02", "C03", "C04", "C20"],
     "kind_free_text": "drives StatsdClient (24 entry points x 3 call forms x builder options), the standalone constructors, a scripted MetricSink and a recording error handler"},
    {"name": "mlw", "path": "harness/src/bin/mlw.rs", "serves_properties": ["C05", "C06", "C07", "C19", "C20"],
     "kind_free_text": "drives cadence::ext::MultiLineWriter and BufferedSpyMetricSink (also through StatsdClient::flush and QueuingMetricSink::flush) over a scripted recording Write; the Lean driver runs the model on the same cases"},
]

HOOK_COMMITS = ["f7f2c36"]

_WIP = "check not built yet (work in progress; planned, see DESIGN.md section 7)"
NOT_CLAIMED = {"C%02d" % i: _WIP for i in range(1, 21)}
