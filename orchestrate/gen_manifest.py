#!/usr/bin/env python3
"""Regenerate MANIFEST.json from orchestrate/props.py (run after adding a property check)."""
import json, os, sys
sys.path.insert(0, os.path.dirname(os.path.abspath(__file__)))
from props import PROPS, MANIFEST_ENGINES, HOOK_COMMITS, NOT_CLAIMED

ROOT = os.path.dirname(os.path.dirname(os.path.abspath(__file__)))
checks = []
for pid in sorted(PROPS):
    p = PROPS[pid]
    checks.append({
        "property_id": pid,
        "quick_cmd": "./check %s --tier quick" % pid,
        "thorough_cmd": "./check %s --tier thorough" % pid,
        "evidence_file": "/verif/evidence/%s.json" % pid,
        "replay_cmd_template": "./check replay {path}",
        "engine": p["engine"] if isinstance(p["engine"], str) else "+".join(p["engine"]),
        "level_claimed": {"category": "proof", "text": p["level_text"], "design_ref": "DESIGN.md section 7/" + pid},
        "level_note": p["level_note"],
        "technique": p["technique"],
    })
m = {
    "version": 1,
    "setup_cmd": "./setup.sh",
    "hooks": {
        "guard": "cadence_verif",
        "enable": "RUSTFLAGS=--cfg cadence_verif, set for the harness build in harness/.cargo/config.toml; only cadence-macros/src/state.rs looks at it",
        "baseline_off_cmd": "cd /repo && cargo test --workspace --no-fail-fast --offline",
        "source_commits": HOOK_COMMITS,
        "add_only": True,
    },
    "engines": MANIFEST_ENGINES,
    "checks": checks,
    "notes": "Lean 4 proofs over a hand-written executable model + differential correspondence against /repo's working tree on every run; see DESIGN.md.",
    "not_applicable": [{"property_id": k, "reason": v} for k, v in sorted(NOT_CLAIMED.items()) if k not in PROPS],
}
json.dump(m, open(os.path.join(ROOT, "MANIFEST.json"), "w"), indent=1)
print("MANIFEST.json: %d checks, %d not claimed" % (len(checks), len(m["not_applicable"])))
