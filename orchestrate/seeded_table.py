#!/usr/bin/env python3
"""development helper: regenerate the table of DESIGN.md section 12 from seeded/*/meta.json"""
import json, glob, os, re
ROOT = os.path.dirname(os.path.dirname(os.path.abspath(__file__)))
rows = []
def key(d):
    b = os.path.basename(d); p, n = b.split('-'); return (p, int(n))
for d in sorted(glob.glob(ROOT + '/seeded/C*-*'), key=key):
    m = json.load(open(os.path.join(d, 'meta.json')))
    id = os.path.basename(d); n = int(id.split('-')[1])
    rnd = m.get('round')
    if rnd is None:
        rnd = 1 if n <= 2 else 2
        if id == 'C18-5': rnd = 'own'
    r = 'own' if rnd == 'own' else 'r%d' % rnd
    files = []
    for l in open(os.path.join(d, 'patch.diff')):
        mm = re.match(r'\+\+\+ b/(.*)', l)
        if mm:
            f = mm.group(1).replace('cadence-macros/src/', 'macros:').replace('cadence/src/', '')
            if f not in files: files.append(f)
    cb = m.get('caught_by', '').replace('|', '/').replace('\n', ' ')
    h = m.get('history', '').replace('|', '/').replace('\n', ' ')
    if h.startswith('caught by the checks as first built') or h in ('caught by the checks as they stood before round 3', 'caught by the checks as they stood after round 1', 'caught by the checks as they stood before round 4'): h = '—'
    rows.append('| %s | %s | %s | %s | %s |' % (id, r, ', '.join(files), cb, h))
table = '| seeded change | round | touches | caught by | history |\n|---|---|---|---|---|\n' + '\n'.join(rows) + '\n'
s = open(ROOT + '/DESIGN.md').read()
a = s.index('| seeded change | round | touches | caught by | history |')
b = s.index('### 12.1 White-box review')
open(ROOT + '/DESIGN.md', 'w').write(s[:a] + table + '\n\n' + s[b:])
print(len(rows), "rows")
