#!/bin/sh
# development helper: regress_family.sh C08 C09 …  — the seeded changes of the given properties, each against its own check
cd "$(dirname "$0")/.."
for prop in "$@"; do
  for d in seeded/$prop-*/; do
    id=$(basename "$d")
    python3 orchestrate/try_patch.py "$d/patch.diff" "$prop" 2>&1 | grep -E "^C[0-9]+ |does not apply|refusing" | sed "s|^|$id |" | cut -c1-240
  done
done
