#!/bin/sh
# development helper: quick checks over several seeds; prints one line per check, and the whole output of any
# check whose last line is not an OK line (flakiness hunt)
cd "$(dirname "$0")/.."
for s in "$@"; do
  for i in $(seq -w 1 20); do
    VERIF_SEED=$s ./check C$i --tier quick > work/sweep.out 2>&1
    rc=$?
    last=$(tail -1 work/sweep.out)
    echo "seed=$s rc=$rc $last"
    case "$last" in
      OK*) ;;
      *) echo "----- full output"; cat work/sweep.out; echo "----- dmesg"; dmesg 2>/dev/null | tail -5; free -m; echo "-----";;
    esac
  done
done
