#!/usr/bin/env python3
"""Mutation self-test helper (development only, not a registered check).

  try_patch.py <patch.diff> [PROP ...]     apply the patch to /repo, run the quick checks of the given
                                           properties (default: all), restore /repo; print one line per check
"""
import os, subprocess, sys, json, time
ROOT = os.path.dirname(os.path.dirname(os.path.abspath(__file__)))

CUR = [None]


def _term(signum, frame):
    raise KeyboardInterrupt()


def main():
    import signal
    signal.signal(signal.SIGTERM, _term)
    patch = os.path.abspath(sys.argv[1])
    props = sys.argv[2:] or ["C%02d" % i for i in range(1, 21)]
    st = subprocess.run(["git", "-C", "/repo", "status", "--porcelain"], capture_output=True, text=True).stdout.strip()
    if st:
        print("refusing: /repo is not clean:\n" + st); return 2
    r = subprocess.run(["git", "-C", "/repo", "apply", patch], capture_output=True, text=True)
    if r.returncode != 0:
        # the patch was made against an earlier HEAD (before a later `fix:` commit): merge it
        r = subprocess.run(["git", "-C", "/repo", "apply", "--3way", patch], capture_output=True, text=True)
        subprocess.run(["git", "-C", "/repo", "reset", "-q"], capture_output=True, text=True)
        conflicted = subprocess.run("grep -rl '^<<<<<<< ' /repo/cadence/src /repo/cadence-macros/src", shell=True, capture_output=True, text=True).stdout.strip()
        if r.returncode != 0 or conflicted:
            subprocess.run(["git", "-C", "/repo", "checkout", "--", "."])
            print("patch does not apply:", r.stderr[:300]); return 2
    results = {}
    try:
        for p in props:
            t0 = time.time()
            # own session: on interruption only this check's process group is killed (vp runs share the
            # process namespace and /repo with the interactive session: never run two users of /repo at once)
            proc = subprocess.Popen([os.path.join(ROOT, "check"), p, "--tier", "quick"], stdout=subprocess.PIPE,
                                    stderr=subprocess.PIPE, text=True, cwd=ROOT, start_new_session=True)
            CUR[0] = proc
            out, _ = proc.communicate()
            CUR[0] = None
            r = subprocess.CompletedProcess(proc.args, proc.returncode, out, "")
            lines = [l for l in r.stdout.splitlines() if l.startswith(("VIOLATION", "OK", "KNOWN", "INFRA"))]
            info = ""
            for l in lines:
                if l.startswith("VIOLATION") and "replay=" in l:
                    path = l.split("replay=")[1].split()[0]
                    try:
                        d = json.load(open(path))
                        info = (d.get("failed_clause") or d.get("what") or "")[:110] + " | " + (d.get("case") or d.get("minimised_case") or "")[:100]
                    except Exception:
                        pass
                    break
            verdict = "CAUGHT" if r.returncode == 1 else ("ok" if r.returncode == 0 else "rc%d" % r.returncode)
            nf = " (no-failing-input-found)" if any("no-failing-input-found" in l for l in lines) else ""
            print("%s %s%s %.0fs %s" % (p, verdict, nf, time.time() - t0, info), flush=True)
            results[p] = verdict + nf
    except KeyboardInterrupt:
        print("interrupted")
    finally:
        if CUR[0] is not None:
            try:
                os.killpg(CUR[0].pid, 15)
            except Exception:
                pass
        subprocess.run(["git", "-C", "/repo", "checkout", "--", "."])
        subprocess.run(["git", "-C", "/repo", "clean", "-fdq", "--", "cadence", "cadence-macros"])
    return 0

if __name__ == "__main__":
    sys.exit(main())
