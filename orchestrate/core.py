#!/usr/bin/env python3
"""Orchestrator for the cadence verification checks (python3 stdlib only).

    ./check <PROP> [--tier quick|thorough]      decide one property
    ./check replay <replay.json>                re-run a recorded case on the current tree

One run of a property =
  1. Lean obligations: build Cadence.Props.<PROP> (and the driver), audit `#print axioms` of every
     property theorem against {propext, Classical.choice, Quot.sound}, grep for forbidden constructs.
  2. Correspondence: build the Rust engine against /repo's working tree, run the regression corpus
     and the generators, pipe every case (operations + implementation observation) through the
     compiled Lean driver, which runs the model on the same case, compares the property's
     projection and evaluates the property's executable predicates on the implementation's
     observation.
  3. When something breaks: shrink, search for a failing input, write a replay, print VIOLATION /
     KNOWN-FINDING lines.  Evidence goes to evidence/<PROP>.json on every run.
"""
import fcntl
import hashlib
import json
import os
import re
import subprocess
import sys
import time
from concurrent.futures import ThreadPoolExecutor

ROOT = os.path.dirname(os.path.dirname(os.path.abspath(__file__)))
LEAN = os.path.join(ROOT, "lean")
HARNESS = os.path.join(ROOT, "harness")
WORK = os.path.join(ROOT, "work")
EVID = os.path.join(ROOT, "evidence")
REPLAYS = os.path.join(EVID, "replays")
CORPUS = os.path.join(ROOT, "corpus")
KNOWN = os.path.join(ROOT, "KNOWN_FINDINGS.txt")
DRIVER = os.path.join(LEAN, ".lake", "build", "bin", "driver")
ALLOWED_AXIOMS = {"propext", "Classical.choice", "Quot.sound"}
NCPU = min(16, os.cpu_count() or 4)

sys.path.insert(0, os.path.dirname(os.path.abspath(__file__)))
from props import PROPS, ENGINES  # noqa: E402


def log(*a):
    print(*a, file=sys.stderr, flush=True)


def sh(cmd, cwd=None, env=None, timeout=None, stdin=None):
    e = dict(os.environ)
    e["CARGO_NET_OFFLINE"] = "true"
    if env:
        e.update(env)
    p = subprocess.run(cmd, cwd=cwd, env=e, input=stdin, capture_output=True, text=True, timeout=timeout)
    return p.returncode, p.stdout, p.stderr


class Lock:
    def __init__(self, name):
        os.makedirs(WORK, exist_ok=True)
        self.path = os.path.join(WORK, name + ".lock")

    def __enter__(self):
        self.f = open(self.path, "w")
        fcntl.flock(self.f, fcntl.LOCK_EX)

    def __exit__(self, *a):
        fcntl.flock(self.f, fcntl.LOCK_UN)
        self.f.close()


# ---------------------------------------------------------------------------------------------
# 1. Lean obligations

def theorem_names(prop):
    """fully qualified names of the theorems stated in Cadence/Props/<prop>.lean"""
    path = os.path.join(LEAN, "Cadence", "Props", prop + ".lean")
    if not os.path.exists(path):
        return []
    src = open(path).read()
    src = re.sub(r"/-.*?-/", "", src, flags=re.S)
    ns = []
    names = []
    for line in src.splitlines():
        m = re.match(r"\s*namespace\s+(\S+)", line)
        if m:
            ns.append(m.group(1))
            continue
        m = re.match(r"\s*end\s+(\S+)", line)
        if m and ns and ns[-1] == m.group(1):
            ns.pop()
            continue
        m = re.match(r"\s*(?:private\s+)?theorem\s+(\S+)", line)
        if m:
            names.append(".".join(ns + [m.group(1)]))
    return names


FORBIDDEN = re.compile(r"\bsorry\b|\badmit\b|^\s*axiom\s|native_decide|bv_decide|implemented_by|\bunsafe\s|maxHeartbeats\s+0", re.M)


def import_closure(prop):
    """source files of the Cadence modules Cadence/Props/<prop>.lean depends on (transitively)"""
    seen, todo = set(), ["Cadence.Props." + prop]
    while todo:
        m = todo.pop()
        if m in seen:
            continue
        path = os.path.join(LEAN, *m.split(".")) + ".lean"
        if not os.path.exists(path):
            continue
        seen.add(m)
        for l in open(path):
            mm = re.match(r"\s*import\s+(Cadence\.\S+)", l)
            if mm:
                todo.append(mm.group(1))
    return sorted(os.path.join(LEAN, *m.split(".")) + ".lean" for m in seen)


def forbidden_hits(prop):
    hits = []
    for p in import_closure(prop):
        if True:
            if True:
                pass
            src = open(p).read()
            nocom = re.sub(r"/-.*?-/", lambda m: "\n" * m.group(0).count("\n"), src, flags=re.S)
            nocom = re.sub(r"--.*", "", nocom)
            for m in FORBIDDEN.finditer(nocom):
                hits.append("%s: %s" % (os.path.relpath(p, LEAN), m.group(0).strip()))
    return hits


def lean_obligations(prop, thorough=False):
    """returns dict(obligations, discharged, failed:[...], axioms:{thm:[..]}, log)"""
    res = {"obligations": 0, "discharged": 0, "failed": [], "axioms": {}, "log": ""}
    thms = theorem_names(prop)
    res["obligations"] = len(thms)
    with Lock("lake"):
        rc, out, err = sh(["lake", "build", "Cadence.Props." + prop, "driver"], cwd=LEAN, timeout=3000)
        res["log"] = (out + err)[-6000:]
        if rc != 0:
            res["failed"] = ["lake build Cadence.Props.%s failed" % prop]
            return res
        if not thms:
            res["failed"] = ["no theorems found in Cadence/Props/%s.lean" % prop]
            return res
        audit = os.path.join(LEAN, ".lake", "audit_%s.lean" % prop)
        with open(audit, "w") as f:
            f.write("import Cadence.Props.%s\n" % prop)
            for t in thms:
                f.write("#print axioms %s\n" % t)
        rc, out, err = sh(["lake", "env", "lean", audit], cwd=LEAN, timeout=1200)
        if thorough:
            rc2, o2, e2 = sh(["lake", "env", "leanchecker", "Cadence.Props." + prop], cwd=LEAN, timeout=3000)
            res["leanchecker_rc"] = rc2
            if rc2 != 0:
                res["failed"].append("leanchecker rejected Cadence.Props.%s: %s" % (prop, (o2 + e2)[-400:]))
    text = out + err
    text = re.sub(r"\s+", " ", text)
    for t in thms:
        m = re.search(r"'%s' depends on axioms: \[([^\]]*)\]" % re.escape(t), text)
        if m:
            ax = [a.strip() for a in m.group(1).split(",") if a.strip()]
        elif re.search(r"'%s' does not depend on any axioms" % re.escape(t), text):
            ax = []
        else:
            res["failed"].append("axiom audit: no report for " + t)
            continue
        res["axioms"][t] = ax
        bad = [a for a in ax if a not in ALLOWED_AXIOMS]
        if bad:
            res["failed"].append("theorem %s depends on %s" % (t, ",".join(bad)))
        else:
            res["discharged"] += 1
    hits = forbidden_hits(prop)
    if hits:
        res["failed"].append("forbidden constructs: " + "; ".join(hits[:5]))
        res["discharged"] = 0
    return res


# ---------------------------------------------------------------------------------------------
# 2. Correspondence

def build_engine(engine):
    with Lock("cargo"):
        rc, out, err = sh(["cargo", "build", "--release", "--offline", "--bin", engine], cwd=HARNESS, timeout=3000)
        if rc == 0 and engine == "macros":
            # the macros expanded in a crate built with cfg(test): an integration test, copied next to the engine
            rc, out, err = sh(["cargo", "test", "--release", "--offline", "--test", "macros_cfg_test", "--no-run", "--message-format=json"],
                              cwd=HARNESS, timeout=3000)
            exe = None
            for l in out.splitlines():
                try:
                    d = json.loads(l)
                except Exception:
                    continue
                if d.get("reason") == "compiler-artifact" and d.get("target", {}).get("name") == "macros_cfg_test" and d.get("executable"):
                    exe = d["executable"]
            if rc == 0 and exe:
                import shutil
                shutil.copy(exe, os.path.join(HARNESS, "target", "release", "macros_cfg_test"))
            elif rc == 0:
                rc, err = 1, "macros_cfg_test: no executable reported by cargo"
        if rc == 0 and engine in ("macros", "fmt", "holder"):
            # second build with debug assertions and overflow checks off (cases `macn`)
            rc, out, err = sh(["cargo", "build", "--profile", "nodebug", "--offline", "--bin", engine], cwd=HARNESS, timeout=3000)
    return rc, (out + err)[-8000:]


def engine_bin(engine):
    return os.path.join(HARNESS, "target", "release", engine)


def run_engine_gen(engine, tier, seed, outpath, extra=None):
    shards = ENGINES.get(engine, {}).get("shards", 1)
    if shards > 1 and not (extra and "--shard" in extra):
        # thread-heavy engine: run the case list in `shards` processes, each taking every n-th case
        def one(k):
            return run_engine_gen(engine, tier, seed, "%s.%d" % (outpath, k), (extra or []) + ["--shard", "%d/%d" % (k, shards)])
        with ThreadPoolExecutor(max_workers=shards) as ex:
            res = list(ex.map(one, range(shards)))
        with open(outpath, "w") as out:
            for k in range(shards):
                part = "%s.%d" % (outpath, k)
                if os.path.exists(part):
                    with open(part) as f:
                        for line in f:
                            out.write(line)
                    os.remove(part)
        bad = [r for r in res if r[0] != 0]
        return (bad[0] if bad else (0, ""))
    # the library must not take configuration from the environment: set the variables other StatsD /
    # Datadog clients read, so that a change which starts reading one shows up as a difference
    env = {"VERIF_SEED": str(seed), "DD_ENTITY_ID": "verif-entity", "DD_ENV": "verif", "DD_SERVICE": "verif", "DD_VERSION": "9",
           "DD_TAGS": "verif:1", "DD_AGENT_HOST": "192.0.2.1", "DD_DOGSTATSD_PORT": "1", "STATSD_HOST": "192.0.2.1",
           "DD_DOGSTATSD_URL": "udp://192.0.2.1:1", "DD_EXTERNAL_ENV": "verif"}
    limit = 900 if tier == "quick" else 6 * 3600
    with open(outpath, "w") as f:
        try:
            p = subprocess.run([engine_bin(engine), "gen", "--tier", tier] + (extra or []), stdout=f,
                               stderr=subprocess.PIPE, text=True, env={**os.environ, **env}, timeout=limit)
        except subprocess.TimeoutExpired:
            return 124, "engine %s did not finish generating within %d s (calls into the library block or crawl)" % (engine, limit)
    return p.returncode, p.stderr[-2000:]


def run_engine_replay(engine, lines, timeout=600):
    try:
        p = subprocess.run([engine_bin(engine), "replay"], input="\n".join(lines) + "\n", capture_output=True,
                           text=True, timeout=timeout)
        out = p.stdout
    except subprocess.TimeoutExpired as e:
        # a replay that crawls (cases that sleep, calls that block): keep the complete lines produced so far
        out = e.stdout or ""
        if isinstance(out, bytes):
            out = out.decode("utf-8", "replace")
        out = out[:out.rfind("\n") + 1]
    return [l for l in out.splitlines() if l.strip()]


def run_driver(prop, lines):
    """lines: list of case lines with observations.  Returns (events, stats) where events is a list of
    (kind, lineno(1-based), rest) and stats a dict."""
    if not lines:
        return [], {"cases": 0}
    n = max(1, min(NCPU, len(lines) // 200 + 1))
    chunks = [lines[i::n] for i in range(n)]

    def work(idx):
        chunk = chunks[idx]
        p = subprocess.run([DRIVER, prop], input="\n".join(chunk) + "\n", capture_output=True, text=True)
        ev = []
        st = {}
        for l in p.stdout.splitlines():
            if l.startswith("STATS "):
                for kv in l[6:].split():
                    if "=" in kv:
                        k, v = kv.split("=", 1)
                        st[k] = int(v)
            elif l[:2] in ("D ", "P ", "X ", "S "):
                parts = l.split(" ", 2)
                if l[0] == "S":
                    ev.append(("S", 0, l[2:]))
                else:
                    local = int(parts[1])
                    ev.append((l[0], idx + (local - 1) * n + 1, parts[2] if len(parts) > 2 else ""))
        if p.returncode != 0:
            ev.append(("X", 0, "driver exit %d: %s" % (p.returncode, p.stderr[-300:])))
        return ev, st

    events = []
    stats = {}
    with ThreadPoolExecutor(max_workers=n) as ex:
        for ev, st in ex.map(work, range(n)):
            events.extend(ev)
            for k, v in st.items():
                stats[k] = stats.get(k, 0) + v
    return events, stats


def corpus_lines(engine):
    d = os.path.join(CORPUS, engine)
    out = []
    if os.path.isdir(d):
        for f in sorted(os.listdir(d)):
            if f.endswith(".case"):
                for l in open(os.path.join(d, f)):
                    l = l.strip()
                    if l and not l.startswith("#"):
                        out.append(l.split(" => ")[0])
    return out


# ---------------------------------------------------------------------------------------------
# shrinking (generic over the line protocol: space separated fields, comma lists, numbers)

# which space-separated fields of a case may be shrunk (list fields: drop elements; numeric: smaller)
SHRINK_FIELDS = {"mlw": [1, 3, 4], "spy": [3], "fmt": [4], "queue": [3], "queue0": [2], "sock": [5], "holder": [2], "mac": [4], "macn": [4], "fmtn": [4], "holdern": [2]}

ENGINE_OF = {"mlw": "mlw", "spy": "mlw", "fmt": "fmt", "std": "fmt", "val": "fmt", "raw": "fmt", "queue": "queue", "qstress": "queue", "queue0": "queue",
             "qburst": "queue", "qlatency": "queue", "qdroprace": "queue",
             "sock": "sock", "sockmt": "sock", "socklock": "sock", "sockcr": "sock", "holder": "holder", "mac": "macros", "macn": "macros", "mact": "macros",
             "qemitdrop": "queue", "qstop0": "queue", "qdeep": "queue", "qfirst": "queue", "qnothread": "queue", "qunwind": "queue", "sockbig": "sock", "sockstrace": "sock", "sockflushrace": "sock", "sockctor": "sock", "hdl": "fmt", "fmtn": "fmt", "cfl": "mlw", "holdern": "holder", "holdermiri": "holder"}


def engine_of(caseline, default):
    return ENGINE_OF.get(caseline.split(" ", 1)[0], default)


def case_fails(engine, prop, caseline, want):
    engine = engine_of(caseline, engine)
    """re-run one case on the real code and the driver; `want` is 'P' (predicate of this property fails)
    or 'D' (projection disagrees).  Returns the event detail or None."""
    outl = run_engine_replay(engine, [caseline])
    if not outl:
        return None
    ev, _ = run_driver(prop, outl[:1])
    for k, _, rest in ev:
        if k == want and (want != "P" or rest.startswith(prop + " ")):
            return (outl[0], rest)
    return None


def shrink(engine, prop, caseline, want, budget=400):
    best = caseline.split(" => ")[0]
    got = case_fails(engine, prop, best, want)
    if got is None:
        return best, None
    tries = 0
    improved = True
    t_start = time.time()
    while improved and tries < budget and time.time() - t_start < 90:
        improved = False
        fields = best.split(" ")
        allowed = SHRINK_FIELDS.get(fields[0], [])
        for i in range(1, len(fields)):
            if i not in allowed:
                continue
            f = fields[i]
            cands = []
            sep = ";" if ";" in f else ","
            if sep in f:
                items = f.split(sep)
                # drop halves, then single items
                h = len(items) // 2
                if h >= 1:
                    cands.append(sep.join(items[:h]))
                    cands.append(sep.join(items[h:]))
                for j in range(len(items)):
                    cands.append(sep.join(items[:j] + items[j + 1:]))
            elif f.isdigit() and int(f) > 0:
                cands += [str(int(f) // 2), str(int(f) - 1)]
            elif f not in ("-",) and not f.isdigit() and len(f) > 1 and "," not in f and re.fullmatch(r"[a-z]?[0-9a-f]+", f):
                pass
            for c in cands:
                if tries >= budget or time.time() - t_start >= 90:
                    break
                if c == "":
                    c = "-"
                trial = " ".join(fields[:i] + [c] + fields[i + 1:])
                tries += 1
                g = case_fails(engine, prop, trial, want)
                if g is not None:
                    best, got = trial, g
                    improved = True
                    break
            if improved:
                break
    return best, got


# ---------------------------------------------------------------------------------------------
# known findings

def load_known():
    findings, fixed = [], []
    if os.path.exists(KNOWN):
        for l in open(KNOWN):
            l = l.strip()
            if l.startswith("finding:"):
                m = re.match(r"finding:\s+property=(\S+)\s+key=(\S+)\s*(.*)", l)
                if m:
                    findings.append({"property": m.group(1), "key": m.group(2), "text": m.group(3)})
            elif l.startswith("fixed:"):
                fixed.append(l)
    return findings, fixed


def finding_key(clause, caseline):
    return hashlib.sha1((clause + "|" + caseline).encode()).hexdigest()[:12]


# ---------------------------------------------------------------------------------------------
# evidence / replay files

def write_replay(prop, kind, payload):
    os.makedirs(REPLAYS, exist_ok=True)
    h = hashlib.sha1(json.dumps(payload, sort_keys=True).encode()).hexdigest()[:10]
    path = os.path.join(REPLAYS, "%s-%s-%s.json" % (prop, kind, h))
    payload = dict(payload)
    payload["property"] = prop
    payload["kind"] = kind
    with open(path, "w") as f:
        json.dump(payload, f, indent=1)
    return path


def write_evidence(prop, tier, seed, t0, lean, stats, samples, violations, extra):
    os.makedirs(EVID, exist_ok=True)
    spec = PROPS[prop]
    cov = {
        "obligations": lean["obligations"],
        "discharged": lean["discharged"],
        "checker_cmd": "cd lean && lake build Cadence.Props.%s && lake env lean .lake/audit_%s.lean  (#print axioms of every property theorem)" % (prop, prop),
        "trusted_base": spec["trusted_base"],
        "theorems": lean["axioms"],
        "failed_obligations": lean["failed"],
        "evaluations": int(stats.get("cases", 0)),
        "distinct_nontrivial": int(stats.get("nontrivial", 0)),
        "rule": spec["rule"],
        "samples": samples[:8] if samples else [{"theorem": t} for t in list(lean["axioms"])[:4]],
        "traces_validated_against_impl": int(stats.get("agree", 0)),
        "disagreements": int(stats.get("disagree", 0)),
        "predicate_failures": int(stats.get("predfail", 0)),
        "model_branch_coverage": {k[4:]: v for k, v in stats.items() if k.startswith("tag:")},
        "exhaustive": bool(spec.get("exhaustive_part")),
        "exhaustive_scope": spec.get("exhaustive_part", ""),
    }
    cov.update(extra or {})
    ev = {
        "property_id": prop,
        "tier": tier,
        "seed": seed,
        "level": "proof",
        "coverage": cov,
        "assumptions": spec["assumptions"],
        "wall_s": round(time.time() - t0, 2),
        "violations": violations,
    }
    with open(os.path.join(EVID, prop + ".json"), "w") as f:
        json.dump(ev, f, indent=1)


# ---------------------------------------------------------------------------------------------
# the check

def check(prop, tier):
    t0 = time.time()
    seed = int(os.environ.get("VERIF_SEED", "1") or 1)
    spec = PROPS[prop]
    engines = spec["engine"] if isinstance(spec["engine"], list) else [spec["engine"]]
    engine = engines[0]
    eng = ENGINES[engine]
    os.makedirs(os.path.join(WORK, prop), exist_ok=True)
    violations = []  # (replay path, suffix)
    known_lines = []
    findings, _ = load_known()

    lean = lean_obligations(prop, thorough=(tier == "thorough"))
    log("[%s] lean: %d/%d obligations discharged %s" % (prop, lean["discharged"], lean["obligations"], lean["failed"] or ""))
    if lean["failed"] and not os.path.exists(DRIVER):
        # infrastructure failure: nothing can be decided
        write_evidence(prop, tier, seed, t0, lean, {}, [], 1, {"infrastructure_failure": lean["failed"], "log": lean["log"][-1500:]})
        print("INFRASTRUCTURE-FAILURE lean build: %s" % lean["failed"])
        return 2

    stats, samples, extra = {}, [], {}
    build_failed = None
    for en in engines:
        rc, blog = build_engine(en)
        if rc != 0:
            build_failed = (en, blog)
            break
    if build_failed:
        # form 4: the engine no longer compiles against /repo's tree
        path = write_replay(prop, "engine-build", {"engine": build_failed[0], "what": "the correspondence harness no longer compiles against /repo's working tree", "compiler_output": build_failed[1]})
        violations.append((path, " no-failing-input-found"))
    else:
        lines = []
        ncorp = 0
        for en in engines:
            corp = corpus_lines(en)
            if corp:
                lines += run_engine_replay(en, corp)
        ncorp = len(lines)
        for en in engines:
            casefile = os.path.join(WORK, prop, "cases-%s.txt" % en)
            grc, gerr = run_engine_gen(en, tier, seed, casefile, spec.get("gen_args"))
            if grc != 0:
                path = write_replay(prop, "engine-crash", {"engine": en, "what": "the engine crashed while generating cases (abort / uncaught panic in the real code)", "stderr": gerr})
                violations.append((path, ""))
            with open(casefile) as f:
                lines += [l.rstrip("\n") for l in f if l.strip()]
        if spec.get("case_filter"):
            lines = [l for l in lines if spec["case_filter"](l)]
        events, stats = run_driver(prop, lines)
        samples = [{"case": r[:600]} for k, _, r in events if k == "S"][:8]
        if not samples:
            samples = [{"case": l[:600]} for l in lines[:3]]
        extra["corpus_cases"] = ncorp
        extra["generated_cases"] = len(lines) - ncorp
        dis = [(n, r) for k, n, r in events if k == "D"]
        # a disagreement that rests on a liveness time-out of the implementation (marker event in its observation) is
        # re-run with 5x the time-out before it counts, like a predicate failure of that kind
        marker0 = eng.get("liveness_marker")
        if marker0 and dis:
            kept = []
            for (n, r) in dis:
                caseline = lines[n - 1] if 0 < n <= len(lines) else ""
                toks = caseline.split(" => ")[-1].replace(";", ",").replace("|", ",").split(",")
                if marker0 in toks and len(kept) < 50:
                    os.environ["VERIF_TIMEOUT_MS"] = "2000"
                    again = case_fails(engine, prop, caseline.split(" => ")[0], "D")
                    os.environ.pop("VERIF_TIMEOUT_MS", None)
                    if again is None:
                        extra["liveness_timeouts_not_reproduced"] = extra.get("liveness_timeouts_not_reproduced", 0) + 1
                        continue
                kept.append((n, r))
            dis = kept
        bad = [(n, r) for k, n, r in events if k == "X"]
        preds = [(n, r) for k, n, r in events if k == "P" and r.startswith(prop + " ")]
        other_preds = [(n, r) for k, n, r in events if k == "P" and not r.startswith(prop + " ")]
        extra["other_property_predicate_failures"] = len(other_preds)
        log("[%s] %s: %d cases, %d disagreements, %d predicate failures (%d of other properties), %d malformed, %.1fs" % (
            prop, engine, len(lines), len(dis), len(preds), len(other_preds), len(bad), time.time() - t0))

        def report_pred(n, r, origin):
            clause = r[len(prop) + 1:]
            caseline = lines[n - 1] if 0 < n <= len(lines) else ""
            marker = eng.get("liveness_marker")
            if marker and (marker in caseline.split(" => ")[-1].replace(";", ",").replace("|", ",").split(",")):
                # a liveness timeout: re-run with 5x the timeout before it counts (safety failures are never retried)
                os.environ["VERIF_TIMEOUT_MS"] = "2000"
                again = case_fails(engine, prop, caseline.split(" => ")[0], "P")
                os.environ.pop("VERIF_TIMEOUT_MS", None)
                if again is None:
                    extra["liveness_timeouts_not_reproduced"] = extra.get("liveness_timeouts_not_reproduced", 0) + 1
                    return
            if "waited (more than 100 ms)" in clause or "did not return promptly" in clause:
                # a latency clause (wall-clock threshold): re-run the case once; a machine that was merely busy
                # does not reproduce it, a change that really waits does
                if case_fails(engine, prop, caseline.split(" => ")[0], "P") is None:
                    extra["latency_clauses_not_reproduced"] = extra.get("latency_clauses_not_reproduced", 0) + 1
                    return
            small, got = shrink(engine, prop, caseline, "P")
            if got is None:
                small, got = caseline.split(" => ")[0], (caseline, r)
            clause2 = got[1][len(prop) + 1:] if got[1].startswith(prop + " ") else clause
            for fnd in findings:
                if fnd["property"] == prop and fnd["key"] == finding_key(clause2, small):
                    known_lines.append("KNOWN-FINDING: property=%s %s" % (prop, fnd["text"]))
                    return
            path = write_replay(prop, "predicate", {
                "engine": engine_of(small, engine), "case": small, "observed": got[0], "failed_clause": clause2,
                "original_case": caseline[:4000], "origin": origin, "seed": seed,
                "finding_key": finding_key(clause2, small),
                "how": "echo '<case>' | harness/target/release/%s replay | lean/.lake/build/bin/driver %s" % (engine_of(small, engine), prop)})
            violations.append((path, ""))

        seen_clauses = set()
        for n, r in preds:
            cl = r
            if cl in seen_clauses:
                continue
            seen_clauses.add(cl)
            report_pred(n, r, "generated or corpus case")
            if len(seen_clauses) >= 3:
                break

        if (dis or bad) and not violations and not known_lines:
            # form 3: the tie is broken but no predicate failed yet: search for a failing input
            n, r = (dis or bad)[0]
            caseline = lines[n - 1] if 0 < n <= len(lines) else ""
            small, got = shrink(engine, prop, caseline, "D") if dis else (caseline.split(" => ")[0], None)
            found = None
            if eng.get("continuations"):
                cands = eng["continuations"](small)
                for base in [l.split(" => ")[0] for (m, _) in dis[:5] for l in [lines[m - 1]]]:
                    cands += eng["continuations"](base)[:400]
                # cases that let seconds pass are not multiplied
                if any(re.search(r"[ ,]w\d{3,}", c) for c in cands[:3]):
                    cands = cands[:20]
                outl = run_engine_replay(engine_of(small, engine), cands[:20000], timeout=300)
                ev2, _ = run_driver(prop, outl)
                for k, m, rr in ev2:
                    if k == "P" and rr.startswith(prop + " "):
                        found = (outl[m - 1], rr)
                        break
            if found is None:
                # extra random budget on the predicate only
                extrafile = os.path.join(WORK, prop, "extra.txt")
                for s2 in range(seed + 1000, seed + 1000 + (3 if tier == "quick" else 10)):
                    run_engine_gen(engine, tier, s2, extrafile, spec.get("gen_args"))
                    l2 = [l.rstrip("\n") for l in open(extrafile) if l.strip()]
                    ev2, _ = run_driver(prop, l2)
                    for k, m, rr in ev2:
                        if k == "P" and rr.startswith(prop + " "):
                            found = (l2[m - 1], rr)
                            break
                    if found:
                        break
            if found is not None:
                lines.append(found[0])
                report_pred(len(lines), found[1], "failing-input search after a model/implementation disagreement")
            else:
                path = write_replay(prop, "correspondence", {
                    "engine": engine, "what": "the model and the implementation disagree on this property's projection; no input violating the property's predicates was found",
                    "no_longer_checks": "correspondence %s/%s (projection of %s)" % (engine, prop, prop),
                    "minimised_case": small, "implementation_vs_model": (got[1] if got else r)[:4000],
                    "disagreements": len(dis), "malformed": len(bad), "seed": seed})
                violations.append((path, " no-failing-input-found"))

    if lean["failed"]:
        path = write_replay(prop, "obligation", {"what": "a Lean proof obligation of this property no longer checks", "no_longer_checks": lean["failed"], "log": lean["log"][-3000:]})
        violations.append((path, " no-failing-input-found"))

    write_evidence(prop, tier, seed, t0, lean, stats, samples, len(violations), extra)
    for l in known_lines:
        print(l)
    for path, suffix in violations:
        print("VIOLATION property=%s replay=%s%s" % (prop, path, suffix))
    if not violations:
        print("OK property=%s tier=%s obligations=%d/%d cases=%s agree=%s wall=%.1fs" % (
            prop, tier, lean["discharged"], lean["obligations"], stats.get("cases", 0), stats.get("agree", 0), time.time() - t0))
    return 1 if violations else 0


def replay(path):
    d = json.load(open(path))
    prop = d["property"]
    engine = d.get("engine")
    case = d.get("case") or d.get("minimised_case")
    if not engine or not case:
        print(json.dumps(d, indent=1)[:3000])
        return 0
    rc, blog = build_engine(engine)
    if rc != 0:
        print(blog)
        return 1
    outl = run_engine_replay(engine, [case])
    print("implementation:", outl[0] if outl else "(no output)")
    ev, _ = run_driver(prop, outl[:1])
    failed = False
    for k, _, r in ev:
        if k in ("D", "P", "X"):
            print({"D": "model disagrees:", "P": "predicate fails:", "X": "malformed:"}[k], r[:2000])
            failed = True
    if not failed:
        print("the recorded case passes on the current tree")
    return 1 if failed else 0


def main(argv):
    if len(argv) >= 2 and argv[0] == "replay":
        return replay(argv[1])
    if not argv or argv[0] not in PROPS:
        print("usage: check <%s> [--tier quick|thorough] | check replay <file>" % "|".join(sorted(PROPS)))
        return 2
    tier = os.environ.get("VERIF_TIER", "quick")
    if "--tier" in argv:
        tier = argv[argv.index("--tier") + 1]
    return check(argv[0], tier)


def _on_signal(signum, frame):
    # make an external kill visible (a silent death would look like a broken check)
    sys.stdout.write("INTERRUPTED by signal %d (no verdict)\n" % signum)
    sys.stdout.flush()
    os._exit(3)


if __name__ == "__main__":
    import signal
    import traceback
    for _s in (signal.SIGTERM, signal.SIGHUP):
        signal.signal(_s, _on_signal)
    try:
        rc = main(sys.argv[1:])
    except BaseException as e:  # noqa: BLE001 — an internal error of the machinery is reported as such, never as a verdict
        if isinstance(e, SystemExit):
            raise
        traceback.print_exc(file=sys.stdout)
        print("INTERNAL-ERROR in the verification machinery (no verdict): %r" % (e,))
        sys.stdout.flush()
        rc = 3
    sys.exit(rc)
