#!/bin/sh
# Build the framework from files on disk only (offline): Lean library + driver, Rust harness.
set -e
cd "$(dirname "$0")"
export CARGO_NET_OFFLINE=true
mkdir -p work evidence
(cd lean && lake build Cadence driver)
cp /repo/Cargo.lock harness/Cargo.lock 2>/dev/null || true
(cd harness && cargo build --release --offline --bins && cargo build --profile nodebug --offline --bin macros --bin fmt --bin holder && cargo test --release --offline --test macros_cfg_test --no-run)
echo "setup ok"
