//! Run under Miri (`cargo +nightly miri run`): real threads on `SingletonHolder`, every access checked by
//! Miri's data-race detector and aliasing model.  Supports the one modelling assumption the shim cannot
//! observe: what the plain code does through the pointer it fetched from the cell (`get` only reads).
use cadence_macros::SingletonHolder;
use std::sync::Arc;

fn round(readers: usize, gets: usize) {
    let h: Arc<SingletonHolder<String>> = Arc::new(SingletonHolder::new());
    let mut ts = Vec::new();
    for w in 0..2 {
        let h = h.clone();
        ts.push(std::thread::spawn(move || {
            h.set(format!("value-{}", w));
            let _ = h.get();
        }));
    }
    for _ in 0..readers {
        let h = h.clone();
        ts.push(std::thread::spawn(move || {
            let mut seen: Option<Arc<String>> = None;
            for _ in 0..gets {
                let _ = h.is_set();
                if let Some(a) = h.get() {
                    if let Some(b) = &seen {
                        assert!(Arc::ptr_eq(&a, b), "two different instances");
                    }
                    seen = Some(a);
                }
                std::thread::yield_now();
            }
        }));
    }
    for t in ts {
        t.join().unwrap();
    }
    assert!(h.is_set());
    let a = h.get().unwrap();
    let b = h.get().unwrap();
    assert!(Arc::ptr_eq(&a, &b));
    let _ = format!("{:?}", h);
}

fn main() {
    for _ in 0..3 {
        round(3, 4);
    }
    println!("miri-ok");
}
