//! Engine `holder`: `cadence_macros::SingletonHolder` under a controlled scheduler, through the
//! `cfg(cadence_verif)` shim (every atomic operation and every UnsafeCell access of state.rs reports
//! to a tracer and waits for the scheduler's grant).
//!
//!   holder <programs> <schedule> => <obs>
//!     programs : `/`-separated per thread, each a string over s (set) g (get) i (is_set) d (format with Debug:
//!                must perform no operation on the cell or the state through the shim, result D)
//!     schedule : comma list of thread indices; every shim operation takes two grants of its thread:
//!                the first performs the operation, the second lets the plain code after it run up to
//!                the next operation (so another thread can be scheduled between an atomic operation
//!                and e.g. the write through the cell pointer that follows it); entries of finished
//!                threads are skipped; the engine appends the grants needed to finish every thread
//!     obs      : `/`-separated per thread, `,`-separated per call:  <ev>+<ev>…=<result>
//!       ev     : <seq>:C.<succ>.<fail>.<ok|er><val> | <seq>:L.<ord>.<val> | <seq>:S.<val>.<ord> | <seq>:G
//!       result : u (set) | N (get: none) | P<value>@<ptr class> (get: some) | T / F (is_set)
#![allow(unexpected_cfgs)]

use cadence_verif_harness::*;
use std::io::{self, BufRead, Write};

/// Compile-time obligations on the holder's auto traits (a failure here stops the engine build, which
/// the orchestrator reports as a violation): it is shared between threads only for payloads that may be.
mod auto_traits {
    use cadence_macros::SingletonHolder;
    use std::cell::Cell;
    trait AmbiguousIfSync<A> {
        fn item() {}
    }
    impl<T: ?Sized> AmbiguousIfSync<()> for T {}
    impl<T: ?Sized + Sync> AmbiguousIfSync<u8> for T {}
    trait AmbiguousIfSend<A> {
        fn item() {}
    }
    impl<T: ?Sized> AmbiguousIfSend<()> for T {}
    impl<T: ?Sized + Send> AmbiguousIfSend<u8> for T {}
    fn is_sync<T: Sync>() {}
    fn is_send<T: Send>() {}
    #[allow(dead_code)]
    fn obligations() {
        // Send + Sync payload: holder is both
        is_sync::<SingletonHolder<usize>>();
        is_send::<SingletonHolder<usize>>();
        // a payload that is not Sync (Cell) must not make a Sync holder: type inference is ambiguous, and
        // the build fails, exactly if `SingletonHolder<Cell<u8>>: Sync`
        let _ = <SingletonHolder<Cell<u8>> as AmbiguousIfSync<_>>::item;
        // a payload that is not Send (Rc) must not make a Send holder
        let _ = <SingletonHolder<std::rc::Rc<u8>> as AmbiguousIfSend<_>>::item;
    }
}

#[cfg(cadence_verif)]
mod imp {
    use cadence_macros::verif_shim::{set_tracer, ShimEvent, ShimOp};
    use cadence_macros::SingletonHolder;
    use std::cell::Cell;
    use std::sync::atomic::Ordering;
    use std::sync::{Arc, Condvar, Mutex};

    #[derive(Clone, Copy, PartialEq, Debug)]
    enum TState {
        Starting,
        Waiting,
        Running,
        Done,
    }

    struct Sched {
        turn: Option<usize>,
        state: Vec<TState>,
        seq: usize,
        cur_events: Vec<Vec<String>>, // per thread: events of the call in progress
        /// set when a case has used up its budget of grants (a call that spins on another thread): from then on
        /// the threads run without the scheduler
        free_run: bool,
    }

    /// marks a thread Done even when its program panics (a panic in the library must not wedge the scheduler)
    struct DoneGuard(Arc<Ctx>, usize);
    impl Drop for DoneGuard {
        fn drop(&mut self) {
            let mut s = match self.0.m.lock() {
                Ok(s) => s,
                Err(p) => p.into_inner(),
            };
            s.state[self.1] = TState::Done;
            self.0.cv.notify_all();
        }
    }

    pub struct Ctx {
        m: Mutex<Sched>,
        cv: Condvar,
    }

    thread_local! {
        static TID: Cell<Option<usize>> = Cell::new(None);
    }

    static CTX: Mutex<Option<Arc<Ctx>>> = Mutex::new(None);

    fn ord(o: Ordering) -> &'static str {
        match o {
            Ordering::Relaxed => "Relaxed",
            Ordering::Acquire => "Acquire",
            Ordering::Release => "Release",
            Ordering::AcqRel => "AcqRel",
            Ordering::SeqCst => "SeqCst",
            _ => "Other",
        }
    }

    pub fn install() {
        set_tracer(Some(Box::new(|_obj: usize, ev: ShimEvent| {
            let tid = match TID.with(|t| t.get()) {
                Some(t) => t,
                None => return,
            };
            let ctx = match CTX.lock().unwrap().as_ref() {
                Some(c) => c.clone(),
                None => return,
            };
            match ev {
                ShimEvent::Before(_) => {
                    let mut s = ctx.m.lock().unwrap();
                    if s.free_run {
                        return;
                    }
                    s.state[tid] = TState::Waiting;
                    ctx.cv.notify_all();
                    while s.turn != Some(tid) {
                        s = ctx.cv.wait(s).unwrap();
                    }
                    s.turn = None;
                    s.state[tid] = TState::Running;
                }
                ShimEvent::After(op, res) => {
                    let mut s = ctx.m.lock().unwrap();
                    let n = s.seq;
                    s.seq += 1;
                    let tok = match op {
                        ShimOp::Load(o) => format!("{}:L.{}.{}", n, ord(o), res.unwrap_or(99)),
                        ShimOp::Store(v, o) => format!("{}:S.{}.{}", n, v, ord(o)),
                        ShimOp::CompareExchange(_, _, so, fo) => match res {
                            Ok(v) => format!("{}:C.{}.{}.ok{}", n, ord(so), ord(fo), v),
                            Err(v) => format!("{}:C.{}.{}.er{}", n, ord(so), ord(fo), v),
                        },
                        ShimOp::CellGet => format!("{}:G", n),
                    };
                    s.cur_events[tid].push(tok);
                    if s.free_run {
                        return;
                    }
                    // post-operation pause: the plain code that follows the operation (e.g. the write
                    // through the cell pointer) runs only after a further grant, so another thread can be
                    // scheduled between an atomic operation and the code after it
                    s.state[tid] = TState::Waiting;
                    ctx.cv.notify_all();
                    while s.turn != Some(tid) {
                        s = ctx.cv.wait(s).unwrap();
                    }
                    s.turn = None;
                    s.state[tid] = TState::Running;
                }
            }
        })));
    }

    thread_local! {
        /// thread number found in the prefix of the last metric this thread handed to a global client's sink
        static LAST_PREFIX: Cell<usize> = const { Cell::new(0) };
    }

    struct PrefixSink;
    impl cadence::MetricSink for PrefixSink {
        fn emit(&self, m: &str) -> std::io::Result<usize> {
            let id = m.strip_prefix('t').and_then(|r| r.split('.').next()).and_then(|n| n.parse().ok()).unwrap_or(0);
            LAST_PREFIX.with(|c| c.set(id));
            Ok(m.len())
        }
    }

    /// value carried by a global client: the thread number it was built with, read back from a metric's text
    fn client_id(c: &cadence::StatsdClient) -> usize {
        use cadence::prelude::*;
        use cadence::Metric;
        match c.count("x", 1) {
            Ok(m) => m.as_metric_str().strip_prefix('t').and_then(|r| r.split('.').next()).and_then(|n| n.parse().ok()).unwrap_or(0),
            Err(_) => 0,
        }
    }

    /// mode 0: `SingletonHolder::new()`, 1: `::default()`, 2: the process-wide holder behind
    /// `set_global_default` / `get_global_default` / `is_global_default_set` (once per process)
    pub fn run_case(programs: &[String], schedule: &[usize], mode: u8) -> (Vec<usize>, String) {
        let use_default = mode == 1;
        let global = mode == 2;
        let n = programs.len();
        let ctx = Arc::new(Ctx {
            m: Mutex::new(Sched { turn: None, state: vec![TState::Starting; n], seq: 0, cur_events: vec![vec![]; n], free_run: false }),
            cv: Condvar::new(),
        });
        *CTX.lock().unwrap() = Some(ctx.clone());
        // both public constructors must give an empty, settable holder
        let holder: Arc<SingletonHolder<usize>> =
            Arc::new(if use_default { SingletonHolder::default() } else { SingletonHolder::new() });
        let ptrs: Arc<Mutex<Vec<usize>>> = Arc::new(Mutex::new(Vec::new()));
        let mut handles = Vec::new();
        for (t, prog) in programs.iter().enumerate() {
            let holder = holder.clone();
            let ctx = ctx.clone();
            let prog = prog.clone();
            let ptrs = ptrs.clone();
            handles.push(std::thread::spawn(move || {
                TID.with(|c| c.set(Some(t)));
                let _done = DoneGuard(ctx.clone(), t);
                let mut calls: Vec<String> = Vec::new();
                for c in prog.chars() {
                    let res = match c {
                        's' if global => {
                            let client = cadence::StatsdClient::from_sink(&format!("t{}", t + 1), PrefixSink);
                            cadence_macros::set_global_default(client);
                            "u".to_string()
                        }
                        'g' if global => match cadence_macros::get_global_default() {
                            Err(_) => "N".to_string(),
                            Ok(a) => {
                                let p = Arc::as_ptr(&a) as usize;
                                let mut ps = ptrs.lock().unwrap();
                                let cls = match ps.iter().position(|x| *x == p) {
                                    Some(i) => i,
                                    None => {
                                        ps.push(p);
                                        ps.len() - 1
                                    }
                                };
                                format!("P{}@{}", client_id(&a), cls)
                            }
                        },
                        'i' if global => {
                            if cadence_macros::is_global_default_set() {
                                "T".to_string()
                            } else {
                                "F".to_string()
                            }
                        }
                        'd' if global => "D".to_string(),
                        // a macro invocation: `get_global_default().unwrap()` and a send through that client
                        'm' if global => {
                            LAST_PREFIX.with(|c| c.set(0));
                            match std::panic::catch_unwind(|| {
                                cadence_macros::statsd_count!("m", 1i64);
                            }) {
                                Err(_) => "N".to_string(),
                                Ok(()) => format!("P{}@0", LAST_PREFIX.with(|c| c.get())),
                            }
                        }
                        's' => {
                            holder.set(t + 1);
                            "u".to_string()
                        }
                        'g' => match holder.get() {
                            None => "N".to_string(),
                            Some(a) => {
                                let p = Arc::as_ptr(&a) as usize;
                                let mut ps = ptrs.lock().unwrap();
                                let cls = match ps.iter().position(|x| *x == p) {
                                    Some(i) => i,
                                    None => {
                                        ps.push(p);
                                        ps.len() - 1
                                    }
                                };
                                format!("P{}@{}", *a, cls)
                            }
                        },
                        'd' => {
                            let _ = format!("{:?}", holder);
                            "D".to_string()
                        }
                        _ => {
                            if holder.is_set() {
                                "T".to_string()
                            } else {
                                "F".to_string()
                            }
                        }
                    };
                    let mut s = ctx.m.lock().unwrap();
                    let evs = std::mem::take(&mut s.cur_events[t]);
                    calls.push(format!("{}={}", evs.join("+"), res));
                }
                let mut s = ctx.m.lock().unwrap();
                s.state[t] = TState::Done;
                ctx.cv.notify_all();
                TID.with(|c| c.set(None));
                calls.join(",")
            }));
        }
        let quiescent = |s: &Sched| s.turn.is_none() && s.state.iter().all(|x| *x == TState::Waiting || *x == TState::Done);
        let mut used = Vec::new();
        let mut grant = |t: usize| -> bool {
            let mut s = ctx.m.lock().unwrap();
            while !quiescent(&s) {
                s = ctx.cv.wait(s).unwrap();
            }
            if t >= n || s.state[t] != TState::Waiting {
                return false;
            }
            s.turn = Some(t);
            ctx.cv.notify_all();
            while !quiescent(&s) {
                s = ctx.cv.wait(s).unwrap();
            }
            true
        };
        for &t in schedule {
            if grant(t) {
                used.push(t);
            }
        }
        // closing grants: finish every thread, lowest index first; a case that needs more than 600 grants has a
        // call that spins on another thread: the scheduler lets go and the case is marked
        let mut livelock = false;
        'closing: loop {
            let mut progressed = false;
            for t in 0..n {
                while grant(t) {
                    used.push(t);
                    progressed = true;
                    if used.len() > 600 {
                        livelock = true;
                        break 'closing;
                    }
                }
            }
            if !progressed {
                break;
            }
        }
        if livelock {
            let mut s = ctx.m.lock().unwrap();
            s.free_run = true;
            s.turn = None;
            for t in 0..n {
                if s.state[t] == TState::Waiting {
                    s.state[t] = TState::Running;
                }
            }
            // wake everybody: waiting threads re-check `turn`; give each of them its turn in sequence
            drop(s);
            for _ in 0..(4 * n + 4) {
                for t in 0..n {
                    let mut s = ctx.m.lock().unwrap();
                    s.turn = Some(t);
                    ctx.cv.notify_all();
                    drop(s);
                    std::thread::sleep(std::time::Duration::from_millis(2));
                }
            }
            used.truncate(40);
        }
        let mut obs: Vec<String> = handles.into_iter().map(|h| h.join().unwrap_or_else(|_| "panic".to_string())).collect();
        if livelock {
            obs.push("LIVELOCK".to_string());
        }
        *CTX.lock().unwrap() = None;
        (used, obs.join("/"))
    }
}

#[cfg(not(cadence_verif))]
mod imp {
    pub fn install() {}
    pub fn run_case(_programs: &[String], _schedule: &[usize], _mode: u8) -> (Vec<usize>, String) {
        (vec![], "hook-guard-off".to_string())
    }
}

fn run_line(line: &str) -> Option<String> {
    let line = line.split(" => ").next().unwrap().trim();
    if line.is_empty() || line.starts_with('#') {
        return None;
    }
    let f: Vec<&str> = line.split(' ').collect();
    if f[0] == "holdermiri" && f.len() == 2 {
        return Some(format!("{} => {}", line, run_miri(f[1].parse().unwrap_or(8))));
    }
    if f[0] == "holdern" && f.len() == 3 {
        // the same case in the sibling binary built with debug assertions and overflow checks off
        return Some(run_in_nodebug(&format!("holder {} {}", f[1], f[2])));
    }
    if f[0] != "holder" || f.len() != 3 {
        return Some(format!("{} => malformed", line));
    }
    // a leading `D:` selects `SingletonHolder::default()` instead of `::new()`; `G:` the process-wide
    // holder behind the three global functions, which can be set once per process: a child runs the case
    if f[1].starts_with("G:") && !IN_CHILD.load(std::sync::atomic::Ordering::Relaxed) {
        return Some(run_in_child(line));
    }
    let (use_default, progs) = match (f[1].strip_prefix("D:"), f[1].strip_prefix("G:")) {
        (Some(r), _) => (1u8, r),
        (_, Some(r)) => (2u8, r),
        _ => (0u8, f[1]),
    };
    let programs: Vec<String> = progs.split('/').map(|x| x.to_string()).collect();
    let schedule: Vec<usize> = if f[2] == "-" { vec![] } else { f[2].split(',').filter_map(|x| x.parse().ok()).collect() };
    let (used, obs) = imp::run_case(&programs, &schedule, use_default);
    let sch = if used.is_empty() { "-".to_string() } else { used.iter().map(|x| x.to_string()).collect::<Vec<_>>().join(",") };
    Some(format!("holder {} {} => {}", f[1], sch, obs))
}

fn run_in_nodebug(case: &str) -> String {
    use std::io::Read;
    let mut exe = std::env::current_exe().unwrap();
    let name = exe.file_name().unwrap().to_owned();
    exe.pop();
    exe.pop();
    exe.push("nodebug");
    exe.push(name);
    let renamed = |l: &str| l.replacen("holder ", "holdern ", 1);
    let child = std::process::Command::new(exe)
        .arg("replay")
        .stdin(std::process::Stdio::piped())
        .stdout(std::process::Stdio::piped())
        .stderr(std::process::Stdio::null())
        .spawn();
    let mut child = match child {
        Ok(c) => c,
        Err(_) => return format!("{} => nodebug-binary-missing", renamed(case)),
    };
    let _ = child.stdin.take().unwrap().write_all(format!("{}\n", case).as_bytes());
    let mut out = String::new();
    let _ = child.stdout.take().unwrap().read_to_string(&mut out);
    let _ = child.wait();
    if out.trim().is_empty() {
        return format!("{} => nodebug-child-crashed", renamed(case));
    }
    renamed(out.trim())
}

/// real threads on the holder under Miri (`harness-miri/`, nightly toolchain): its data-race detector and
/// aliasing model see what the plain code does through the pointer fetched from the cell, which the shim cannot
fn run_miri(seeds: usize) -> String {
    let dir = match std::env::current_exe().ok().and_then(|e| e.ancestors().nth(4).map(|r| r.join("harness-miri"))) {
        Some(d) if d.join("Cargo.toml").exists() => d,
        _ => return "miri-unavailable".to_string(),
    };
    let _ = std::fs::copy("/repo/Cargo.lock", dir.join("Cargo.lock"));
    let out = std::process::Command::new("cargo")
        .args(["+nightly", "miri", "run", "--offline"])
        .current_dir(&dir)
        .env("MIRIFLAGS", format!("-Zmiri-many-seeds=0..{}", seeds))
        .env("CARGO_NET_OFFLINE", "true")
        .output();
    let out = match out {
        Ok(o) => o,
        Err(_) => return "miri-unavailable".to_string(),
    };
    let text = format!("{}\n{}", String::from_utf8_lossy(&out.stdout), String::from_utf8_lossy(&out.stderr));
    if let Some(l) = text.lines().find(|l| l.contains("Undefined Behavior")) {
        let what: String = l.split("Undefined Behavior:").nth(1).unwrap_or(l).trim().chars().take(160).collect();
        return format!("undefined-behaviour:{}", what.replace(' ', "-").replace(';', ","));
    }
    if text.contains("panicked at") || text.contains("FAILING SEED") {
        return "assertion-failed-under-miri".to_string();
    }
    if out.status.success() && text.matches("miri-ok").count() >= 1 {
        return "ok".to_string();
    }
    if text.contains("error: could not compile") || text.contains("error[E") {
        return "does-not-compile".to_string();
    }
    // no nightly toolchain / no miri component in this sandbox: nothing concluded
    "miri-unavailable".to_string()
}

static IN_CHILD: std::sync::atomic::AtomicBool = std::sync::atomic::AtomicBool::new(false);

fn run_in_child(case: &str) -> String {
    use std::io::Read;
    let exe = std::env::current_exe().unwrap();
    let mut child = std::process::Command::new(exe)
        .arg("child")
        .stdin(std::process::Stdio::piped())
        .stdout(std::process::Stdio::piped())
        .stderr(std::process::Stdio::null())
        .spawn()
        .unwrap();
    child.stdin.take().unwrap().write_all(format!("{}\n", case).as_bytes()).unwrap();
    let mut out = String::new();
    child.stdout.take().unwrap().read_to_string(&mut out).unwrap();
    let _ = child.wait();
    if out.trim().is_empty() {
        return format!("{} => child-crashed", case);
    }
    out.trim().to_string()
}

fn ops_of(p: &str) -> usize {
    // two grants per shim operation
    2 * p.chars().map(|c| match c { 's' => 3, 'g' | 'm' => 2, 'd' => 0, _ => 1 }).sum::<usize>()
}

fn multinomial(counts: &[usize]) -> f64 {
    let mut r = 1f64;
    let mut n = 0usize;
    for c in counts {
        for i in 1..=*c {
            n += 1;
            r = r * n as f64 / i as f64;
        }
    }
    r
}

/// all interleavings (as sequences of thread indices with the given multiplicities)
fn interleavings(counts: &[usize], cur: &mut Vec<usize>, out: &mut Vec<Vec<usize>>, limit: usize) {
    if out.len() >= limit {
        return;
    }
    if counts.iter().all(|c| *c == 0) {
        out.push(cur.clone());
        return;
    }
    for t in 0..counts.len() {
        if counts[t] > 0 {
            let mut c2 = counts.to_vec();
            c2[t] -= 1;
            cur.push(t);
            interleavings(&c2, cur, out, limit);
            cur.pop();
        }
    }
}

fn main() {
    silence_panics();
    let args: Vec<String> = std::env::args().collect();
    let stdout = io::stdout();
    let mut out = io::BufWriter::new(stdout.lock());
    imp::install();
    if args.get(1).map(|s| s.as_str()) == Some("child") {
        IN_CHILD.store(true, std::sync::atomic::Ordering::Relaxed);
        let mut line = String::new();
        io::stdin().read_line(&mut line).unwrap();
        if let Some(l) = run_line(&line) {
            writeln!(out, "{}", l).unwrap();
        }
        return;
    }
    if args.get(1).map(|s| s.as_str()) == Some("replay") {
        for line in io::stdin().lock().lines() {
            if let Some(l) = run_line(&line.unwrap()) {
                writeln!(out, "{}", l).unwrap();
            }
        }
        return;
    }
    let tier = arg_value(&args, "--tier").unwrap_or("quick".into());
    let mut rng = Rng::new(env_seed());
    let mut count = 0u64;
    // every interleaving where there are few enough, a uniform sample otherwise of these program sets (upper bounds on the op counts: a losing
    // set makes one operation, a get that sees "not set" makes one)
    let sets: Vec<Vec<&str>> = vec![
        vec!["s", "g"],
        vec!["s", "s"],
        vec!["s", "i"],
        vec!["s", "s", "g"],
        vec!["s", "g", "g"],
        vec!["s", "g", "i"],
        vec!["sg", "g"],
        vec!["sg", "sg"],
        vec!["gs", "ig"],
        vec!["s", "gg"],
        vec!["sgi", "is"],
        vec!["sd", "dg"],
        // the process-wide holder through set_global_default / get_global_default / is_global_default_set
        // (a child process per case)
        vec!["G:s", "i"],
        vec!["G:s", "g"],
        vec!["G:s", "s", "i"],
        vec!["G:s", "s", "g"],
        vec!["G:si", "sg"],
        // a thread that sets twice; a macro invocation racing the set
        vec!["G:ss", "g"],
        vec!["G:sgs", "i"],
        vec!["G:s", "m"],
        vec!["G:s", "s", "m"],
        vec!["G:sm", "m"],
    ];
    for set in &sets {
        let is_global = set[0].starts_with("G:");
        let limit = match (tier == "quick", is_global) {
            (true, false) => 700,
            (true, true) => 80,
            (false, false) => 100000,
            (false, true) => 4000,
        };
        let counts: Vec<usize> = set.iter().map(|p| ops_of(p.trim_start_matches("G:"))).collect();
        let mut all = Vec::new();
        if multinomial(&counts) <= limit as f64 {
            interleavings(&counts, &mut Vec::new(), &mut all, limit);
        } else {
            // too many to enumerate: sample schedules uniformly instead of taking a lexicographic prefix
            for _ in 0..limit {
                let mut left = counts.clone();
                let mut sch = Vec::new();
                let mut total: usize = left.iter().sum();
                while total > 0 {
                    let mut k = rng.below(total as u64) as usize;
                    let mut t = 0;
                    while k >= left[t] {
                        k -= left[t];
                        t += 1;
                    }
                    left[t] -= 1;
                    total -= 1;
                    sch.push(t);
                }
                all.push(sch);
            }
        }
        for (k, sch) in all.into_iter().enumerate() {
            let l = format!("holder {} {}", set.join("/"), sch.iter().map(|x| x.to_string()).collect::<Vec<_>>().join(","));
            if let Some(o) = run_line(&l) {
                writeln!(out, "{}", o).unwrap();
                count += 1;
            }
            // the first schedules of every set also run in the binary built without debug assertions
            if !is_global && k < 12 {
                if let Some(o) = run_line(&l.replacen("holder ", "holdern ", 1)) {
                    writeln!(out, "{}", o).unwrap();
                    count += 1;
                }
            }
        }
    }
    // random programs and schedules
    let nrand = if tier == "quick" { 1500 } else { 60000 };
    for _ in 0..nrand {
        let nt = rng.range(2, 3) as usize;
        let progs: Vec<String> = (0..nt)
            .map(|_| (0..rng.range(1, 4)).map(|_| *rng.pick(&['s', 'g', 'i', 'g', 's', 'g', 'i', 'g', 'd'])).collect())
            .collect();
        let total: usize = progs.iter().map(|p| ops_of(p)).sum();
        let sch: Vec<String> = (0..total + 2).map(|_| rng.below(nt as u64).to_string()).collect();
        let l = format!("holder {}{} {}", if rng.chance(30) { "D:" } else { "" }, progs.join("/"), sch.join(","));
        if let Some(o) = run_line(&l) {
            writeln!(out, "{}", o).unwrap();
            count += 1;
        }
    }
    if let Some(o) = run_line(&format!("holdermiri {}", if tier == "quick" { 16 } else { 256 })) {
        writeln!(out, "{}", o).unwrap();
        count += 1;
    }
    eprintln!("holder: {} cases", count);
}
