//! Engine `queue`: drives `QueuingMetricSink` with a gated, scripted wrapped sink that records the
//! thread it runs on, its call order and its own `Drop`.
//!
//!   queue <cap|u> <handler 0|1> <ops> => <obs>
//!     ops : comma list of  e<h>:<hex> emit on handle h | c<h> clone | d<h> drop | f<h> flush |
//!           s<h> read counters | t<h> read stats() through the queuing sink | k finish-ok |
//!           z finish-ok reporting 0 bytes | x<kind> finish-err | p finish-panic
//!           (finish = let the wrapped sink return from the metric it is processing)
//!     obs : `;` list of `<res>|<events>` per op
//!       res    : ok<n> | err<k> | ok | idle | nohandle | blocked | panic | skipped | S<sub>.<drn>.<queued>.<panics>
//!                | K<bytes_sent>.<packets_sent>.<bytes_dropped>.<packets_dropped>
//!       events : `-` or comma list, in arrival order, of
//!                E<hex>:<w|c>   the wrapped sink was entered with this metric (worker / caller thread)
//!                H<kind>:<tok>:<w|c>  the error handler was invoked
//!                F              the wrapped sink's flush was called
//!                D              the wrapped sink was dropped
//!                T              an event the history makes due did not arrive in time
//!   The engine appends the closing operations (finish everything, drop every handle) to the case it
//!   prints, so the printed case is complete.
//!
//!   qstress <cap|u> <threads> <per-thread> => ok | <what went wrong>     free-running producers
//!   qburst <cap> <threads> <per> <rounds> => ok | …   producers released together against a parked worker
//!   qlatency <cap> => ok | …                          refused emits on a full queue return promptly

use cadence::{MetricSink, QueuingMetricSink};
use cadence_verif_harness::*;
use crossbeam_channel::{unbounded, Receiver, Sender};
use std::io::{self, BufRead, Write};
use std::panic::{catch_unwind, AssertUnwindSafe};
use std::sync::atomic::{AtomicU64, Ordering};
use std::sync::Arc;
use std::thread::ThreadId;
use std::time::{Duration, Instant};

#[derive(Debug)]
enum Ev {
    Enter(String, ThreadId),
    Handled(usize, String, ThreadId),
    Flushed,
    Dropped,
}

#[derive(Clone, Copy, Debug)]
enum Out {
    Ok,
    OkZero,
    Err(usize, u64),
    Panic,
}

struct Gated {
    ev: Sender<Ev>,
    go: Receiver<Out>,
}

/// the last OS-coded error a gated sink returned: (errno, token of that finish)
static LAST_OS: std::sync::Mutex<(i32, u64)> = std::sync::Mutex::new((0, 0));

impl MetricSink for Gated {
    fn emit(&self, m: &str) -> io::Result<usize> {
        let _ = self.ev.send(Ev::Enter(m.to_string(), std::thread::current().id()));
        match self.go.recv() {
            Ok(Out::Ok) | Err(_) => Ok(m.len()),
            Ok(Out::OkZero) => Ok(0),
            Ok(Out::Err(k, tok)) if k >= 200 => {
                // an OS-coded error (no payload): identified by its errno
                *LAST_OS.lock().unwrap() = ((k - 200) as i32, tok);
                Err(io::Error::from_raw_os_error((k - 200) as i32))
            }
            Ok(Out::Err(k, tok)) => Err(tok_err(k, tok)),
            Ok(Out::Panic) => panic!("scripted panic"),
        }
    }
    fn flush(&self) -> io::Result<()> {
        let _ = self.ev.send(Ev::Flushed);
        Ok(())
    }
    /// fixed figures: the queuing sink must report exactly these, whatever happened to its queue
    fn stats(&self) -> cadence::SinkStats {
        cadence::SinkStats { bytes_sent: 70, packets_sent: 3, bytes_dropped: 50, packets_dropped: 2 }
    }
}

impl Drop for Gated {
    fn drop(&mut self) {
        let _ = self.ev.send(Ev::Dropped);
    }
}

/// liveness timeouts seen so far in this process; once a handful of histories have timed out the
/// generators stop (the violation is established; thousands of further 400 ms waits add nothing)
static TIMEOUTS: AtomicU64 = AtomicU64::new(0);
/// `--shard k/n`: this process runs only the cases whose running index is k modulo n
static SHARD_K: AtomicU64 = AtomicU64::new(0);
static SHARD_N: AtomicU64 = AtomicU64::new(1);

fn mine(count: u64) -> bool {
    count % SHARD_N.load(Ordering::Relaxed) == SHARD_K.load(Ordering::Relaxed)
}

/// producer-side calls that did not return within the 2 s watchdog
static BLOCKED: AtomicU64 = AtomicU64::new(0);

fn too_many_timeouts() -> bool {
    TIMEOUTS.load(Ordering::Relaxed) > 15 || BLOCKED.load(Ordering::Relaxed) > 5
}

fn timeout_ms() -> u64 {
    std::env::var("VERIF_TIMEOUT_MS").ok().and_then(|s| s.parse().ok()).unwrap_or(400)
}

enum Cmd {
    Emit(usize, String),
    Clone(usize),
    Drop(usize),
    Flush(usize),
    Stats(usize, u64),
    SinkStats(usize),
    Quit,
}

/// the caller thread: owns the handles, executes producer-side operations one at a time
fn caller(q0: QueuingMetricSink, rx: Receiver<Cmd>, tx: Sender<String>) {
    let mut handles: Vec<Option<QueuingMetricSink>> = vec![Some(q0)];
    for cmd in rx.iter() {
        let r = match cmd {
            Cmd::Emit(h, m) => match handles.get(h).and_then(|x| x.as_ref()) {
                None => "nohandle".to_string(),
                Some(q) => match catch_unwind(AssertUnwindSafe(|| q.emit(&m))) {
                    Ok(Ok(n)) => format!("ok{}", n),
                    Ok(Err(e)) => format!("err{}", kind_index(e.kind())),
                    Err(_) => "panic".to_string(),
                },
            },
            Cmd::Clone(h) => match handles.get(h).and_then(|x| x.as_ref()) {
                None => "nohandle".to_string(),
                Some(q) => match catch_unwind(AssertUnwindSafe(|| q.clone())) {
                    Ok(c) => {
                        handles.push(Some(c));
                        "ok".to_string()
                    }
                    Err(_) => "panic".to_string(),
                },
            },
            Cmd::Drop(h) => match handles.get_mut(h).and_then(|x| x.take()) {
                None => "nohandle".to_string(),
                Some(q) => {
                    let t0 = Instant::now();
                    match catch_unwind(AssertUnwindSafe(move || drop(q))) {
                        // a drop never waits for the worker or the wrapped sink: it is a counter decrement
                        // and, for the last handle, one store and one try_send
                        Ok(_) if t0.elapsed() >= Duration::from_millis(100) => "slow".to_string(),
                        Ok(_) => "ok".to_string(),
                        Err(_) => "panic".to_string(),
                    }
                }
            },
            Cmd::Flush(h) => match handles.get(h).and_then(|x| x.as_ref()) {
                None => "nohandle".to_string(),
                Some(q) => match catch_unwind(AssertUnwindSafe(|| q.flush())) {
                    Ok(Ok(())) => "ok".to_string(),
                    Ok(Err(e)) => format!("err{}", kind_index(e.kind())),
                    Err(_) => "panic".to_string(),
                },
            },
            Cmd::Stats(h, want_panics) => match handles.get(h).and_then(|x| x.as_ref()) {
                None => "nohandle".to_string(),
                Some(q) => {
                    // the panic counter is bumped by the dying thread's Sentinel: poll for it
                    let t0 = Instant::now();
                    while q.panics() != want_panics && t0.elapsed() < Duration::from_millis(timeout_ms()) {
                        std::thread::yield_now();
                    }
                    format!("S{}.{}.{}.{}", q.submitted(), q.drained(), q.queued(), q.panics())
                }
            },
            Cmd::SinkStats(h) => match handles.get(h).and_then(|x| x.as_ref()) {
                None => "nohandle".to_string(),
                Some(q) => match catch_unwind(AssertUnwindSafe(|| q.stats())) {
                    Ok(s) => format!("K{}.{}.{}.{}", s.bytes_sent, s.packets_sent, s.bytes_dropped, s.packets_dropped),
                    Err(_) => "panic".to_string(),
                },
            },
            Cmd::Quit => break,
        };
        if tx.send(r).is_err() {
            break;
        }
    }
}

struct Run {
    cmd: Sender<Cmd>,
    res: Receiver<String>,
    ev: Receiver<Ev>,
    go: Sender<Out>,
    caller_tid: ThreadId,
    inside: bool,
    queued: usize,
    live: Vec<bool>,
    dropped: bool,
    pending_handler: bool,
    handler: bool,
    stuck: bool,
    blocked: bool,
    finishes: u64,
    panics: u64,
}

impl Run {
    fn new(cap: Option<usize>, hmode: u8) -> Run {
        let handler = hmode == 1 || hmode == 2;
        let (etx, erx) = unbounded();
        let (gtx, grx) = unbounded();
        let sink = Gated { ev: etx.clone(), go: grx };
        if hmode == 3 {
            // the direct constructors instead of the builder
            let q = match cap {
                Some(c) => QueuingMetricSink::with_capacity(sink, c),
                None => QueuingMetricSink::from(sink),
            };
            return Run::finish_new(q, erx, gtx, false);
        }
        let mut b = QueuingMetricSink::builder();
        // the builder calls may come in either order (handler mode 1: capacity first, 2: handler first)
        if hmode != 2 {
            if let Some(c) = cap {
                b = b.with_capacity(c);
            }
        }
        if handler {
            let htx = etx.clone();
            b = b.with_error_handler(move |e: io::Error| {
                if let Some(n) = e.raw_os_error() {
                    let (last, tok) = *LAST_OS.lock().unwrap();
                    let t = if last == n { tok.to_string() } else { "x".to_string() };
                    let _ = htx.send(Ev::Handled(200 + n as usize, t, std::thread::current().id()));
                    return;
                }
                let r = err_repr(&e);
                let mut it = r.split(':');
                let k: usize = it.next().unwrap().parse().unwrap_or(99);
                let t = it.next().unwrap_or("x").to_string();
                let _ = htx.send(Ev::Handled(k, t, std::thread::current().id()));
            });
        }
        if hmode == 2 {
            if let Some(c) = cap {
                b = b.with_capacity(c);
            }
        }
        let q = b.build(sink);
        Run::finish_new(q, erx, gtx, handler)
    }

    fn finish_new(q: QueuingMetricSink, erx: Receiver<Ev>, gtx: Sender<Out>, handler: bool) -> Run {
        let (ctx, crx) = unbounded();
        let (rtx, rrx) = unbounded();
        let (ttx, trx) = unbounded();
        std::thread::spawn(move || {
            let _ = ttx.send(std::thread::current().id());
            caller(q, crx, rtx)
        });
        let caller_tid = trx.recv().unwrap();
        Run {
            cmd: ctx,
            res: rrx,
            ev: erx,
            go: gtx,
            caller_tid,
            inside: false,
            queued: 0,
            live: vec![true],
            dropped: false,
            pending_handler: false,
            handler,
            stuck: false,
            blocked: false,
            finishes: 0,
            panics: 0,
        }
    }

    fn class(&self, t: ThreadId) -> &'static str {
        if t == self.caller_tid {
            "c"
        } else {
            "w"
        }
    }

    fn note(&mut self, e: Ev, out: &mut Vec<String>) {
        match e {
            Ev::Enter(m, t) => {
                out.push(format!("E{}:{}", hex(m.as_bytes()), self.class(t)));
                self.inside = true;
                self.queued = self.queued.saturating_sub(1);
            }
            Ev::Handled(k, tok, t) => {
                out.push(format!("H{}:{}:{}", k, tok, self.class(t)));
                self.pending_handler = false;
            }
            Ev::Flushed => out.push("F".to_string()),
            Ev::Dropped => {
                out.push("D".to_string());
                self.dropped = true;
            }
        }
    }

    fn expecting(&self) -> bool {
        if self.stuck {
            return false;
        }
        if self.pending_handler {
            return true;
        }
        if self.inside {
            return false;
        }
        if self.queued > 0 {
            return true;
        }
        self.live.iter().all(|l| !l) && !self.dropped
    }

    /// wait for exactly the events the history makes due; never conclude from silence
    fn settle(&mut self) -> String {
        let mut out = Vec::new();
        while self.expecting() {
            match self.ev.recv_timeout(Duration::from_millis(timeout_ms())) {
                Ok(e) => self.note(e, &mut out),
                Err(_) => {
                    out.push("T".to_string());
                    self.stuck = true;
                    TIMEOUTS.fetch_add(1, Ordering::Relaxed);
                }
            }
        }
        while let Ok(e) = self.ev.try_recv() {
            self.note(e, &mut out);
        }
        if out.is_empty() {
            "-".to_string()
        } else {
            out.join(",")
        }
    }

    fn producer(&mut self, c: Cmd) -> String {
        if self.blocked {
            return "skipped".to_string();
        }
        if self.cmd.send(c).is_err() {
            return "skipped".to_string();
        }
        match self.res.recv_timeout(Duration::from_secs(2)) {
            Ok(r) => r,
            Err(_) => {
                self.blocked = true;
                BLOCKED.fetch_add(1, Ordering::Relaxed);
                "blocked".to_string()
            }
        }
    }

    fn op(&mut self, op: &str) -> String {
        let (c, rest) = op.split_at(1);
        let res = match c {
            "e" => {
                let mut it = rest.splitn(2, ':');
                let h: usize = it.next().unwrap().parse().unwrap_or(usize::MAX);
                let m = String::from_utf8(unhex(it.next().unwrap_or("-"))).unwrap_or_default();
                let r = self.producer(Cmd::Emit(h, m));
                if r.starts_with("ok") {
                    self.queued += 1;
                }
                r
            }
            "c" => {
                let h: usize = rest.parse().unwrap_or(usize::MAX);
                let r = self.producer(Cmd::Clone(h));
                if r == "ok" {
                    self.live.push(true);
                }
                r
            }
            "d" => {
                let h: usize = rest.parse().unwrap_or(usize::MAX);
                let r = self.producer(Cmd::Drop(h));
                if r == "ok" || r == "slow" {
                    self.live[h] = false;
                }
                r
            }
            "f" => {
                let h: usize = rest.parse().unwrap_or(usize::MAX);
                self.producer(Cmd::Flush(h))
            }
            "s" => {
                let h: usize = rest.parse().unwrap_or(usize::MAX);
                let want = self.panics;
                self.producer(Cmd::Stats(h, want))
            }
            "t" => {
                let h: usize = rest.parse().unwrap_or(usize::MAX);
                self.producer(Cmd::SinkStats(h))
            }
            "w" => {
                // idle time: nothing is due, nothing may happen
                std::thread::sleep(Duration::from_millis(rest.parse().unwrap_or(0)));
                "ok".to_string()
            }
            "k" | "x" | "p" | "z" => {
                if !self.inside {
                    "idle".to_string()
                } else {
                    self.finishes += 1;
                    let o = match c {
                        "k" => Out::Ok,
                        "z" => Out::OkZero,
                        "x" => {
                            if self.handler {
                                self.pending_handler = true;
                            }
                            Out::Err(rest.parse().unwrap_or(15), self.finishes)
                        }
                        _ => {
                            self.panics += 1;
                            Out::Panic
                        }
                    };
                    self.inside = false;
                    let _ = self.go.send(o);
                    "ok".to_string()
                }
            }
            _ => "badop".to_string(),
        };
        format!("{}|{}", res, self.settle())
    }
}

fn run_queue(cap: Option<usize>, hmode: u8, ops: &[String]) -> (Vec<String>, String) {
    let mut r = Run::new(cap, hmode);
    let mut all_ops: Vec<String> = Vec::new();
    let mut obs = Vec::new();
    for op in ops {
        all_ops.push(op.clone());
        obs.push(r.op(op));
    }
    // closing operations: let everything through, drop every handle
    let mut guard = 0;
    while (r.inside || (r.queued > 0 && !r.stuck)) && guard < 100000 {
        guard += 1;
        if !r.inside {
            break;
        }
        all_ops.push("k".to_string());
        obs.push(r.op("k"));
    }
    for h in 0..r.live.len() {
        if r.live[h] {
            let op = format!("d{}", h);
            obs.push(r.op(&op));
            all_ops.push(op);
            // a drop may let a queued metric through after a lost wake-up; finish whatever arrives
            while r.inside && guard < 200000 {
                guard += 1;
                all_ops.push("k".to_string());
                obs.push(r.op("k"));
            }
        }
    }
    let _ = r.cmd.send(Cmd::Quit);
    (all_ops, obs.join(";"))
}

fn mname(h: usize, n: usize) -> String {
    hex(format!("h{}m{}", h, n).as_bytes())
}

fn parse_cap(s: &str) -> Option<usize> {
    if s == "u" {
        None
    } else {
        s.parse().ok()
    }
}

fn run_line(line: &str) -> Option<String> {
    let line = line.split(" => ").next().unwrap().trim();
    if line.is_empty() || line.starts_with('#') {
        return None;
    }
    let f: Vec<&str> = line.split(' ').collect();
    match f[0] {
        "queue" if f.len() == 4 => {
            let ops: Vec<String> = if f[3] == "-" { vec![] } else { f[3].split(',').map(|x| x.to_string()).collect() };
            let (all, obs) = run_queue(parse_cap(f[1]), f[2].parse().unwrap_or(0), &ops);
            Some(format!("queue {} {} {} => {}", f[1], f[2], if all.is_empty() { "-".to_string() } else { all.join(",") }, obs))
        }
        "queue0" if f.len() == 3 => {
            // zero-capacity (rendezvous) queue: outside the model; only "never panics / never blocks" is checked
            let ops: Vec<String> = if f[2] == "-" { vec![] } else { f[2].split(',').map(|x| x.to_string()).collect() };
            let (all, obs) = run_queue(Some(0), f[1].parse().unwrap_or(0), &ops);
            Some(format!("queue0 {} {} => {}", f[1], if all.is_empty() { "-".to_string() } else { all.join(",") }, obs))
        }
        "qburst" if f.len() == 5 || f.len() == 6 => {
            let prefill = f.get(5).and_then(|x| x.parse().ok()).unwrap_or(0);
            let r = run_burst(f[1].parse().unwrap_or(1), f[2].parse().unwrap_or(2), f[3].parse().unwrap_or(1), f[4].parse().unwrap_or(1), prefill);
            Some(format!("{} => {}", line, r))
        }
        "qlatency" if f.len() == 2 => Some(format!("{} => {}", line, run_latency(f[1].parse().unwrap_or(1)))),
        "qdroprace" if f.len() == 2 => Some(format!("{} => {}", line, run_droprace(f[1].parse().unwrap_or(1)))),
        "qnothread" => Some(format!("qnothread => {}", run_nothread())),
        "qfirst" if f.len() == 2 => Some(format!("{} => {}", line, run_first(f[1].parse().unwrap_or(1)))),
        "qunwind" if f.len() == 2 => Some(format!("{} => {}", line, run_unwind(f[1].parse().unwrap_or(1)))),
        "qdeep" if f.len() == 2 => Some(format!("{} => {}", line, run_deep(f[1].parse().unwrap_or(1)))),
        "qstop0" if f.len() == 2 => Some(format!("{} => {}", line, run_stop0(f[1].parse().unwrap_or(1)))),
        "qemitdrop" if f.len() == 2 => Some(format!("{} => {}", line, run_emitdrop(f[1].parse().unwrap_or(1)))),
        "qstress" if f.len() == 4 => {
            let r = run_stress(parse_cap(f[1]), f[2].parse().unwrap_or(2), f[3].parse().unwrap_or(10));
            Some(format!("{} => {}", line, r))
        }
        _ => Some(format!("{} => malformed", line)),
    }
}

/// free-running producers, no gate: every accepted metric delivered exactly once, each producer's
/// metrics in its own order; counters sampled concurrently stay sane
struct Collect {
    got: std::sync::Mutex<Vec<String>>,
}
struct CollSink(Arc<Collect>);
impl MetricSink for CollSink {
    fn emit(&self, m: &str) -> io::Result<usize> {
        self.0.got.lock().unwrap().push(m.to_string());
        Ok(m.len())
    }
}

fn run_stress(cap: Option<usize>, threads: usize, per: usize) -> String {
    let coll = Arc::new(Collect { got: std::sync::Mutex::new(Vec::new()) });
    let q = match cap {
        Some(c) => QueuingMetricSink::with_capacity(CollSink(coll.clone()), c),
        None => QueuingMetricSink::from(CollSink(coll.clone())),
    };
    let bad = Arc::new(AtomicU64::new(0));
    let stop = Arc::new(AtomicU64::new(0));
    let sampler = {
        let q = q.clone();
        let bad = bad.clone();
        let stop = stop.clone();
        std::thread::spawn(move || {
            while stop.load(Ordering::Acquire) == 0 {
                let s1 = q.submitted();
                let qd = q.queued();
                let s2 = q.submitted();
                // queued is computed from a submitted value read between s1 and s2
                if qd > s2 || qd >= (1u64 << 63) {
                    bad.fetch_add(1, Ordering::Relaxed);
                }
                let _ = s1;
            }
        })
    };
    let mut hs = Vec::new();
    for t in 0..threads {
        let q = q.clone();
        hs.push(std::thread::spawn(move || {
            let mut acc = Vec::new();
            for i in 0..per {
                let m = format!("t{}.{}", t, i);
                if q.emit(&m).is_ok() {
                    acc.push(m);
                }
                if i % 7 == 0 {
                    std::thread::yield_now();
                }
            }
            acc
        }));
    }
    let accepted: Vec<Vec<String>> = hs.into_iter().map(|h| h.join().unwrap()).collect();
    let total: usize = accepted.iter().map(|a| a.len()).sum();
    stop.store(1, Ordering::Release);
    if sampler.join().is_err() {
        return "queued-panicked-under-concurrency".to_string();
    }
    let t0 = Instant::now();
    while coll.got.lock().unwrap().len() < total && t0.elapsed() < Duration::from_secs(10) {
        std::thread::yield_now();
    }
    // everything has been handed over: the queue is empty, so one more metric must be accepted (and delivered)
    let mut total = total;
    let mut final_refused = false;
    if coll.got.lock().unwrap().len() == total {
        if q.emit("final.after.drain").is_ok() {
            total += 1;
        } else {
            final_refused = true;
        }
        let t0 = Instant::now();
        while coll.got.lock().unwrap().len() < total && t0.elapsed() < Duration::from_secs(10) {
            std::thread::yield_now();
        }
    }
    let sub = q.submitted();
    drop(q);
    let t0 = Instant::now();
    while Arc::strong_count(&coll) > 1 && t0.elapsed() < Duration::from_secs(10) {
        std::thread::yield_now();
    }
    let got = coll.got.lock().unwrap().clone();
    if final_refused {
        return "refused-a-metric-on-an-empty-queue-after-the-burst".to_string();
    }
    if Arc::strong_count(&coll) > 1 {
        return "wrapped-sink-not-released".to_string();
    }
    if sub as usize != total {
        return format!("submitted={}-but-{}-accepted", sub, total);
    }
    if got.len() != total {
        return format!("delivered={}-accepted={}", got.len(), total);
    }
    for (t, acc) in accepted.iter().enumerate() {
        let pfx = format!("t{}.", t);
        let mine: Vec<&String> = got.iter().filter(|m| m.starts_with(&pfx)).collect();
        if mine.len() != acc.len() || mine.iter().zip(acc.iter()).any(|(a, b)| *a != b) {
            return format!("producer-{}-order-or-multiplicity", t);
        }
    }
    if bad.load(Ordering::Relaxed) > 0 {
        return "queued-out-of-bounds".to_string();
    }
    "ok".to_string()
}

// ------------------------------------------------------------------------------------------------

/// worker parked inside the wrapped sink; `threads` producers released together, each trying
/// `per` emits: exactly `cap` must be accepted in every round (the capacity is never exceeded)
fn run_burst(cap: usize, threads: usize, per: usize, rounds: usize, prefill: usize) -> String {
    for round in 0..rounds {
        let (etx, erx) = unbounded();
        let (gtx, grx) = unbounded();
        let q = QueuingMetricSink::with_capacity(Gated { ev: etx, go: grx }, cap);
        if q.emit("park").is_err() {
            return "first-emit-refused".to_string();
        }
        match erx.recv_timeout(Duration::from_millis(2000)) {
            Ok(Ev::Enter(_, _)) => {}
            _ => return "worker-did-not-start".to_string(),
        }
        // fill the queue up to `prefill` first (one thread), so that the burst meets a nearly full queue
        for i in 0..prefill {
            if q.emit(&format!("f{}", i)).is_err() {
                return format!("capacity-{}-refused-metric-{}-of-the-prefill", cap, i);
            }
        }
        // a spinning start line: the producers leave it within nanoseconds of each other
        let barrier = Arc::new(AtomicU64::new(0));
        let mut hs = Vec::new();
        for t in 0..threads {
            let q = q.clone();
            let b = barrier.clone();
            let nthreads = threads as u64;
            hs.push(std::thread::spawn(move || {
                b.fetch_add(1, Ordering::AcqRel);
                while b.load(Ordering::Acquire) < nthreads {
                    std::hint::spin_loop();
                }
                let mut ok = 0usize;
                for i in 0..per {
                    if q.emit(&format!("b{}.{}", t, i)).is_ok() {
                        ok += 1;
                    }
                }
                ok
            }));
        }
        let accepted: usize = hs.into_iter().map(|h| h.join().unwrap_or(0)).sum();
        let queued = q.queued();
        // let everything through and shut down
        for _ in 0..(accepted + prefill + 2) {
            let _ = gtx.send(Out::Ok);
        }
        drop(q);
        if accepted + prefill != cap {
            return format!("capacity-{}-accepted-{}-in-round-{}-queued-{}", cap, accepted + prefill, round, queued);
        }
    }
    "ok".to_string()
}

/// the last two handles are dropped at the same moment on two threads: the worker must still stop and
/// the wrapped sink must be released (the stop belongs to whichever drop is really the last)
fn run_droprace(rounds: usize) -> String {
    for round in 0..rounds {
        let (etx, erx) = unbounded();
        let (_gtx, grx) = unbounded::<Out>();
        let q = QueuingMetricSink::with_capacity(Gated { ev: etx, go: grx }, 4);
        let q2 = q.clone();
        // spin barrier: both threads leave it within nanoseconds of each other
        let gate = Arc::new(AtomicU64::new(0));
        let (g1, g2) = (gate.clone(), gate.clone());
        let t1 = std::thread::spawn(move || {
            g1.fetch_add(1, Ordering::AcqRel);
            while g1.load(Ordering::Acquire) < 2 {
                std::hint::spin_loop();
            }
            drop(q);
        });
        let t2 = std::thread::spawn(move || {
            g2.fetch_add(1, Ordering::AcqRel);
            while g2.load(Ordering::Acquire) < 2 {
                std::hint::spin_loop();
            }
            drop(q2);
        });
        let _ = t1.join();
        let _ = t2.join();
        let mut released = false;
        let t0 = Instant::now();
        while t0.elapsed() < Duration::from_millis(2000) {
            match erx.recv_timeout(Duration::from_millis(50)) {
                Ok(Ev::Dropped) => {
                    released = true;
                    break;
                }
                Ok(_) => {}
                Err(_) => {}
            }
        }
        if !released {
            return format!("wrapped-sink-not-released-after-concurrent-last-drops-round-{}", round);
        }
    }
    "ok".to_string()
}

/// first emits on a fresh sink from several handles at the same moment: one consumer only (the wrapped sink is
/// never entered concurrently), every accepted metric delivered once, each producer's metrics in order
struct Exclusive {
    inside: AtomicU64,
    overlap: Arc<AtomicU64>,
    got: Arc<std::sync::Mutex<Vec<String>>>,
}
impl MetricSink for Exclusive {
    fn emit(&self, m: &str) -> io::Result<usize> {
        if self.inside.swap(1, Ordering::SeqCst) == 1 {
            self.overlap.fetch_add(1, Ordering::SeqCst);
        }
        for _ in 0..200 {
            std::hint::spin_loop();
        }
        self.got.lock().unwrap().push(m.to_string());
        self.inside.store(0, Ordering::SeqCst);
        Ok(m.len())
    }
}

fn run_first(rounds: usize) -> String {
    for round in 0..rounds {
        let overlap = Arc::new(AtomicU64::new(0));
        let got = Arc::new(std::sync::Mutex::new(Vec::new()));
        let sink = Exclusive { inside: AtomicU64::new(0), overlap: overlap.clone(), got: got.clone() };
        let q = if round % 2 == 0 { QueuingMetricSink::from(sink) } else { QueuingMetricSink::with_capacity(sink, 64) };
        let gate = Arc::new(AtomicU64::new(0));
        let n = 4u64;
        let mut hs = Vec::new();
        for t in 0..n {
            let q = q.clone();
            let gate = gate.clone();
            hs.push(std::thread::spawn(move || {
                gate.fetch_add(1, Ordering::AcqRel);
                while gate.load(Ordering::Acquire) < n {
                    std::hint::spin_loop();
                }
                let mut ok = 0;
                for i in 0..6 {
                    if q.emit(&format!("t{}.{}", t, i)).is_ok() {
                        ok += 1;
                    }
                }
                ok
            }));
        }
        let accepted: usize = hs.into_iter().map(|h| h.join().unwrap_or(0)).sum();
        let t0 = Instant::now();
        while got.lock().unwrap().len() < accepted && t0.elapsed() < Duration::from_secs(3) {
            std::thread::yield_now();
        }
        drop(q);
        let g = got.lock().unwrap().clone();
        if overlap.load(Ordering::SeqCst) > 0 {
            return format!("the-wrapped-sink-was-entered-concurrently-round-{}", round);
        }
        if g.len() != accepted {
            return format!("accepted-{}-delivered-{}-round-{}", accepted, g.len(), round);
        }
        for t in 0..n {
            let pfx = format!("t{}.", t);
            let seq: Vec<usize> = g.iter().filter(|m| m.starts_with(&pfx)).filter_map(|m| m[pfx.len()..].parse().ok()).collect();
            if seq.windows(2).any(|w| w[0] >= w[1]) {
                return format!("producer-{}-out-of-order-or-duplicated-round-{}", t, round);
            }
        }
    }
    "ok".to_string()
}

/// the operating system refuses to create the worker thread (address-space limit, in a child process): the
/// constructor may fail loudly, but it must not hand out a sink that accepts metrics nobody will ever deliver
extern "C" {
    fn getrlimit(resource: i32, rlim: *mut [u64; 2]) -> i32;
    fn setrlimit(resource: i32, rlim: *const [u64; 2]) -> i32;
}
const RLIMIT_AS: i32 = 9;

fn child_nothread() -> String {
    let vm_kb: u64 = std::fs::read_to_string("/proc/self/status")
        .ok()
        .and_then(|s| s.lines().find(|l| l.starts_with("VmSize:")).and_then(|l| l.split_whitespace().nth(1).and_then(|x| x.parse().ok())))
        .unwrap_or(0);
    if vm_kb == 0 {
        return "inconclusive".to_string();
    }
    let coll = Arc::new(Collect { got: std::sync::Mutex::new(Vec::new()) });
    let sink = CollSink(coll.clone());
    let mut old = [0u64; 2];
    unsafe {
        if getrlimit(RLIMIT_AS, &mut old) != 0 {
            return "inconclusive".to_string();
        }
        let new = [vm_kb * 1024 + (1 << 20), old[1]];
        if setrlimit(RLIMIT_AS, &new) != 0 {
            return "inconclusive".to_string();
        }
    }
    let built = catch_unwind(AssertUnwindSafe(move || QueuingMetricSink::from(sink)));
    let r = match built {
        Err(_) => "constructor-failed-loudly".to_string(),
        Ok(q) => {
            let accepted = q.emit("m").is_ok();
            unsafe {
                let _ = setrlimit(RLIMIT_AS, &old);
            }
            let t0 = Instant::now();
            while coll.got.lock().unwrap().is_empty() && t0.elapsed() < Duration::from_millis(1500) {
                std::thread::sleep(Duration::from_millis(5));
            }
            let delivered = !coll.got.lock().unwrap().is_empty();
            std::mem::forget(q);
            match (accepted, delivered) {
                (true, false) => "accepted-a-metric-but-no-worker-thread-exists-to-deliver-it".to_string(),
                (true, true) => "inconclusive".to_string(), // the thread could be created after all
                (false, _) => "emit-refused".to_string(),
            }
        }
    };
    unsafe {
        let _ = setrlimit(RLIMIT_AS, &old);
    }
    r
}

fn run_nothread() -> String {
    let exe = match std::env::current_exe() {
        Ok(e) => e,
        Err(_) => return "inconclusive".to_string(),
    };
    match std::process::Command::new(exe).arg("child-nothread").stderr(std::process::Stdio::null()).output() {
        Ok(o) => {
            let t = String::from_utf8_lossy(&o.stdout).trim().to_string();
            if t.is_empty() {
                "inconclusive".to_string() // the child died of the limit itself
            } else {
                t
            }
        }
        Err(_) => "inconclusive".to_string(),
    }
}

/// the last handle is dropped by a thread that is unwinding from a panic (its own, not the sink's): the stop
/// request is made all the same, the backlog is handed over and the wrapped sink dropped
fn run_unwind(rounds: usize) -> String {
    for round in 0..rounds {
        let coll = Arc::new(Collect { got: std::sync::Mutex::new(Vec::new()) });
        let q = if round % 2 == 0 { QueuingMetricSink::from(CollSink(coll.clone())) } else { QueuingMetricSink::with_capacity(CollSink(coll.clone()), 4) };
        let owner = std::thread::spawn(move || {
            let q = q;
            let _ = q.emit("a");
            let _ = q.emit("b");
            if q.queued() < u64::MAX {
                panic!("the owner of the last handle panics");
            }
            drop(q);
        });
        let _ = owner.join();
        let t0 = Instant::now();
        while (Arc::strong_count(&coll) > 1 || coll.got.lock().unwrap().len() < 2) && t0.elapsed() < Duration::from_secs(2) {
            std::thread::yield_now();
        }
        if coll.got.lock().unwrap().len() < 2 {
            return format!("accepted-metrics-lost-when-the-last-handle-was-dropped-by-unwinding-round-{}", round);
        }
        if Arc::strong_count(&coll) > 1 {
            return format!("wrapped-sink-not-released-after-the-last-handle-was-dropped-by-unwinding-round-{}", round);
        }
    }
    "ok".to_string()
}

/// an unbounded queue accepts every metric: the worker is parked and `n` metrics are queued behind it
fn run_deep(n: usize) -> String {
    let (etx, erx) = unbounded();
    let (gtx, grx) = unbounded();
    let q = QueuingMetricSink::from(Gated { ev: etx, go: grx });
    if q.emit("park").is_err() {
        return "first-emit-refused".to_string();
    }
    let _ = erx.recv_timeout(Duration::from_millis(2000));
    let mut refused_at = None;
    for i in 0..n {
        if q.emit("m").is_err() {
            refused_at = Some(i);
            break;
        }
    }
    let queued = q.queued();
    // shut down without draining a million gate openings one by one: closing the gate channel makes every
    // further wrapped-sink call return at once
    drop(gtx);
    drop(q);
    match refused_at {
        Some(i) => format!("unbounded-queue-refused-metric-{}-with-{}-queued", i, queued),
        None => "ok".to_string(),
    }
}

/// the worker is held inside the wrapped sink with the first metric (queue empty), released, and after a
/// few spins a second metric is emitted and the only handle dropped at once: both must be delivered before
/// the wrapped sink is dropped.  `rounds` attempts on each of 8 threads, with varying delays on both sides.
struct Probe {
    ready: Arc<AtomicU64>,
    go: Arc<AtomicU64>,
    delay: u64,
    seen: Arc<AtomicU64>,
    dropped: std::sync::Mutex<std::sync::mpsc::Sender<u64>>,
}
impl MetricSink for Probe {
    fn emit(&self, m: &str) -> io::Result<usize> {
        if self.seen.fetch_add(1, Ordering::SeqCst) == 0 {
            self.ready.store(1, Ordering::SeqCst);
            while self.go.load(Ordering::SeqCst) == 0 {
                std::hint::spin_loop();
            }
            for _ in 0..self.delay {
                std::hint::spin_loop();
            }
        }
        Ok(m.len())
    }
}
impl Drop for Probe {
    fn drop(&mut self) {
        let _ = self.dropped.lock().unwrap().send(self.seen.load(Ordering::SeqCst));
    }
}

/// capacity 0 (a rendezvous channel cannot hold the stop marker): the worker is held inside the wrapped sink,
/// released, and after a few spins the only handle is dropped — aimed at the worker's way back from the sink to
/// `recv()`.  The wrapped sink must be dropped all the same.  `rounds` attempts on each of 8 threads.
fn run_stop0(rounds: usize) -> String {
    let failed: Arc<std::sync::Mutex<Option<String>>> = Arc::new(std::sync::Mutex::new(None));
    let mut hs = Vec::new();
    for t in 0..8u64 {
        let failed = failed.clone();
        hs.push(std::thread::spawn(move || {
            let mut rng = Rng::new(env_seed() ^ (t + 1).wrapping_mul(0x51ED_270B));
            for round in 0..rounds {
                if failed.lock().unwrap().is_some() {
                    return;
                }
                let (ready, go, seen) = (Arc::new(AtomicU64::new(0)), Arc::new(AtomicU64::new(0)), Arc::new(AtomicU64::new(0)));
                let (tx, rx) = std::sync::mpsc::channel();
                let probe = Probe { ready: ready.clone(), go: go.clone(), delay: rng.below(64), seen: seen.clone(), dropped: std::sync::Mutex::new(tx) };
                let q = QueuingMetricSink::with_capacity(probe, 0);
                // a rendezvous queue accepts a metric only while the worker waits in recv()
                let t0 = Instant::now();
                let mut accepted = false;
                while t0.elapsed() < Duration::from_secs(2) {
                    if q.emit("first").is_ok() {
                        accepted = true;
                        break;
                    }
                    std::hint::spin_loop();
                }
                if !accepted {
                    *failed.lock().unwrap() = Some("capacity-0:no-emit-was-accepted-within-2-s-although-the-worker-waits-for-one".to_string());
                    return;
                }
                if accepted {
                    let t0 = Instant::now();
                    while ready.load(Ordering::SeqCst) == 0 && t0.elapsed() < Duration::from_secs(2) {
                        std::hint::spin_loop();
                    }
                    go.store(1, Ordering::SeqCst);
                    for _ in 0..rng.below(256) {
                        std::hint::spin_loop();
                    }
                }
                drop(q);
                match rx.recv_timeout(Duration::from_secs(4)) {
                    Ok(n) if n == accepted as u64 => {}
                    Ok(n) => {
                        *failed.lock().unwrap() = Some(format!("capacity-0:{}-accepted-{}-delivered-before-the-wrapped-sink-was-dropped", accepted as u64, n));
                        return;
                    }
                    Err(_) => {
                        *failed.lock().unwrap() =
                            Some(format!("capacity-0:the-worker-never-stopped-and-the-wrapped-sink-was-never-dropped-after-the-last-handle-was-dropped-round-{}", round));
                        return;
                    }
                }
            }
        }));
    }
    for h in hs {
        let _ = h.join();
    }
    let r = failed.lock().unwrap().clone();
    r.unwrap_or_else(|| "ok".to_string())
}

fn run_emitdrop(rounds: usize) -> String {
    let failed: Arc<std::sync::Mutex<Option<String>>> = Arc::new(std::sync::Mutex::new(None));
    let mut hs = Vec::new();
    for t in 0..8u64 {
        let failed = failed.clone();
        hs.push(std::thread::spawn(move || {
            let mut rng = Rng::new(env_seed() ^ (t + 1).wrapping_mul(0x9E37_79B9));
            for round in 0..rounds {
                if failed.lock().unwrap().is_some() {
                    return;
                }
                let (ready, go, seen) = (Arc::new(AtomicU64::new(0)), Arc::new(AtomicU64::new(0)), Arc::new(AtomicU64::new(0)));
                let (tx, rx) = std::sync::mpsc::channel();
                let probe = Probe { ready: ready.clone(), go: go.clone(), delay: rng.below(64), seen: seen.clone(), dropped: std::sync::Mutex::new(tx) };
                if round % 4 == 3 {
                    // capacity 0: the metric is handed to the waiting worker, which has yet to wake up when the
                    // only handle goes: the stop request must not make it discard what it was given
                    go.store(1, Ordering::SeqCst);
                    let q = QueuingMetricSink::with_capacity(probe, 0);
                    let t0 = Instant::now();
                    let mut accepted = false;
                    while !accepted && t0.elapsed() < Duration::from_secs(2) {
                        accepted = q.emit("first").is_ok();
                    }
                    for _ in 0..rng.below(32) {
                        std::hint::spin_loop();
                    }
                    drop(q);
                    let want = if accepted { 1 } else { 0 };
                    match rx.recv_timeout(Duration::from_secs(3)) {
                        Ok(n) if n == want => {}
                        Ok(n) => {
                            *failed.lock().unwrap() = Some(format!(
                                "capacity-0:accepted-metric-lost-when-the-last-handle-was-dropped-right-after-the-emit:{}-accepted-{}-delivered-before-the-wrapped-sink-was-dropped",
                                want, n
                            ));
                            return;
                        }
                        Err(_) => {
                            *failed.lock().unwrap() = Some("capacity-0:wrapped-sink-not-released-after-emit-and-last-drop".to_string());
                            return;
                        }
                    }
                    continue;
                }
                let q = match round % 3 {
                    0 => QueuingMetricSink::from(probe),
                    k => QueuingMetricSink::with_capacity(probe, k),
                };
                if q.emit("first").is_err() {
                    *failed.lock().unwrap() = Some("first-emit-refused".to_string());
                    return;
                }
                let t0 = Instant::now();
                while ready.load(Ordering::SeqCst) == 0 && t0.elapsed() < Duration::from_secs(2) {
                    std::hint::spin_loop();
                }
                let main_delay = rng.below(64);
                go.store(1, Ordering::SeqCst);
                for _ in 0..main_delay {
                    std::hint::spin_loop();
                }
                let want = if q.emit("second").is_ok() { 2 } else { 1 };
                drop(q);
                match rx.recv_timeout(Duration::from_secs(3)) {
                    Ok(n) if n == want => {}
                    Ok(n) => {
                        *failed.lock().unwrap() = Some(format!(
                            "accepted-metric-lost-when-the-last-handle-was-dropped-right-after-the-emit:{}-accepted-{}-delivered-before-the-wrapped-sink-was-dropped",
                            want, n
                        ));
                        return;
                    }
                    Err(_) => {
                        *failed.lock().unwrap() = Some("wrapped-sink-not-released-after-emit-and-last-drop".to_string());
                        return;
                    }
                }
            }
        }));
    }
    for h in hs {
        let _ = h.join();
    }
    let r = failed.lock().unwrap().clone();
    r.unwrap_or_else(|| "ok".to_string())
}

/// worker parked, queue full: refused emits must return promptly (they never wait for the worker)
fn run_latency(cap: usize) -> String {
    let mut worst = String::new();
    for _attempt in 0..3 {
        let (etx, erx) = unbounded();
        let (gtx, grx) = unbounded();
        let q = QueuingMetricSink::with_capacity(Gated { ev: etx, go: grx }, cap);
        let _ = q.emit("park");
        let _ = erx.recv_timeout(Duration::from_millis(2000));
        for i in 0..cap {
            let _ = q.emit(&format!("f{}", i));
        }
        let t0 = Instant::now();
        let mut refused = 0;
        for i in 0..100 {
            if q.emit(&format!("r{}", i)).is_err() {
                refused += 1;
            }
        }
        let el = t0.elapsed();
        for _ in 0..(cap + 2) {
            let _ = gtx.send(Out::Ok);
        }
        drop(q);
        if refused != 100 {
            return format!("only-{}-of-100-emits-refused-on-a-full-queue", refused);
        }
        if el < Duration::from_millis(200) {
            return "ok".to_string();
        }
        worst = format!("100-refused-emits-took-{}ms-on-a-full-queue", el.as_millis());
    }
    worst
}

fn emit_case(out: &mut impl Write, cap: Option<usize>, handler: bool, ops: &[String], count: &mut u64) {
    if too_many_timeouts() {
        return;
    }
    if !mine(*count) {
        *count += 1;
        return;
    }
    emit_case_here(out, cap, handler, ops, count)
}

/// run the case in this process whatever the shard (`count` only selects the constructor here)
fn emit_case_here(out: &mut impl Write, cap: Option<usize>, handler: bool, ops: &[String], count: &mut u64) {
    // 0: builder without handler, 3: QueuingMetricSink::with_capacity / ::from, 1 / 2: builder with handler
    // (capacity first / handler first)
    let hmode: u8 = if !handler { if (*count / 2) % 2 == 0 { 0 } else { 3 } } else { 1 + ((*count / 2) % 2) as u8 };
    let (all, obs) = run_queue(cap, hmode, ops);
    if cap == Some(0) {
        // rendezvous queue: its own model (Cadence.Model.Queue0)
        writeln!(out, "queue0 {} {} => {}", hmode, if all.is_empty() { "-".to_string() } else { all.join(",") }, obs).unwrap();
        *count += 1;
        return;
    }
    writeln!(
        out,
        "queue {} {} {} => {}",
        cap.map(|c| c.to_string()).unwrap_or("u".into()),
        hmode,
        if all.is_empty() { "-".to_string() } else { all.join(",") },
        obs
    )
    .unwrap();
    *count += 1;
}

/// all histories of exactly `depth` ops over two handles
fn exhaustive(out: &mut impl Write, caps: &[Option<usize>], depth: usize, count: &mut u64) {
    let alpha = ["e0", "e1", "E0", "c0", "d0", "d1", "k", "x4", "p", "s0"];
    let a = alpha.len();
    for &cap in caps {
        for d in 1..=depth {
            for code in 0..a.pow(d as u32) {
                let mut c = code;
                let mut ops = Vec::new();
                let mut live = vec![true];
                let mut n = 0;
                let mut ok = true;
                for _ in 0..d {
                    let t = alpha[c % a];
                    c /= a;
                    let (k, h) = t.split_at(1);
                    match k {
                        "E" => {
                            // the empty string is a metric like any other
                            if !live[0] {
                                ok = false;
                                break;
                            }
                            ops.push("e0:-".to_string());
                        }
                        "e" | "d" | "c" | "s" => {
                            let h: usize = h.parse().unwrap();
                            if h >= live.len() || !live[h] {
                                ok = false;
                                break;
                            }
                            if k == "e" {
                                n += 1;
                                ops.push(format!("e{}:{}", h, mname(h, n)));
                                continue;
                            }
                            if k == "c" {
                                if live.len() >= 2 {
                                    ok = false;
                                    break;
                                }
                                live.push(true);
                            }
                            if k == "d" {
                                live[h] = false;
                            }
                            ops.push(t.to_string());
                        }
                        _ => ops.push(t.to_string()),
                    }
                }
                if ok {
                    emit_case(out, cap, code % 2 == 0, &ops, count);
                }
            }
        }
    }
}

fn random_cases(out: &mut impl Write, rng: &mut Rng, n: usize, maxops: usize, count: &mut u64) {
    for _ in 0..n {
        let cap = if rng.chance(30) { None } else if rng.chance(12) { Some(0) } else { Some(rng.range(1, 8) as usize) };
        let handler = rng.chance(50);
        let nops = rng.range(1, maxops as u64) as usize;
        let mut live = vec![true];
        let mut ops = Vec::new();
        let mut seq = 0;
        let finish_bias = *rng.pick(&[5u64, 20, 40]);
        for _ in 0..nops {
            let alive: Vec<usize> = (0..live.len()).filter(|i| live[*i]).collect();
            let r = rng.below(100);
            if r < finish_bias {
                ops.push(match rng.below(6) {
                    0 | 1 => "k".to_string(),
                    2 => {
                        if rng.chance(25) {
                            format!("x{}", 200 + rng.pick(&[105u64, 111, 11, 90, 2]))
                        } else {
                            format!("x{}", rng.below(KINDS.len() as u64))
                        }
                    }
                    3 => "p".to_string(),
                    4 => "z".to_string(),
                    _ => "k".to_string(),
                });
            } else if alive.is_empty() {
                ops.push("k".to_string());
            } else if r < finish_bias + 3 {
                let h = *rng.pick(&alive);
                ops.push(format!("e{}:-", h));
            } else if r < finish_bias + 45 {
                let h = *rng.pick(&alive);
                seq += 1;
                ops.push(format!("e{}:{}", h, mname(h, seq)));
            } else if r < finish_bias + 52 && live.len() < 5 {
                ops.push(format!("c{}", rng.pick(&alive)));
                live.push(true);
            } else if r < finish_bias + 58 {
                let h = *rng.pick(&alive);
                ops.push(format!("d{}", h));
                live[h] = false;
            } else if r < finish_bias + 66 {
                ops.push(format!("s{}", rng.pick(&alive)));
            } else if r < finish_bias + 69 {
                ops.push(format!("f{}", rng.pick(&alive)));
            } else if r < finish_bias + 71 {
                ops.push(format!("t{}", rng.pick(&alive)));
            } else {
                let h = *rng.pick(&alive);
                seq += 1;
                ops.push(format!("e{}:{}", h, mname(h, seq)));
            }
        }
        emit_case(out, cap, handler, &ops, count);
    }
}

/// gate held closed: exactly `cap` further emits succeed after the worker took its first metric
fn backpressure(out: &mut impl Write, count: &mut u64) {
    for cap in 1..=8usize {
        let mut ops = Vec::new();
        for i in 0..cap + 3 {
            ops.push(format!("e0:{}", mname(0, i)));
        }
        ops.push("s0".to_string());
        ops.push("t0".to_string());
        ops.push("x3".to_string());
        ops.push("z".to_string());
        ops.push("p".to_string());
        ops.push(format!("e0:{}", mname(0, 99)));
        ops.push("s0".to_string());
        emit_case(out, Some(cap), cap % 2 == 0, &ops, count);
        // drop the only handle at every occupancy 0..=cap while the worker is inside the sink
        for occ in 0..=cap {
            let mut ops = vec![format!("e0:{}", mname(0, 0))];
            for i in 0..occ {
                ops.push(format!("e0:{}", mname(0, i + 1)));
            }
            ops.push("d0".to_string());
            for (i, _) in (0..=occ).enumerate() {
                ops.push(["k", "x9", "p"][i % 3].to_string());
            }
            emit_case(out, Some(cap), true, &ops, count);
        }
    }
    // a long backlog (gate closed) with panics and errors in the middle: nothing but the panicking
    // metric may be lost, whatever batching the worker does
    for (cap, n) in [(None, 150usize), (Some(200usize), 150), (None, 70)] {
        let mut ops = Vec::new();
        for i in 0..n {
            ops.push(format!("e0:{}", mname(0, i)));
        }
        for i in 0..n {
            ops.push(if i == 3 || i == 66 || i == 67 { "p".to_string() } else if i == 40 { "x9".to_string() } else { "k".to_string() });
        }
        ops.push("s0".to_string());
        emit_case(out, cap, true, &ops, count);
    }
    let mut ops = Vec::new();
    for i in 0..10000 {
        ops.push(format!("e0:{}", mname(0, i)));
    }
    ops.push("s0".to_string());
    ops.push("d0".to_string());
    emit_case(out, None, false, &ops, count);
}

fn main() {
    silence_panics();
    let args: Vec<String> = std::env::args().collect();
    let stdout = io::stdout();
    let mut out = io::BufWriter::new(stdout.lock());
    if args.get(1).map(|s| s.as_str()) == Some("child-nothread") {
        println!("{}", child_nothread());
        return;
    }
    if args.get(1).map(|s| s.as_str()) == Some("replay") {
        for line in io::stdin().lock().lines() {
            if let Some(l) = run_line(&line.unwrap()) {
                writeln!(out, "{}", l).unwrap();
            }
        }
        return;
    }
    let tier = arg_value(&args, "--tier").unwrap_or("quick".into());
    if let Some(sh) = arg_value(&args, "--shard") {
        let mut it = sh.split('/');
        SHARD_K.store(it.next().and_then(|x| x.parse().ok()).unwrap_or(0), Ordering::Relaxed);
        SHARD_N.store(it.next().and_then(|x| x.parse().ok()).unwrap_or(1).max(1), Ordering::Relaxed);
    }
    let shard0 = SHARD_K.load(Ordering::Relaxed) == 0;
    let mut rng = Rng::new(env_seed());
    let mut count = 0u64;
    let mut extra = 1u64; // cases run by shard 0 only: not part of the sharded index
    backpressure(&mut out, &mut count);
    for ops in ["e0:6130,e0:6131,e0:6132,e0:6133,k,e0:6134,e0:6135,k,k,s0,d0", "e0:6130,e0:6131,k,s0,d0", "c0,e1:6130,p,e0:6131,x3,d0,d1", "d0", "e0:6130,d0,k"] {
        if !shard0 {
            break;
        }
        if let Some(l) = run_line(&format!("queue0 1 {}", ops)) {
            writeln!(out, "{}", l).unwrap();
            extra += 1;
        }
    }
    let bursts: Vec<(usize, usize, usize, usize)> = if tier == "quick" {
        vec![(1, 4, 1, 150), (2, 4, 2, 100), (3, 8, 1, 60)]
    } else {
        vec![(1, 4, 1, 3000), (2, 4, 2, 2000), (3, 8, 1, 1000), (8, 16, 2, 500)]
    };
    for (cap, t, per, rounds) in bursts {
        if !shard0 {
            break;
        }
        if let Some(l) = run_line(&format!("qburst {} {} {} {}", cap, t, per, rounds)) {
            writeln!(out, "{}", l).unwrap();
            extra += 1;
        }
    }
    // large capacities (the documented 512 * 1024 included), nearly full when the burst arrives
    let big: Vec<(usize, usize, usize)> = if tier == "quick" {
        vec![(100, 98, 200), (4097, 4095, 200), (5000, 4997, 200), (70000, 69998, 12), (524288, 524286, 3)]
    } else {
        vec![(100, 98, 800), (4097, 4095, 400), (5000, 4997, 400), (70000, 69998, 60), (524288, 524286, 20), (1 << 20, (1 << 20) - 3, 5)]
    };
    for (cap, prefill, rounds) in big {
        if !shard0 {
            break;
        }
        if let Some(l) = run_line(&format!("qburst {} 8 2 {} {}", cap, rounds, prefill)) {
            writeln!(out, "{}", l).unwrap();
            extra += 1;
        }
    }
    // a long run of panics (the worker is respawned every time), and idle periods between metrics
    if shard0 {
        let storm = if tier == "quick" { 1100 } else { 12000 };
        let mut ops: Vec<String> = Vec::new();
        for i in 0..storm {
            ops.push(format!("e0:{}", mname(0, i)));
            ops.push("p".to_string());
        }
        ops.push(format!("e0:{}", mname(0, storm)));
        ops.push("k".to_string());
        ops.push("s0".to_string());
        emit_case_here(&mut out, None, false, &ops, &mut extra);

    }
    if shard0 {
        if let Some(l) = run_line(&format!("qdroprace {}", if tier == "quick" { 300 } else { 5000 })) {
            writeln!(out, "{}", l).unwrap();
            extra += 1;
        }
    }
    if SHARD_K.load(Ordering::Relaxed) == 1 % SHARD_N.load(Ordering::Relaxed) {
        if let Some(l) = run_line(&format!("qemitdrop {}", if tier == "quick" { 8000 } else { 100000 })) {
            writeln!(out, "{}", l).unwrap();
            extra += 1;
        }
    }
    if SHARD_K.load(Ordering::Relaxed) == 5 % SHARD_N.load(Ordering::Relaxed) {
        if let Some(l) = run_line(&format!("qstop0 {}", if tier == "quick" { 1800 } else { 30000 })) {
            writeln!(out, "{}", l).unwrap();
            extra += 1;
        }
    }
    if SHARD_K.load(Ordering::Relaxed) == 4 % SHARD_N.load(Ordering::Relaxed) {
        for l in ["qnothread".to_string(), format!("qfirst {}", if tier == "quick" { 3000 } else { 60000 }), format!("qunwind {}", if tier == "quick" { 20 } else { 500 })] {
            if let Some(o) = run_line(&l) {
                writeln!(out, "{}", o).unwrap();
                extra += 1;
            }
        }
    }
    if SHARD_K.load(Ordering::Relaxed) == 2 % SHARD_N.load(Ordering::Relaxed) {
        // an unbounded queue a million deep
        if let Some(l) = run_line(&format!("qdeep {}", if tier == "quick" { 1_100_000 } else { 5_000_000 })) {
            writeln!(out, "{}", l).unwrap();
            extra += 1;
        }
        // a long run of failures with a handler configured: the handler sees every one
        let storm = if tier == "quick" { 150 } else { 3000 };
        let mut ops: Vec<String> = Vec::new();
        for i in 0..storm {
            ops.push(format!("e0:{}", mname(0, i)));
            ops.push(format!("x{}", if i % 7 == 3 { 305 } else { i % 32 }));
        }
        ops.push("s0".to_string());
        emit_case_here(&mut out, None, true, &ops, &mut extra);
        // metrics longer than any datagram: the queuing sink does not look at them
        for len in [65507usize, 65508, 200000] {
            let big = hex("L".repeat(len).as_bytes());
            let ops: Vec<String> = vec![format!("e0:{}", big), "k".into(), format!("e0:{}", big), "x3".into(), "s0".into()];
            emit_case_here(&mut out, Some(2), true, &ops, &mut extra);
        }
    }
    // time passing while metrics are queued behind a slow wrapped sink: they are still delivered
    if SHARD_K.load(Ordering::Relaxed) == 3 % SHARD_N.load(Ordering::Relaxed) {
        let idle = if tier == "quick" { 5600 } else { 61000 };
        let ops: Vec<String> = vec![format!("e0:{}", mname(0, 0)), format!("e0:{}", mname(0, 1)), format!("e0:{}", mname(0, 2)), format!("w{}", idle),
            "k".into(), "k".into(), "s0".into(), "k".into(), "s0".into()];
        emit_case_here(&mut out, Some(4), false, &ops, &mut extra);
    }
    // idle periods between metrics (long enough for a 5 s / 30 s idle time-out in the worker to fire); on the
    // last shard, which has the least other work
    if SHARD_K.load(Ordering::Relaxed) + 1 == SHARD_N.load(Ordering::Relaxed) {
        let idle = if tier == "quick" { 5600 } else { 31000 };
        let ops: Vec<String> = vec![format!("e0:{}", mname(0, 0)), "k".into(), format!("w{}", idle), format!("e0:{}", mname(0, 1)), "k".into(), "c0".into(),
            "d0".into(), format!("w{}", idle / 4), format!("e1:{}", mname(1, 0)), "k".into(), "s1".into()];
        emit_case_here(&mut out, Some(2), true, &ops, &mut extra);
    }
    for cap in [1usize, 4] {
        if !shard0 {
            break;
        }
        if let Some(l) = run_line(&format!("qlatency {}", cap)) {
            writeln!(out, "{}", l).unwrap();
            extra += 1;
        }
    }
    if tier == "quick" {
        exhaustive(&mut out, &[Some(1), Some(2), None], 4, &mut count);
        random_cases(&mut out, &mut rng, 1500, 60, &mut count);
        random_cases(&mut out, &mut rng, 40, 400, &mut count);
        for (cap, t, n) in [(None, 4usize, 400usize), (Some(8), 8, 300), (Some(1), 3, 200), (None, 16, 100), (Some(1), 16, 2000), (Some(2), 8, 2000)] {
            if !shard0 {
                break;
            }
            let r = run_stress(cap, t, n);
            writeln!(out, "qstress {} {} {} => {}", cap.map(|c| c.to_string()).unwrap_or("u".into()), t, n, r).unwrap();
            count += 1;
        }
    } else {
        exhaustive(&mut out, &[Some(2), Some(3)], 5, &mut count);
        exhaustive(&mut out, &[Some(1), None], 6, &mut count);
        random_cases(&mut out, &mut rng, 40000, 80, &mut count);
        random_cases(&mut out, &mut rng, 1000, 400, &mut count);
        for i in 0..200usize {
            if !shard0 {
                break;
            }
            let cap = if i % 3 == 0 { None } else { Some(1 + i % 9) };
            let (t, n) = (2 + i % 15, 100 + (i * 37) % 900);
            let r = run_stress(cap, t, n);
            writeln!(out, "qstress {} {} {} => {}", cap.map(|c| c.to_string()).unwrap_or("u".into()), t, n, r).unwrap();
            count += 1;
        }
    }
    eprintln!("queue: {} cases", count);
}
