//! Engine `mlw`: drives `cadence::ext::MultiLineWriter` (and the buffered spy sink built on it)
//! over a scripted, recording `Write`, and prints one line per case:
//!
//!   mlw <cap> <ending-hex> <oracle> <ops> => <observation>
//!   spy <cap|d> <queue|u> <ops> => <observation>
//!
//! oracle : `-` or comma list of `o` (accept) | `e<k>` (refuse with io::ErrorKind index k) | `i` (Interrupted)
//!          | `e<200+errno>` (refuse with the OS error errno, e.g. e305 = ENOBUFS; never EINTR)
//!          one entry is consumed per attempted underlying write; accept after exhaustion
//! ops    : comma list of `e<hex>` (emit/write) | `f` (flush) | `F` (client.flush) | `Q` (queuing.flush)
//!          | `r` (spy only: drain the receiver) | `w<ms>` (let time pass); a final drop is always appended
//! obs    : per op, `;`-separated: `<res>/<att>,<att>…` ; res = ok<n> | err<k> | panic ; `err<k>!` when the error
//!          returned is not the very error the scripted writer refused with (same payload / same errno)
//!          att = `<hex>+` (accepted) | `<hex>!<k>` (refused with kind k)
//!
//! Modes: `gen --tier quick|thorough` (seeded by VERIF_SEED), `replay` (cases on stdin, any
//! ` => …` suffix ignored).

use cadence::ext::MultiLineWriter;
use cadence::{BufferedSpyMetricSink, MetricSink, QueuingMetricSink, StatsdClient};
use cadence_verif_harness::*;
use std::io::{self, BufRead, Write};
use std::panic::{catch_unwind, AssertUnwindSafe};
use std::sync::{Arc, Mutex};

#[derive(Clone, Debug)]
enum Outcome {
    Ok,
    Err(usize),
    Intr,
}

#[derive(Default)]
struct Log {
    attempts: Vec<(Vec<u8>, Option<usize>)>,
    script: Vec<Outcome>,
    next: usize,
    /// identity of the last error handed out: `tok<n>` payload or `os<errno>`
    last_err: Option<String>,
}

fn make_err(k: usize, n: u64) -> (io::Error, String) {
    if k >= 200 {
        (io::Error::from_raw_os_error((k - 200) as i32), format!("os{}", k - 200))
    } else {
        (tok_err(k, n), format!("tok{}", n))
    }
}

fn err_identity(e: &io::Error) -> String {
    match e.raw_os_error() {
        Some(n) => format!("os{}", n),
        None => e.get_ref().map(|i| i.to_string()).unwrap_or_else(|| "?".to_string()),
    }
}

thread_local! {
    static CUR_LOG: std::cell::RefCell<Option<Arc<Mutex<Log>>>> = const { std::cell::RefCell::new(None) };
}

/// `err<k>` for the error the scripted writer handed out last, `err<k>!` for any other error
fn err_res(e: &io::Error) -> String {
    let expect = CUR_LOG.with(|c| c.borrow().as_ref().and_then(|l| l.lock().unwrap().last_err.clone()));
    let k = match e.raw_os_error() {
        Some(n) if expect.as_deref() == Some(&format!("os{}", n)) => 200 + n as usize,
        _ => kind_index(e.kind()),
    };
    match expect {
        Some(x) if x != err_identity(e) => format!("err{}!", k),
        _ => format!("err{}", k),
    }
}

struct ScriptedWrite(Arc<Mutex<Log>>);

impl Write for ScriptedWrite {
    fn write(&mut self, buf: &[u8]) -> io::Result<usize> {
        let mut l = self.0.lock().unwrap();
        let o = l.script.get(l.next).cloned().unwrap_or(Outcome::Ok);
        l.next += 1;
        match o {
            Outcome::Ok => {
                l.attempts.push((buf.to_vec(), None));
                Ok(buf.len())
            }
            Outcome::Err(k) => {
                l.attempts.push((buf.to_vec(), Some(k)));
                let n = l.next as u64;
                let (e, id) = make_err(k, n);
                l.last_err = Some(id);
                Err(e)
            }
            Outcome::Intr => {
                l.attempts.push((buf.to_vec(), Some(4)));
                let n = l.next as u64;
                l.last_err = Some(format!("tok{}", n));
                Err(tok_err(4, n))
            }
        }
    }
    fn flush(&mut self) -> io::Result<()> {
        Ok(())
    }
}

fn parse_oracle(s: &str) -> Vec<Outcome> {
    if s == "-" {
        return vec![];
    }
    s.split(',')
        .map(|t| {
            if t == "o" {
                Outcome::Ok
            } else if t == "i" {
                Outcome::Intr
            } else {
                Outcome::Err(t[1..].parse().unwrap())
            }
        })
        .collect()
}

fn fmt_oracle(o: &[Outcome]) -> String {
    if o.is_empty() {
        return "-".into();
    }
    o.iter()
        .map(|x| match x {
            Outcome::Ok => "o".to_string(),
            Outcome::Intr => "i".to_string(),
            Outcome::Err(k) => format!("e{}", k),
        })
        .collect::<Vec<_>>()
        .join(",")
}

fn res_usize(r: Result<io::Result<usize>, Box<dyn std::any::Any + Send>>) -> String {
    match r {
        Ok(Ok(n)) => format!("ok{}", n),
        Ok(Err(e)) => err_res(&e),
        Err(_) => "panic".into(),
    }
}

fn res_unit(r: Result<io::Result<()>, Box<dyn std::any::Any + Send>>) -> String {
    match r {
        Ok(Ok(())) => "ok0".into(),
        Ok(Err(e)) => err_res(&e),
        Err(_) => "panic".into(),
    }
}

fn fmt_atts(a: &[(Vec<u8>, Option<usize>)]) -> String {
    a.iter()
        .map(|(p, e)| match e {
            None => format!("{}+", hex(p)),
            Some(k) => format!("{}!{}", hex(p), k),
        })
        .collect::<Vec<_>>()
        .join(",")
}

/// run one `mlw` case on the real writer
fn run_mlw(cap: usize, ending: &[u8], oracle: &[Outcome], ops: &[String]) -> String {
    let log = Arc::new(Mutex::new(Log {
        script: oracle.to_vec(),
        ..Default::default()
    }));
    let end = String::from_utf8_lossy(ending).to_string();
    let mut w = Some(MultiLineWriter::with_ending(ScriptedWrite(log.clone()), cap, &end));
    let mut obs = Vec::new();
    let take = |log: &Arc<Mutex<Log>>| -> Vec<(Vec<u8>, Option<usize>)> { std::mem::take(&mut log.lock().unwrap().attempts) };
    CUR_LOG.with(|c| *c.borrow_mut() = Some(log.clone()));
    for op in ops {
        let res = if let Some(ms) = op.strip_prefix('w') {
            // time passes; a buffered writer does nothing on its own
            std::thread::sleep(std::time::Duration::from_millis(ms.parse().unwrap_or(0)));
            "ok0".to_string()
        } else if let Some(h) = op.strip_prefix('e') {
            let m = unhex(h);
            let wr = w.as_mut().unwrap();
            res_usize(catch_unwind(AssertUnwindSafe(|| wr.write(&m))))
        } else {
            let wr = w.as_mut().unwrap();
            res_unit(catch_unwind(AssertUnwindSafe(|| wr.flush())))
        };
        obs.push(format!("{}/{}", res, fmt_atts(&take(&log))));
    }
    let wr = w.take();
    let r = catch_unwind(AssertUnwindSafe(move || drop(wr)));
    obs.push(format!(
        "{}/{}",
        if r.is_ok() { "ok0" } else { "panic" },
        fmt_atts(&take(&log))
    ));
    CUR_LOG.with(|c| *c.borrow_mut() = None);
    obs.join(";")
}

struct Shared(Arc<BufferedSpyMetricSink>);
impl MetricSink for Shared {
    fn emit(&self, m: &str) -> io::Result<usize> {
        self.0.emit(m)
    }
    fn flush(&self) -> io::Result<()> {
        self.0.flush()
    }
}

/// run one `spy` case: BufferedSpyMetricSink, optionally through StatsdClient::flush and a
/// QueuingMetricSink's flush; the bounded receiver queue doubles as a fault injector.
fn run_spy(cap: Option<usize>, queue: Option<usize>, ops: &[String]) -> String {
    let (rx, sink) = match (cap, queue) {
        (None, None) => BufferedSpyMetricSink::new(),
        (c, q) => BufferedSpyMetricSink::with_capacity(q, c),
    };
    let sink = Arc::new(sink);
    let client = StatsdClient::from_sink("", Shared(sink.clone()));
    let queuing = QueuingMetricSink::from(Shared(sink.clone()));
    let mut obs = Vec::new();
    // successful writes are visible in the receiver; refused ones are known only by the result
    let seen = |held: &mut Vec<Vec<u8>>| -> String {
        let v: Vec<(Vec<u8>, Option<usize>)> = held.drain(..).map(|p| (p, None)).collect();
        fmt_atts(&v)
    };
    // the queue is only drained by `r`; between drains we peek by length difference
    let mut delivered: Vec<Vec<u8>> = Vec::new();
    let mut pending_read: Vec<Vec<u8>> = Vec::new();
    let _ = &mut delivered;
    for op in ops {
        let before = rx.len();
        let res = if let Some(ms) = op.strip_prefix('w') {
            std::thread::sleep(std::time::Duration::from_millis(ms.parse().unwrap_or(0)));
            "ok0".to_string()
        } else if let Some(h) = op.strip_prefix('e') {
            let m = String::from_utf8(unhex(h)).unwrap_or_default();
            res_usize(catch_unwind(AssertUnwindSafe(|| sink.emit(&m))))
        } else if op == "f" {
            res_unit(catch_unwind(AssertUnwindSafe(|| sink.flush())))
        } else if op == "F" {
            match catch_unwind(AssertUnwindSafe(|| client.flush())) {
                Ok(Ok(())) => "ok0".into(),
                Ok(Err(e)) => {
                    use std::error::Error;
                    let k = e
                        .source()
                        .and_then(|s| s.downcast_ref::<io::Error>())
                        .map(|i| kind_index(i.kind()))
                        .unwrap_or(98);
                    format!("err{}", k)
                }
                Err(_) => "panic".into(),
            }
        } else if op == "Q" {
            res_unit(catch_unwind(AssertUnwindSafe(|| queuing.flush())))
        } else {
            // r: drain the receiver
            while let Ok(p) = rx.try_recv() {
                pending_read.push(p);
            }
            obs.push(format!("ok0/{}", seen(&mut pending_read)));
            continue;
        };
        if queue.is_none() {
            while let Ok(p) = rx.try_recv() {
                pending_read.push(p);
            }
            obs.push(format!("{}/{}", res, seen(&mut pending_read)));
        } else {
            // bounded: report how many datagrams were added, payloads are reported at the next `r`
            let added = rx.len() - before;
            obs.push(format!("{}/#{}", res, added));
        }
    }
    let len_before_wrappers = rx.len();
    drop(client);
    drop(queuing);
    // the queuing sink's worker holds a clone until it exits; wait for sole ownership
    let mut sink = sink;
    let t0 = std::time::Instant::now();
    let owned = loop {
        match Arc::try_unwrap(sink) {
            Ok(s) => break Some(s),
            Err(s) => {
                sink = s;
                if t0.elapsed().as_secs() > 5 {
                    break None;
                }
                std::thread::yield_now();
            }
        }
    };
    match owned {
        Some(s) => {
            // the wrappers (client, queuing sink) are gone, the buffered sink is still alive: dropping a
            // wrapper must not have made it write
            if queue.is_none() {
                while let Ok(p) = rx.try_recv() {
                    pending_read.push(p);
                }
                obs.push(format!("ok0/{}", seen(&mut pending_read)));
            } else {
                obs.push(format!("ok0/#{}", rx.len() - len_before_wrappers));
            }
            let before = rx.len();
            let r = catch_unwind(AssertUnwindSafe(move || drop(s)));
            if queue.is_none() {
                while let Ok(p) = rx.try_recv() {
                    pending_read.push(p);
                }
                obs.push(format!(
                    "{}/{}",
                    if r.is_ok() { "ok0" } else { "panic" },
                    seen(&mut pending_read)
                ));
            } else {
                let added = rx.len() - before;
                obs.push(format!("{}/#{}", if r.is_ok() { "ok0" } else { "panic" }, added));
                while let Ok(p) = rx.try_recv() {
                    pending_read.push(p);
                }
                obs.push(format!("ok0/{}", seen(&mut pending_read)));
            }
        }
        None => obs.push("stuck/".into()),
    }
    obs.join(";")
}

/// a sink whose flush answers as scripted
struct FlushScripted {
    answer: Mutex<Option<usize>>,
    flushes: std::sync::atomic::AtomicUsize,
}
struct SharedFs(Arc<FlushScripted>);
impl MetricSink for SharedFs {
    fn emit(&self, m: &str) -> io::Result<usize> {
        Ok(m.len())
    }
    fn flush(&self) -> io::Result<()> {
        self.0.flushes.fetch_add(1, std::sync::atomic::Ordering::SeqCst);
        match self.0.answer.lock().unwrap().take() {
            None => Ok(()),
            Some(k) if k >= 200 => Err(io::Error::from_raw_os_error((k - 200) as i32)),
            Some(k) => Err(tok_err(k, 1)),
        }
    }
}

/// `cfl <c|q|h> <a|e<k>>`: a flush through `StatsdClient::flush` (c), through a `QueuingMetricSink` built
/// with `from` (q) or with an error handler (h): the wrapped sink is flushed exactly once and its answer —
/// its error included — comes back unchanged; the handler is not involved.
fn run_cfl(via: &str, ans: &str) -> String {
    let fs = Arc::new(FlushScripted { answer: Mutex::new(None), flushes: std::sync::atomic::AtomicUsize::new(0) });
    let handled = Arc::new(std::sync::atomic::AtomicUsize::new(0));
    let want: Option<usize> = ans.strip_prefix('e').and_then(|k| k.parse().ok());
    *fs.answer.lock().unwrap() = want;
    let h2 = handled.clone();
    let repr = |r: io::Result<()>| -> String {
        match r {
            Ok(()) => "ok".to_string(),
            Err(e) => match (e.raw_os_error(), want) {
                (Some(n), Some(k)) if k >= 200 && n as usize == k - 200 => format!("err{}", k),
                (None, Some(k)) if k < 200 && e.get_ref().map(|i| i.to_string()) == Some("tok1".to_string()) && kind_index(e.kind()) == k % KINDS.len() => format!("err{}", k),
                _ => format!("err{}!", kind_index(e.kind())),
            },
        }
    };
    let res = catch_unwind(AssertUnwindSafe(|| match via {
        "c" => {
            let client = StatsdClient::builder("p", SharedFs(fs.clone()))
                .with_error_handler(move |_e| {
                    h2.fetch_add(1, std::sync::atomic::Ordering::SeqCst);
                })
                .build();
            match client.flush() {
                Ok(()) => "ok".to_string(),
                Err(e) => {
                    use std::error::Error;
                    match e.source().and_then(|s| s.downcast_ref::<io::Error>()) {
                        Some(i) => repr(Err(io::Error::new(i.kind(), i.get_ref().map(|x| x.to_string()).unwrap_or_default())).map_err(|x| {
                            // keep errno identity for OS errors
                            match i.raw_os_error() {
                                Some(n) => io::Error::from_raw_os_error(n),
                                None => x,
                            }
                        })),
                        None => "err?!".to_string(),
                    }
                }
            }
        }
        "q" => {
            let q = QueuingMetricSink::from(SharedFs(fs.clone()));
            repr(q.flush())
        }
        _ => {
            let q = QueuingMetricSink::builder()
                .with_error_handler(move |_e| {
                    h2.fetch_add(1, std::sync::atomic::Ordering::SeqCst);
                })
                .build(SharedFs(fs.clone()));
            repr(q.flush())
        }
    }))
    .unwrap_or_else(|_| "panic".to_string());
    format!("{}/{}/{}", res, fs.flushes.load(std::sync::atomic::Ordering::SeqCst), handled.load(std::sync::atomic::Ordering::SeqCst))
}

fn run_line(line: &str) -> Option<String> {
    let line = line.split(" => ").next().unwrap().trim();
    if line.is_empty() || line.starts_with('#') {
        return None;
    }
    let f: Vec<&str> = line.split(' ').collect();
    let ops = |s: &str| -> Vec<String> {
        if s == "-" {
            vec![]
        } else {
            s.split(',').map(|x| x.to_string()).collect()
        }
    };
    match f[0] {
        "mlw" if f.len() == 5 => {
            let cap: usize = f[1].parse().ok()?;
            let obs = run_mlw(cap, &unhex(f[2]), &parse_oracle(f[3]), &ops(f[4]));
            Some(format!("{} => {}", line, obs))
        }
        "spy" if f.len() == 4 => {
            let cap = if f[1] == "d" { None } else { Some(f[1].parse().ok()?) };
            let q = if f[2] == "u" { None } else { Some(f[2].parse().ok()?) };
            let obs = run_spy(cap, q, &ops(f[3]));
            Some(format!("{} => {}", line, obs))
        }
        "cfl" if f.len() == 3 => Some(format!("{} => {}", line, run_cfl(f[1], f[2]))),
        _ => Some(format!("{} => malformed", line)),
    }
}

/// metric body of exact length `len`, as unique as the length allows, never containing a
/// terminator byte (terminators are drawn from 0x0a 0x0d 0x3b)
fn body(idx: usize, len: usize) -> Vec<u8> {
    const ALPHA: &[u8] = b"abcdefghijklmnopqrstuvwxyzABCDEFGHIJKLMNOPQRSTUVWXYZ0123456789";
    let mut v = Vec::with_capacity(len);
    let mut x = idx;
    for i in 0..len {
        if i < 4 {
            v.push(ALPHA[x % ALPHA.len()]);
            x /= ALPHA.len();
        } else {
            v.push(ALPHA[(idx + i) % ALPHA.len()]);
        }
    }
    v
}

const ENDINGS: [&[u8]; 8] = [b"", b"\n", b"\r\n", b";\r\n", b";", b"\r\n\r\n\n", b"--END--\n", b"0123456789abcdefg"];

fn emit_case(out: &mut impl Write, cap: usize, ending: &[u8], oracle: &[Outcome], lens: &[Option<usize>]) {
    let ops: Vec<String> = lens
        .iter()
        .enumerate()
        .map(|(i, l)| match l {
            Some(n) => format!("e{}", hex(&body(i, *n))),
            None => "f".to_string(),
        })
        .collect();
    let obs = run_mlw(cap, ending, oracle, &ops);
    let opss = if ops.is_empty() { "-".to_string() } else { ops.join(",") };
    writeln!(out, "mlw {} {} {} {} => {}", cap, hex(ending), fmt_oracle(oracle), opss, obs).unwrap();
}

/// all op sequences of exactly `depth` ops over the alphabet, all oracles over `faults` up to `odepth`
fn exhaustive(out: &mut impl Write, caps: &[usize], endlens: &[usize], depth: usize, odepth: usize, count: &mut u64) {
    for &cap in caps {
        for &el in endlens {
            let ending = ENDINGS[el];
            // interesting lengths around the boundaries
            let mut lens: Vec<usize> = vec![0, 1, 2];
            for d in [0usize, 1, 2] {
                if cap + 1 >= ending.len() + d {
                    lens.push(cap + 1 - ending.len() - d);
                }
            }
            lens.push(cap);
            lens.push(cap + 1);
            lens.sort();
            lens.dedup();
            let mut alphabet: Vec<Option<usize>> = lens.iter().map(|l| Some(*l)).collect();
            alphabet.push(None);
            let a = alphabet.len();
            for d in 1..=depth {
                let total = a.pow(d as u32);
                for code in 0..total {
                    let mut c = code;
                    let mut seq = Vec::with_capacity(d);
                    for _ in 0..d {
                        seq.push(alphabet[c % a]);
                        c /= a;
                    }
                    // oracles: every outcome list of length <= odepth not ending in `ok`
                    // (accept after exhaustion makes trailing oks redundant)
                    for orc in oracles(odepth) {
                        emit_case(out, cap, ending, &orc, &seq);
                        *count += 1;
                    }
                }
            }
        }
    }
}

fn oracles(odepth: usize) -> Vec<Vec<Outcome>> {
    let mut all: Vec<Vec<Outcome>> = vec![vec![]];
    let mut frontier: Vec<Vec<Outcome>> = vec![vec![]];
    for _ in 0..odepth {
        let mut next = Vec::new();
        for o in &frontier {
            for x in [Outcome::Ok, Outcome::Err(8), Outcome::Intr] {
                let mut n = o.clone();
                n.push(x);
                next.push(n);
            }
        }
        for n in &next {
            if !matches!(n.last(), Some(Outcome::Ok)) {
                all.push(n.clone());
            }
        }
        frontier = next;
    }
    all
}

fn random_cases(out: &mut impl Write, rng: &mut Rng, n: usize, maxops: usize, count: &mut u64) {
    for _ in 0..n {
        let cap = match rng.below(10) {
            0 => rng.below(3) as usize,
            1..=5 => rng.range(3, 40) as usize,
            6..=7 => 512,
            8 => rng.range(41, 600) as usize,
            _ => rng.range(600, 4096) as usize,
        };
        let ending = ENDINGS[if rng.chance(60) { 1 } else { rng.below(ENDINGS.len() as u64) as usize }];
        // keep a case below ~24 kB of payload so that the text protocol stays small
        let nops = (rng.range(1, maxops as u64) as usize).min(24000 / cap.max(8)).max(1);
        let failpct = *rng.pick(&[0u64, 0, 0, 5, 20, 60, 100]);
        let mut lens = Vec::with_capacity(nops);
        let room = cap.saturating_sub(ending.len());
        for _ in 0..nops {
            if rng.chance(12) {
                lens.push(None);
                continue;
            }
            let l = match rng.below(10) {
                0 => room,
                1 => room + 1,
                2 => room.saturating_sub(1),
                3 => cap,
                4 => cap + rng.below(4) as usize,
                5 => 0,
                _ => rng.below(1 + (room as u64).max(4) / 2) as usize,
            };
            lens.push(Some(l));
        }
        let norc = if failpct == 0 { 0 } else { nops * 2 };
        let mut orc = Vec::new();
        for _ in 0..norc {
            orc.push(if rng.chance(failpct) {
                if rng.chance(25) {
                    Outcome::Intr
                } else {
                    let mut k = rng.below(KINDS.len() as u64 + 6) as usize;
                    if k == 4 {
                        k = 15;
                    }
                    if k >= KINDS.len() {
                        // OS-coded errors: ENOBUFS EMSGSIZE EAGAIN ECONNREFUSED ENETUNREACH EPERM
                        k = 200 + [105usize, 90, 11, 111, 101, 1][k - KINDS.len()];
                    }
                    Outcome::Err(k)
                }
            } else {
                Outcome::Ok
            });
        }
        // bound Interrupted runs (flush_buf would retry forever on an all-Interrupted script: the
        // script is finite and accepts after exhaustion, so it terminates)
        emit_case(out, cap, ending, &orc, &lens);
        *count += 1;
    }
}

/// hostile stream: metric bodies that contain the terminator, multi-byte endings, empty everything
fn hostile(out: &mut impl Write, rng: &mut Rng, n: usize, count: &mut u64) {
    for _ in 0..n {
        let cap = rng.below(24) as usize;
        let ending = ENDINGS[rng.below(ENDINGS.len() as u64) as usize];
        let nops = rng.range(1, 12) as usize;
        let mut ops = Vec::new();
        for _ in 0..nops {
            if rng.chance(15) {
                ops.push("f".to_string());
            } else {
                let l = rng.below(cap as u64 + 3) as usize;
                let mut b = Vec::new();
                for _ in 0..l {
                    b.push(*rng.pick(&[b'\n', b'\r', b';', b'x', b'y', 0xc3, 0xa9]));
                }
                ops.push(format!("e{}", hex(&b)));
            }
        }
        let mut orc = Vec::new();
        for _ in 0..rng.below(6) {
            orc.push(match rng.below(3) {
                0 => Outcome::Ok,
                1 => Outcome::Err(10),
                _ => Outcome::Intr,
            });
        }
        let obs = run_mlw(cap, ending, &orc, &ops);
        writeln!(out, "mlw {} {} {} {} => {}", cap, hex(ending), fmt_oracle(&orc), ops.join(","), obs).unwrap();
        *count += 1;
    }
}

/// capacities above 8192 (the default size of a std BufWriter): the inner BufWriter must be sized to
/// the configured capacity, not to a default or a capped preallocation
fn large_caps(out: &mut impl Write, rng: &mut Rng, count: &mut u64) {
    for &cap in &[8193usize, 8932, 9000, 16384, 70000] {
        for variant in 0..4 {
            let lens: Vec<Option<usize>> = match variant {
                // one very large metric that still fits, then a small one
                0 => vec![Some(cap - 500), Some(10), None],
                // many ordinary metrics adding up to exactly 8192 buffered bytes, then more
                1 => {
                    let mut v: Vec<Option<usize>> = (0..127).map(|_| Some(63)).collect();
                    v.push(Some(64));
                    v.push(Some(63));
                    v.push(Some(20));
                    v
                }
                // exact fit of the whole capacity, and an oversize one
                2 => vec![Some(8191), Some(cap.saturating_sub(8194)), Some(30), Some(cap + 1), Some(5)],
                _ => (0..rng.range(3, 12)).map(|_| Some(rng.below(4000) as usize)).collect(),
            };
            let oracle: Vec<Outcome> = if variant == 3 && rng.chance(50) { vec![Outcome::Err(10)] } else { vec![] };
            emit_case(out, cap, b"\n", &oracle, &lens);
            *count += 1;
        }
    }
}

/// capacities around and above the largest UDP payload, through `MultiLineWriter::new` (the buffered spy sink)
fn spy_big(out: &mut impl Write, count: &mut u64) {
    for cap in [65506usize, 65507, 65508, 70000, 131072] {
        let third = cap / 3;
        let ops: Vec<String> = vec![
            format!("e{}", hex(&body(1, third - 1))),
            format!("e{}", hex(&body(2, third - 1))),
            format!("e{}", hex(&body(3, third - 2))),
            "e6161".to_string(),
            "f".to_string(),
            format!("e{}", hex(&body(4, cap - 1))),
            format!("e{}", hex(&body(5, cap))),
        ];
        let obs = run_spy(Some(cap), None, &ops);
        writeln!(out, "spy {} u {} => {}", cap, ops.join(","), obs).unwrap();
        *count += 1;
    }
}

fn spy_cases(out: &mut impl Write, rng: &mut Rng, n: usize, count: &mut u64) {
    spy_big(out, count);
    for i in 0..n {
        let cap: Option<usize> = match rng.below(6) {
            0 => None,
            1 => Some(rng.below(3) as usize),
            2 => Some(512),
            _ => Some(rng.range(3, 64) as usize),
        };
        let queue: Option<usize> = if rng.chance(40) { Some(rng.below(4) as usize) } else { None };
        let c = cap.unwrap_or(512);
        let nops = rng.range(1, 40) as usize;
        let mut ops = Vec::new();
        for j in 0..nops {
            let r = rng.below(20);
            if r == 0 {
                ops.push("f".to_string());
            } else if r == 1 {
                ops.push("F".to_string());
            } else if r == 2 {
                ops.push("Q".to_string());
            } else if r == 3 && queue.is_some() {
                ops.push("r".to_string());
            } else {
                let room = c.saturating_sub(1);
                let l = match rng.below(8) {
                    0 => room,
                    1 => room + 1,
                    2 => room.saturating_sub(1),
                    3 => c + 1,
                    _ => rng.below(1 + (room as u64).max(6) / 2) as usize,
                };
                ops.push(format!("e{}", hex(&body(i * 64 + j, l))));
            }
        }
        let obs = run_spy(cap, queue, &ops);
        writeln!(
            out,
            "spy {} {} {} => {}",
            cap.map(|c| c.to_string()).unwrap_or("d".into()),
            queue.map(|c| c.to_string()).unwrap_or("u".into()),
            ops.join(","),
            obs
        )
        .unwrap();
        *count += 1;
    }
}

fn main() {
    silence_panics();
    let args: Vec<String> = std::env::args().collect();
    let stdout = io::stdout();
    let mut out = io::BufWriter::new(stdout.lock());
    if args.get(1).map(|s| s.as_str()) == Some("replay") {
        for line in io::stdin().lock().lines() {
            if let Some(l) = run_line(&line.unwrap()) {
                writeln!(out, "{}", l).unwrap();
            }
        }
        return;
    }
    let tier = arg_value(&args, "--tier").unwrap_or("quick".into());
    let mut rng = Rng::new(env_seed());
    let mut count = 0u64;
    // time passing between operations (long enough for a 5 s / 30 s age limit on buffered data to show): these
    // cases run on their own threads while the others are generated
    let idle_ms = if tier == "quick" { 5600 } else { 31000 };
    let idle: Vec<std::thread::JoinHandle<Option<String>>> = [
        format!("mlw 64 0a - e6161,w{},e6262,w{},f,e6363,w{}", idle_ms, idle_ms / 4, idle_ms / 4),
        format!("spy 64 u e6161,w{},e6262,w{},f,e6363,w{}", idle_ms, idle_ms / 4, idle_ms / 4),
        format!("spy d u e6161,e6262,w{},F,e6363,w{},Q", idle_ms, idle_ms / 4),
    ]
    .into_iter()
    .map(|c| std::thread::spawn(move || run_line(&c)))
    .collect();
    if tier == "quick" {
        exhaustive(&mut out, &[0, 1, 2, 3, 4], &[0, 1, 2], 3, 2, &mut count);
        exhaustive(&mut out, &[5, 8], &[0, 1], 4, 0, &mut count);
        random_cases(&mut out, &mut rng, 3000, 60, &mut count);
        random_cases(&mut out, &mut rng, 30, 2000, &mut count);
        hostile(&mut out, &mut rng, 1500, &mut count);
        large_caps(&mut out, &mut rng, &mut count);
        spy_cases(&mut out, &mut rng, 600, &mut count);
    } else {
        exhaustive(&mut out, &[0, 1, 2, 3, 4, 5, 6], &[0, 1, 2, 3], 4, 3, &mut count);
        exhaustive(&mut out, &[3, 5, 8], &[0, 1, 2], 5, 1, &mut count);
        random_cases(&mut out, &mut rng, 100000, 80, &mut count);
        random_cases(&mut out, &mut rng, 600, 2000, &mut count);
        hostile(&mut out, &mut rng, 50000, &mut count);
        for _ in 0..10 {
            large_caps(&mut out, &mut rng, &mut count);
        }
        spy_cases(&mut out, &mut rng, 20000, &mut count);
    }
    for via in ["c", "q", "h"] {
        for ans in ["a", "e10", "e15", "e8", "e17", "e211", "e305", "e311"] {
            if let Some(l) = run_line(&format!("cfl {} {}", via, ans)) {
                writeln!(out, "{}", l).unwrap();
                count += 1;
            }
        }
    }
    for h in idle {
        if let Ok(Some(l)) = h.join() {
            writeln!(out, "{}", l).unwrap();
            count += 1;
        }
    }
    eprintln!("mlw: {} cases", count);
}
