//! Engine `sock`: the socket-backed sinks on real loopback sockets.
//!
//!   sock <kind> <cap> <nb> <drain> <ops> => <obs>
//!     kind  : udp | unix | budp | bunix | unixgone (unbuffered unix sink whose path does not exist)
//!             | bunixgone
//!     cap   : `-` (unbuffered) | d (default capacity) | <n>
//!     nb    : 0 blocking | 1 non-blocking sink socket
//!     drain : a (the peer reads everything available after every op) | m (only at `r` ops; unix only:
//!             a full peer queue then makes a non-blocking send fail with WouldBlock)
//!     ops   : comma list of e<hex> emit | g<len> emit a generated metric of that many bytes |
//!             f flush | s read stats | q read stats through a wrapping QueuingMetricSink | r peer drains |
//!             R the receiver restarts (unix: unlink + bind a new socket at the same path)
//!             (a final drop of the sink and a final drain are appended)
//!     obs   : `;` list per op of  <res>/<dsent>.<ddropped>/<datagrams>
//!       res : ok<n> | err<k> | panic | S<bytes_sent>.<packets_sent>.<bytes_dropped>.<packets_dropped>
//!       dsent / ddropped : change of packets_sent / packets_dropped across the op
//!       datagrams : `~` (none) | comma list of hex payloads (`-` = an empty datagram) the peer read after the op
//!
//!   sockmt <kind> <cap> <threads> <per> <flushes 0|1> => <res summary>|<stats>|<datagrams>
//!     free-running threads share one sink through one StatsdClient-like path (sink.emit); kinds
//!     bspy | bunix | budp | unix (unbuffered; stats only).  Metrics are `t<thread>.<seq>` padded to a per-thread length.
//!
//!   socklock <cap> => ok | <what went wrong>     deterministic lock-contention scenario (blocking bunix)
//!   sockcr <udp|budp> <n> => sink<errs>.<dropped>.<attempts> ctl<refused>    ECONNREFUSED injection with a control socket

use cadence::{
    BufferedSpyMetricSink, BufferedUdpMetricSink, BufferedUnixMetricSink, MetricSink, QueuingMetricSink, SinkStats,
    UdpMetricSink, UnixMetricSink,
};
use cadence_verif_harness::*;
use std::io::{self, BufRead, Write};
use std::net::UdpSocket;
use std::os::unix::net::UnixDatagram;
use std::panic::{catch_unwind, AssertUnwindSafe};
use std::path::PathBuf;
use std::sync::atomic::{AtomicU64, AtomicUsize, Ordering};
use std::sync::Arc;
use std::time::{Duration, Instant};

static DIRSEQ: AtomicUsize = AtomicUsize::new(0);
/// how often the peer did not receive what the sink's counters said was sent; after a handful the
/// 200 ms grace is dropped (the discrepancy is established, waiting again adds nothing)
static SHORT_DRAINS: AtomicUsize = AtomicUsize::new(0);
/// sink calls that did not return within the 3 s watchdog (a blocking send nobody will ever unblock)
static BLOCKED: AtomicUsize = AtomicUsize::new(0);

/// run a sink call on its own thread and give up on it after 3 s
fn watchdog<F: FnOnce() -> String + Send + 'static>(f: F) -> String {
    let (tx, rx) = std::sync::mpsc::channel();
    std::thread::spawn(move || {
        let _ = tx.send(f());
    });
    match rx.recv_timeout(Duration::from_secs(3)) {
        Ok(r) => r,
        Err(_) => {
            BLOCKED.fetch_add(1, Ordering::Relaxed);
            "blocked".to_string()
        }
    }
}

fn temp_path(tag: &str) -> PathBuf {
    // <this copy of /verif>/work/sock (the executable lives in harness/target/<profile>/): a snapshot of /verif
    // run elsewhere on the machine uses its own directory; the name also carries the start time of the
    // process, so that equal pids in different pid namespaces cannot collide
    static START: std::sync::OnceLock<u128> = std::sync::OnceLock::new();
    let start = *START.get_or_init(|| std::time::SystemTime::now().duration_since(std::time::UNIX_EPOCH).map(|d| d.as_nanos()).unwrap_or(0) % 1_000_000_000);
    let base = std::env::var("VERIF_SOCK_DIR").unwrap_or_else(|_| {
        std::env::current_exe()
            .ok()
            .and_then(|e| e.ancestors().nth(4).map(|r| r.join("work").join("sock").to_string_lossy().to_string()))
            .unwrap_or_else(|| "/verif/work/sock".to_string())
    });
    let _ = std::fs::create_dir_all(&base);
    let n = DIRSEQ.fetch_add(1, Ordering::Relaxed);
    PathBuf::from(format!("{}/{}-{}-{}-{}.sock", base, tag, std::process::id(), start, n))
}

enum Peer {
    /// the receiving socket and a decoy: UDP sinks are built from the address list [peer, decoy]
    Udp(UdpSocket, UdpSocket),
    /// receiving socket, its path, and (kinds `unixln` / `bunixln`) the symbolic link the sink was given
    Unix(UnixDatagram, PathBuf, Option<PathBuf>),
}

impl Peer {
    fn drain(&self, want: usize) -> Vec<Vec<u8>> {
        let mut out = Vec::new();
        let mut buf = vec![0u8; 262144];
        let t0 = Instant::now();
        loop {
            let r = match self {
                Peer::Udp(s, _) => s.recv(&mut buf),
                Peer::Unix(s, _, _) => s.recv(&mut buf),
            };
            match r {
                Ok(n) => out.push(buf[..n].to_vec()),
                Err(_) => {
                    // loopback delivery is synchronous; allow a short grace if fewer than expected arrived
                    if out.len() >= want || SHORT_DRAINS.load(Ordering::Relaxed) > 20 {
                        break;
                    }
                    if t0.elapsed() > Duration::from_millis(200) {
                        SHORT_DRAINS.fetch_add(1, Ordering::Relaxed);
                        break;
                    }
                    std::thread::sleep(Duration::from_millis(1));
                }
            }
        }
        out
    }
}

impl Peer {
    /// the receiver restarts: the old socket is unlinked and a new one bound at the same path;
    /// the old socket is kept open (anything that still reaches it is misdelivered)
    fn restart(&mut self, old: &mut Vec<UnixDatagram>) -> bool {
        if let Peer::Unix(s, path, link) = self {
            if let Some(l) = link {
                // the sink was given a symbolic link: the new receiver binds elsewhere and the link is re-pointed
                let np = temp_path("peer");
                let _ = std::fs::remove_file(&*l);
                if std::os::unix::fs::symlink(&np, &*l).is_err() {
                    return false;
                }
                // the old receiver's socket stays open (in `old`), its file name is no longer needed
                let _ = std::fs::remove_file(&*path);
                *path = np;
            } else {
                let _ = std::fs::remove_file(&*path);
            }
            match UnixDatagram::bind(&*path) {
                Ok(n) => {
                    let _ = n.set_nonblocking(true);
                    let prev = std::mem::replace(s, n);
                    old.push(prev);
                    true
                }
                Err(_) => false,
            }
        } else {
            false
        }
    }

    /// datagrams that went to the decoy address (must be none)
    fn decoy_count(&self) -> usize {
        let mut n = 0;
        if let Peer::Udp(_, d) = self {
            let mut buf = vec![0u8; 65536];
            while d.recv(&mut buf).is_ok() {
                n += 1;
            }
        }
        n
    }
}

impl Drop for Peer {
    fn drop(&mut self) {
        if let Peer::Unix(_, p, l) = self {
            let _ = std::fs::remove_file(p);
            if let Some(l) = l {
                let _ = std::fs::remove_file(l);
            }
        }
    }
}

struct Shared(Arc<dyn MetricSink + Send + Sync + std::panic::RefUnwindSafe>);
impl MetricSink for Shared {
    fn emit(&self, m: &str) -> io::Result<usize> {
        self.0.emit(m)
    }
    fn flush(&self) -> io::Result<()> {
        self.0.flush()
    }
    fn stats(&self) -> SinkStats {
        self.0.stats()
    }
}

/// datagram payloads up to 256 bytes are printed in full, larger ones as `L<len>h<fnv1a-64>`
fn dgrepr(p: &[u8]) -> String {
    if p.len() <= 256 {
        return hex(p);
    }
    let mut h: u64 = 0xcbf29ce484222325;
    for b in p {
        h ^= *b as u64;
        h = h.wrapping_mul(0x100000001b3);
    }
    format!("L{}h{:016x}", p.len(), h)
}

/// `err<kind>`; a `!` is appended when the error is not an OS error — every failure of these sinks is the
/// failure of a socket call, and the sink must return the socket's error itself
fn sock_err(e: &io::Error) -> String {
    format!("err{}{}", kind_index(e.kind()), if e.raw_os_error().is_some() { "" } else { "!" })
}

/// constructors given an address argument that resolves to nothing: an error (InvalidInput), never a panic
fn run_ctor_empty() -> String {
    let mut out = Vec::new();
    let empty: [std::net::SocketAddr; 0] = [];
    for which in 0..3 {
        let sock = match UdpSocket::bind("127.0.0.1:0") {
            Ok(s) => s,
            Err(_) => return "setup-failed".to_string(),
        };
        let r = catch_unwind(AssertUnwindSafe(|| match which {
            0 => UdpMetricSink::from(&empty[..], sock).map(|_| ()),
            1 => BufferedUdpMetricSink::from(&empty[..], sock).map(|_| ()),
            _ => BufferedUdpMetricSink::with_capacity(&empty[..], sock, 64).map(|_| ()),
        }));
        out.push(match r {
            Err(_) => "panic".to_string(),
            Ok(Ok(())) => "built".to_string(),
            Ok(Err(e)) => match e.kind() {
                cadence::ErrorKind::InvalidInput => "inv".to_string(),
                _ => "io".to_string(),
            },
        });
    }
    out.join(",")
}

/// one thread emits a metric and flushes, and then expects that metric on the wire; three other threads do
/// nothing but flush.  Whatever the interleaving, once the emitter's own flush has returned Ok its metric has
/// been sent (C06 under concurrency, C12).
fn run_flushrace(kind: &str, iters: usize) -> String {
    let (sink, peer) = match build(kind, "512", false) {
        Some(x) => x,
        None => return "setup-failed".to_string(),
    };
    match &peer {
        Peer::Udp(s, _) => {
            let _ = s.set_nonblocking(false);
            let _ = s.set_read_timeout(Some(Duration::from_millis(300)));
        }
        Peer::Unix(s, _, _) => {
            let _ = s.set_nonblocking(false);
            let _ = s.set_read_timeout(Some(Duration::from_millis(300)));
        }
    }
    let stop = Arc::new(AtomicU64::new(0));
    let mut hs = Vec::new();
    for _ in 0..3 {
        let sink = sink.clone();
        let stop = stop.clone();
        hs.push(std::thread::spawn(move || {
            while stop.load(Ordering::Acquire) == 0 {
                let _ = sink.flush();
            }
        }));
    }
    let mut buf = vec![0u8; 2048];
    let mut verdict = "ok".to_string();
    'outer: for i in 0..iters {
        let m = format!("fr.{}", i);
        if sink.emit(&m).is_err() || sink.flush().is_err() {
            verdict = format!("emit-or-flush-failed-at-{}", i);
            break;
        }
        let want = format!("{}\n", m);
        // the metric may share a datagram with nothing else (only this thread emits); read until it shows up
        let t0 = Instant::now();
        loop {
            let r = match &peer {
                Peer::Udp(s, _) => s.recv(&mut buf),
                Peer::Unix(s, _, _) => s.recv(&mut buf),
            };
            match r {
                Ok(n) if buf[..n] == *want.as_bytes() => break,
                Ok(_) => {}
                Err(_) => {
                    if t0.elapsed() >= Duration::from_millis(300) {
                        verdict = format!("flush-returned-Ok-but-the-metric-emitted-before-it-was-not-sent-iteration-{}", i);
                        break 'outer;
                    }
                }
            }
        }
    }
    stop.store(1, Ordering::Release);
    for h in hs {
        let _ = h.join();
    }
    verdict
}

/// ground truth for "send attempts": a back-pressure case is replayed in a child under `strace -e trace=sendto`
/// and the kernel's count of send calls to the receiver's path (accepted / refused) is compared with the
/// sink's final counters
fn run_strace(kind: &str) -> String {
    let cap = if kind.starts_with('b') { "8" } else { "-" };
    let mut ops: Vec<String> = Vec::new();
    for round in 0..3 {
        for j in 0..14 {
            ops.push(format!("e{}", hex(format!("s{}.{:03}", round, j).as_bytes())));
        }
        ops.push("r".to_string());
        ops.push("f".to_string());
    }
    ops.push("s".to_string());
    let case = format!("sock {} {} 1 m {}", kind, cap, ops.join(","));
    let exe = match std::env::current_exe() {
        Ok(e) => e,
        Err(_) => return "strace-unavailable".to_string(),
    };
    let trace = temp_path("strace").with_extension("txt");
    let child = std::process::Command::new("strace")
        .args(["-f", "-qq", "-e", "trace=sendto", "-o"])
        .arg(&trace)
        .arg(exe)
        .arg("replay")
        .stdin(std::process::Stdio::piped())
        .stdout(std::process::Stdio::piped())
        .stderr(std::process::Stdio::null())
        .spawn();
    let mut child = match child {
        Ok(c) => c,
        Err(_) => return "strace-unavailable".to_string(),
    };
    use std::io::Read;
    let _ = child.stdin.take().unwrap().write_all(format!("{}\n", case).as_bytes());
    let mut out = String::new();
    let _ = child.stdout.take().unwrap().read_to_string(&mut out);
    let _ = child.wait();
    let text = std::fs::read_to_string(&trace).unwrap_or_default();
    let _ = std::fs::remove_file(&trace);
    // completed calls: either a whole line `sendto(… "peer-…") = r`, or a `<... sendto resumed>) = r` line whose
    // unfinished half named the peer
    let (mut ok, mut refused) = (0u64, 0u64);
    let mut pending: std::collections::HashMap<String, bool> = std::collections::HashMap::new();
    for l in text.lines() {
        let pid = l.split_whitespace().next().unwrap_or("").to_string();
        if l.contains("sendto(") && l.contains("<unfinished") {
            pending.insert(pid, l.contains("/peer-"));
            continue;
        }
        let relevant = if l.contains("sendto resumed") { pending.remove(&pid).unwrap_or(false) } else { l.contains("sendto(") && l.contains("/peer-") };
        if !relevant {
            continue;
        }
        match l.rsplit(" = ").next() {
            Some(r) if r.starts_with("-1") => refused += 1,
            Some(_) => ok += 1,
            None => {}
        }
    }
    if ok + refused == 0 {
        return "strace-unavailable".to_string();
    }
    // the sink's own figures: the last `S…` of the observation
    let obs = out.trim().split(" => ").nth(1).unwrap_or("").to_string();
    let st = obs.split(';').filter_map(|o| o.split('/').next()).filter(|r| r.starts_with('S')).last().unwrap_or("").to_string();
    let nums: Vec<u64> = st.trim_start_matches('S').split('.').filter_map(|x| x.parse().ok()).collect();
    if nums.len() != 4 {
        return format!("no-stats-in-{}", obs.chars().take(60).collect::<String>());
    }
    if nums[1] == ok && nums[3] == refused {
        "ok".to_string()
    } else {
        format!("kernel-saw-{}-accepted-{}-refused-sends-the-sink-reports-{}-sent-{}-dropped", ok, refused, nums[1], nums[3])
    }
}

/// more than 4 GiB through one sink (refused or sent): the byte counters are true totals
fn run_big(kind: &str) -> String {
    let (sink, peer) = match build(kind, "-", true) {
        Some(x) => x,
        None => return "setup-failed".to_string(),
    };
    let (len, n) = if kind == "udp" { (65507usize, 66000u64) } else { (131072usize, 33000u64) };
    let m = gen_metric(len);
    let stop = Arc::new(AtomicU64::new(0));
    // a UDP receiver is drained concurrently so that the loopback queue never fills
    let reader = if kind == "udp" {
        let stop = stop.clone();
        Some(std::thread::spawn(move || {
            let mut buf = vec![0u8; 70000];
            while stop.load(Ordering::Acquire) == 0 {
                if let Peer::Udp(s, _) = &peer {
                    let _ = s.recv(&mut buf);
                }
            }
            drop(peer);
        }))
    } else {
        drop(peer);
        None
    };
    let (mut ok_b, mut ok_n, mut bad_b, mut bad_n) = (0u64, 0u64, 0u64, 0u64);
    for _ in 0..n {
        match catch_unwind(AssertUnwindSafe(|| sink.emit(&m))) {
            Ok(Ok(k)) => {
                ok_b += k as u64;
                ok_n += 1;
            }
            Ok(Err(_)) => {
                bad_b += len as u64;
                bad_n += 1;
            }
            Err(_) => return "panic".to_string(),
        }
    }
    let st = sink.stats();
    stop.store(1, Ordering::Release);
    if let Some(r) = reader {
        let _ = r.join();
    }
    if (st.bytes_sent, st.packets_sent, st.bytes_dropped, st.packets_dropped) == (ok_b, ok_n, bad_b, bad_n) && ok_b + bad_b > (1u64 << 32) {
        "ok".to_string()
    } else {
        format!("after-{}-bytes-accepted-{}-refused-the-sink-reports-{}", ok_b, bad_b, fmt_stats(&st))
    }
}

fn gen_metric(len: usize) -> String {
    (0..len).map(|i| (b'a' + (i % 26) as u8) as char).collect()
}

fn fmt_stats(s: &SinkStats) -> String {
    format!("S{}.{}.{}.{}", s.bytes_sent, s.packets_sent, s.bytes_dropped, s.packets_dropped)
}

type DynSink = Arc<dyn MetricSink + Send + Sync + std::panic::RefUnwindSafe>;

fn build(kind: &str, cap: &str, nb: bool) -> Option<(DynSink, Peer)> {
    let capn: Option<usize> = if cap == "d" || cap == "-" { None } else { cap.parse().ok() };
    match kind {
        "udp" | "budp" | "udp6" | "budp6" => {
            // `…6`: the first address of the list is IPv6, the second (the decoy) IPv4
            let v6 = kind.ends_with('6');
            let peer = UdpSocket::bind(if v6 { "[::1]:0" } else { "127.0.0.1:0" }).ok()?;
            peer.set_nonblocking(true).ok()?;
            let decoy = UdpSocket::bind("127.0.0.1:0").ok()?;
            decoy.set_nonblocking(true).ok()?;
            let addrs = [peer.local_addr().ok()?, decoy.local_addr().ok()?];
            let addr = &addrs[..];
            let sock = UdpSocket::bind(if v6 { "[::]:0" } else { "127.0.0.1:0" }).ok()?;
            sock.set_nonblocking(nb).ok()?;
            let sink: DynSink = if !kind.starts_with('b') {
                Arc::new(UdpMetricSink::from(addr, sock).ok()?)
            } else {
                match capn {
                    Some(c) => Arc::new(BufferedUdpMetricSink::with_capacity(addr, sock, c).ok()?),
                    None => Arc::new(BufferedUdpMetricSink::from(addr, sock).ok()?),
                }
            };
            Some((sink, Peer::Udp(peer, decoy)))
        }
        "unix" | "bunix" | "unixgone" | "bunixgone" | "unixln" | "bunixln" | "unixlate" | "bunixlate" => {
            // `…late`: nothing is bound at the sink's path until the first `R` (the receiver starts late); until
            // then the peer socket is a placeholder bound elsewhere
            let path = temp_path("peer");
            let late = kind.ends_with("late");
            let placeholder = temp_path("placeholder");
            let peer = UnixDatagram::bind(if late { &placeholder } else { &path }).ok()?;
            if late {
                let _ = std::fs::remove_file(&placeholder);
            }
            peer.set_nonblocking(true).ok()?;
            let sock = UnixDatagram::unbound().ok()?;
            sock.set_nonblocking(nb).ok()?;
            let link = if kind.ends_with("ln") {
                let l = temp_path("link");
                std::os::unix::fs::symlink(&path, &l).ok()?;
                Some(l)
            } else {
                None
            };
            let target = if kind.ends_with("gone") { temp_path("gone") } else { link.clone().unwrap_or(path.clone()) };
            let sink: DynSink = if kind.starts_with("unix") {
                Arc::new(UnixMetricSink::from(&target, sock))
            } else {
                match capn {
                    Some(c) => Arc::new(BufferedUnixMetricSink::with_capacity(&target, sock, c)),
                    None => Arc::new(BufferedUnixMetricSink::from(&target, sock)),
                }
            };
            Some((sink, Peer::Unix(peer, path, link)))
        }
        _ => None,
    }
}

fn run_sock(kind: &str, cap: &str, nb: bool, drain: &str, ops: &[String]) -> String {
    let (sink, mut peer) = match build(kind, cap, nb) {
        Some(x) => x,
        None => return "setup-failed".to_string(),
    };
    let mut old_peers: Vec<UnixDatagram> = Vec::new();
    let mut misdelivered = 0usize;
    let queuing = QueuingMetricSink::from(Shared(sink.clone()));
    let auto = drain == "a";
    let mut obs = Vec::new();
    let mut last = sink.stats();
    let dg = |v: Vec<Vec<u8>>| -> String {
        if v.is_empty() {
            "~".to_string()
        } else {
            v.iter().map(|p| dgrepr(p)).collect::<Vec<_>>().join(",")
        }
    };
    let mut abandoned = false;
    for op in ops {
        let (c, rest) = op.split_at(1);
        if abandoned {
            obs.push("skipped/0.0/~".to_string());
            continue;
        }
        let res = match c {
            "e" | "g" => {
                let m = if c == "e" {
                    String::from_utf8(unhex(rest)).unwrap_or_default()
                } else {
                    gen_metric(rest.parse().unwrap_or(0))
                };
                let sk = sink.clone();
                watchdog(move || match catch_unwind(AssertUnwindSafe(|| sk.emit(&m))) {
                    Ok(Ok(n)) => format!("ok{}", n),
                    Ok(Err(e)) => sock_err(&e),
                    Err(_) => "panic".to_string(),
                })
            }
            "f" => {
                let sk = sink.clone();
                watchdog(move || match catch_unwind(AssertUnwindSafe(|| sk.flush())) {
                    Ok(Ok(())) => "ok0".to_string(),
                    Ok(Err(e)) => sock_err(&e),
                    Err(_) => "panic".to_string(),
                })
            }
            "s" => fmt_stats(&sink.stats()),
            "q" => fmt_stats(&queuing.stats()),
            "r" => "ok0".to_string(),
            "R" => {
                if peer.restart(&mut old_peers) {
                    "ok0".to_string()
                } else {
                    "norestart".to_string()
                }
            }
            _ => "badop".to_string(),
        };
        let now = sink.stats();
        // the counters only ever grow
        let decreased = now.packets_sent < last.packets_sent
            || now.packets_dropped < last.packets_dropped
            || now.bytes_sent < last.bytes_sent
            || now.bytes_dropped < last.bytes_dropped;
        let ds = now.packets_sent.saturating_sub(last.packets_sent);
        let dd = now.packets_dropped.saturating_sub(last.packets_dropped);
        last = now;
        let res = if decreased { "decreased".to_string() } else { res };
        if res == "blocked" {
            abandoned = true;
        }
        let got = if auto || c == "r" { peer.drain(if auto { ds as usize } else { 0 }) } else { vec![] };
        // a restarted receiver's old socket is kept open; whatever still reaches it is counted at the end,
        // and it is read here so that its queue can never fill up and block a (wrongly addressed) sender
        {
            let mut buf = vec![0u8; 65536];
            for o in &old_peers {
                while o.recv(&mut buf).is_ok() {
                    misdelivered += 1;
                }
            }
        }
        obs.push(format!("{}/{}.{}/{}", res, ds, dd, dg(got)));
    }
    // final sequence: the peer drains, then the sink is dropped (by every owner) and the peer drains again
    {
        let got = peer.drain(0);
        obs.push(format!("ok0/0.0/{}", dg(got)));
    }
    drop(queuing);
    let t0 = Instant::now();
    while Arc::strong_count(&sink) > 1 && t0.elapsed() < Duration::from_secs(5) {
        std::thread::yield_now();
    }
    if abandoned {
        // a call is still stuck inside the sink: do not wait for it
        obs.push("stuck/x.x/~".to_string());
        return obs.join(";");
    }
    if Arc::strong_count(&sink) == 1 {
        let r = catch_unwind(AssertUnwindSafe(move || drop(sink)));
        let got = peer.drain(0);
        let mut decoy = peer.decoy_count() + misdelivered;
        let mut buf = vec![0u8; 65536];
        for o in &old_peers {
            while o.recv(&mut buf).is_ok() {
                decoy += 1;
            }
        }
        obs.push(format!(
            "{}/x.x/{}",
            if r.is_ok() && decoy == 0 { "ok0".to_string() } else if decoy > 0 { format!("decoy{}", decoy) } else { "panic".to_string() },
            dg(got)
        ));
    } else {
        obs.push("stuck/x.x/~".to_string());
    }
    obs.join(";")
}

// ------------------------------------------------------------------------------------------------
// multi-threaded runs

fn mt_metric(t: usize, i: usize, len: usize) -> String {
    let mut s = format!("t{}.{}.", t, i);
    while s.len() < len {
        s.push((b'a' + (t % 26) as u8) as char);
    }
    s
}

fn run_mt(kind: &str, cap: usize, threads: usize, per: usize, flushes: bool) -> String {
    let mut rx_spy = None;
    let mut peer = None;
    let sink: DynSink = match kind {
        "bspy" => {
            let (rx, s) = BufferedSpyMetricSink::with_capacity(None, Some(cap));
            rx_spy = Some(rx);
            Arc::new(s)
        }
        "budp" => {
            let p = UdpSocket::bind("127.0.0.1:0").unwrap();
            let decoy = UdpSocket::bind("127.0.0.1:0").unwrap();
            decoy.set_nonblocking(true).unwrap();
            let sock = UdpSocket::bind("127.0.0.1:0").unwrap();
            let s = BufferedUdpMetricSink::with_capacity(p.local_addr().unwrap(), sock, cap).unwrap();
            peer = Some(Peer::Udp(p, decoy));
            Arc::new(s)
        }
        "unix" => {
            let path = temp_path("mt");
            let p = UnixDatagram::bind(&path).unwrap();
            let sock = UnixDatagram::unbound().unwrap();
            let s = UnixMetricSink::from(&path, sock);
            peer = Some(Peer::Unix(p, path, None));
            Arc::new(s)
        }
        _ => {
            let path = temp_path("mt");
            let p = UnixDatagram::bind(&path).unwrap();
            let sock = UnixDatagram::unbound().unwrap();
            let s = BufferedUnixMetricSink::with_capacity(&path, sock, cap);
            peer = Some(Peer::Unix(p, path, None));
            Arc::new(s)
        }
    };
    // the peer of a blocking unix sink must be read concurrently
    let stop = Arc::new(AtomicU64::new(0));
    let collected: Arc<std::sync::Mutex<Vec<Vec<u8>>>> = Arc::new(std::sync::Mutex::new(Vec::new()));
    let reader = peer.map(|p| {
        let stop = stop.clone();
        let collected = collected.clone();
        std::thread::spawn(move || {
            let mut buf = vec![0u8; 65536];
            match &p {
                Peer::Unix(s, _, _) => {
                    s.set_read_timeout(Some(Duration::from_millis(20))).unwrap();
                    loop {
                        match s.recv(&mut buf) {
                            Ok(n) => collected.lock().unwrap().push(buf[..n].to_vec()),
                            Err(_) => {
                                if stop.load(Ordering::Acquire) == 1 {
                                    break;
                                }
                            }
                        }
                    }
                }
                Peer::Udp(s, _) => {
                    s.set_read_timeout(Some(Duration::from_millis(20))).unwrap();
                    loop {
                        match s.recv(&mut buf) {
                            Ok(n) => collected.lock().unwrap().push(buf[..n].to_vec()),
                            Err(_) => {
                                if stop.load(Ordering::Acquire) == 1 {
                                    break;
                                }
                            }
                        }
                    }
                }
            }
            drop(p);
        })
    });
    let mut hs = Vec::new();
    for t in 0..threads {
        let sink = sink.clone();
        hs.push(std::thread::spawn(move || {
            let mut bad = 0usize;
            let len = 6 + (t * 5) % 23;
            for i in 0..per {
                let m = mt_metric(t, i, len);
                match catch_unwind(AssertUnwindSafe(|| sink.emit(&m))) {
                    Ok(Ok(n)) if n == m.len() => {}
                    Ok(_) => bad += 1,
                    Err(_) => bad += 1000000,
                }
                if flushes && i % 9 == t % 9 {
                    match catch_unwind(AssertUnwindSafe(|| sink.flush())) {
                        Ok(Ok(())) => {}
                        Ok(_) => bad += 1,
                        Err(_) => bad += 1000000,
                    }
                }
                if i % 5 == 0 {
                    std::thread::yield_now();
                }
            }
            bad
        }));
    }
    let bad: usize = hs.into_iter().map(|h| h.join().unwrap_or(1000000)).sum();
    let fl = matches!(catch_unwind(AssertUnwindSafe(|| sink.flush())), Ok(Ok(())));
    let stats = catch_unwind(AssertUnwindSafe(|| sink.stats())).unwrap_or_default();
    let _ = catch_unwind(AssertUnwindSafe(move || drop(sink)));
    stop.store(1, Ordering::Release);
    if let Some(r) = reader {
        let _ = r.join();
    }
    let mut dgs: Vec<Vec<u8>> = collected.lock().unwrap().clone();
    if let Some(rx) = rx_spy {
        while let Ok(p) = rx.try_recv() {
            dgs.push(p);
        }
    }
    format!(
        "bad{}.flush{}|{}|{}",
        bad,
        if fl { 1 } else { 0 },
        fmt_stats(&stats),
        if dgs.is_empty() { "-".to_string() } else { dgs.iter().map(|p| hex(p)).collect::<Vec<_>>().join(",") }
    )
}

/// thread A blocks inside send_to (peer queue full, blocking socket) while holding the sink's lock;
/// thread B's emit must not complete before A is released, must not fail, and nothing may interleave.
fn run_lock(cap: usize) -> String {
    let path = temp_path("lock");
    let peer = UnixDatagram::bind(&path).unwrap();
    peer.set_nonblocking(true).unwrap();
    let sock = UnixDatagram::unbound().unwrap();
    let sink = Arc::new(BufferedUnixMetricSink::with_capacity(&path, sock, cap));
    let progress = Arc::new(AtomicU64::new(0));
    let a_stop = Arc::new(AtomicU64::new(0));
    let a = {
        let sink = sink.clone();
        let progress = progress.clone();
        let a_stop = a_stop.clone();
        std::thread::spawn(move || {
            let mut i = 0;
            while a_stop.load(Ordering::Acquire) == 0 && i < 100000 {
                let _ = sink.emit(&mt_metric(0, i, cap.saturating_sub(1).max(6)));
                i += 1;
                progress.store(i as u64, Ordering::Release);
            }
            i
        })
    };
    // wait until A has stopped making progress: it is blocked in send_to, holding the lock
    let mut last = 0;
    let mut still = 0;
    let t0 = Instant::now();
    while still < 10 && t0.elapsed() < Duration::from_secs(10) {
        std::thread::sleep(Duration::from_millis(10));
        let p = progress.load(Ordering::Acquire);
        if p == last && p > 0 {
            still += 1;
        } else {
            still = 0;
            last = p;
        }
    }
    if still < 10 {
        a_stop.store(1, Ordering::Release);
        let _ = a.join();
        let _ = std::fs::remove_file(&path);
        return "ok-not-blocked".to_string(); // the scenario could not be set up: nothing to conclude
    }
    let b_done = Arc::new(AtomicU64::new(0));
    let b = {
        let sink = sink.clone();
        let b_done = b_done.clone();
        std::thread::spawn(move || {
            let r = sink.emit("tB.0.bbbbbb");
            b_done.store(if r.is_ok() { 1 } else { 2 }, Ordering::Release);
        })
    };
    // a flush on a third thread must wait as well (it cannot have written anything while A holds the sink)
    let f_done = Arc::new(AtomicU64::new(0));
    let fthread = {
        let sink = sink.clone();
        let f_done = f_done.clone();
        std::thread::spawn(move || {
            let r = sink.flush();
            f_done.store(if r.is_ok() { 1 } else { 2 }, Ordering::Release);
        })
    };
    // … and a second flush, started while the first one is already waiting
    std::thread::sleep(Duration::from_millis(20));
    let f2_done = Arc::new(AtomicU64::new(0));
    let fthread2 = {
        let sink = sink.clone();
        let f2_done = f2_done.clone();
        std::thread::spawn(move || {
            let r = sink.flush();
            f2_done.store(if r.is_ok() { 1 } else { 2 }, Ordering::Release);
        })
    };
    std::thread::sleep(Duration::from_millis(150));
    let early = b_done.load(Ordering::Acquire);
    let early_flush = f_done.load(Ordering::Acquire) + f2_done.load(Ordering::Acquire);
    a_stop.store(1, Ordering::Release);
    // release everybody: drain until both are done
    let mut dgs: Vec<Vec<u8>> = Vec::new();
    let mut buf = vec![0u8; 65536];
    let t0 = Instant::now();
    let mut a_opt = Some(a);
    let mut a_res = 0usize;
    loop {
        while let Ok(n) = peer.recv(&mut buf) {
            dgs.push(buf[..n].to_vec());
        }
        if a_opt.as_ref().map(|h| h.is_finished()).unwrap_or(true) && b_done.load(Ordering::Acquire) != 0 {
            if let Some(h) = a_opt.take() {
                a_res = h.join().unwrap_or(0);
            }
            break;
        }
        if t0.elapsed() > Duration::from_secs(10) {
            let _ = std::fs::remove_file(&path);
            return "threads-did-not-finish".to_string();
        }
        std::thread::sleep(Duration::from_millis(1));
    }
    let _ = b.join();
    let _ = fthread.join();
    let _ = fthread2.join();
    let _ = sink.flush();
    while let Ok(n) = peer.recv(&mut buf) {
        dgs.push(buf[..n].to_vec());
    }
    let _ = std::fs::remove_file(&path);
    if early != 0 {
        return "emit-returned-while-another-thread-held-the-sink-inside-the-socket".to_string();
    }
    if early_flush != 0 {
        return "flush-returned-while-another-thread-held-the-sink-inside-the-socket".to_string();
    }
    if b_done.load(Ordering::Acquire) != 1 {
        return "contended-emit-failed".to_string();
    }
    // framing + conservation of the combined stream
    let mut lines = Vec::new();
    for d in &dgs {
        if d.len() > cap && d.contains(&b'\n') {
            return "datagram-over-capacity".to_string();
        }
        let s = String::from_utf8_lossy(d).to_string();
        if !s.ends_with('\n') && s.len() + 1 <= cap {
            return "partial-line".to_string();
        }
        for l in s.trim_end_matches('\n').split('\n') {
            lines.push(l.to_string());
        }
    }
    let b_count = lines.iter().filter(|l| l.as_str() == "tB.0.bbbbbb").count();
    if b_count != 1 {
        return format!("contended-metric-seen-{}-times", b_count);
    }
    let a_lines: Vec<&String> = lines.iter().filter(|l| l.starts_with("t0.")).collect();
    if a_lines.len() != a_res {
        return format!("thread-A-emitted-{}-delivered-{}", a_res, a_lines.len());
    }
    for (i, l) in a_lines.iter().enumerate() {
        if !l.starts_with(&format!("t0.{}.", i)) {
            return "thread-A-order".to_string();
        }
    }
    "ok".to_string()
}

/// ECONNREFUSED injection: a UDP socket connected to a closed loopback port reports the ICMP
/// port-unreachable answer to one send as an error of the *next* send (which the kernel then does not
/// perform).  A control socket prepared the same way and used directly tells what the kernel does; the
/// sink on its own such socket must report refusals too (it must not turn the socket's error into Ok).
fn closed_addr() -> Option<std::net::SocketAddr> {
    let t = UdpSocket::bind("127.0.0.1:0").ok()?;
    let a = t.local_addr().ok()?;
    drop(t);
    Some(a)
}

fn run_cr(kind: &str, n: usize) -> String {
    let decoy = UdpSocket::bind("127.0.0.1:0").ok();
    if let Some(d) = &decoy {
        let _ = d.set_nonblocking(true);
    }
    let decoy_addr = decoy.as_ref().and_then(|d| d.local_addr().ok());
    let attempt = |buffered: bool| -> Option<(usize, usize, usize)> {
        let addr = closed_addr()?;
        let sock = UdpSocket::bind("127.0.0.1:0").ok()?;
        sock.connect(addr).ok()?;
        // the address list has a second entry: a refusal from the first must not redirect the sink to it
        let addrs = [addr, decoy_addr?];
        let sink: DynSink = if buffered {
            Arc::new(BufferedUdpMetricSink::with_capacity(&addrs[..], sock, 8).ok()?)
        } else {
            Arc::new(UdpMetricSink::from(&addrs[..], sock).ok()?)
        };
        let mut errs = 0usize;
        for i in 0..n {
            // 7 bytes + newline fill the 8-byte buffer exactly: every emit after the first sends the previous line
            match catch_unwind(AssertUnwindSafe(|| sink.emit(&format!("cr{:05}", i)))) {
                Ok(Ok(_)) => {}
                Ok(Err(_)) => errs += 1,
                Err(_) => return None,
            }
        }
        let st = sink.stats();
        Some((errs, st.packets_dropped as usize, (st.packets_sent + st.packets_dropped) as usize))
    };
    let control = |sends: usize| -> Option<usize> {
        let addr = closed_addr()?;
        let sock = UdpSocket::bind("127.0.0.1:0").ok()?;
        sock.connect(addr).ok()?;
        let mut refused = 0usize;
        for i in 0..sends {
            if sock.send_to(format!("cr{:05}", i).as_bytes(), addr).is_err() {
                refused += 1;
            }
        }
        Some(refused)
    };
    let r = match attempt(kind == "budp") {
        None => "setup-failed".to_string(),
        Some((errs, dropped, attempts)) => match control(attempts.max(n)) {
            None => "setup-failed".to_string(),
            Some(refused) => format!("sink{}.{}.{} ctl{}", errs, dropped, attempts, refused),
        },
    };
    let mut stray = 0;
    if let Some(d) = &decoy {
        let mut buf = [0u8; 2048];
        while d.recv(&mut buf).is_ok() {
            stray += 1;
        }
    }
    if stray > 0 {
        return format!("redirected{}", stray);
    }
    r
}

fn run_line(line: &str) -> Option<String> {
    {
        let l = line.split(" => ").next().unwrap().trim();
        let f: Vec<&str> = l.split(' ').collect();
        if f[0] == "sockbig" && f.len() == 2 {
            return Some(format!("{} => {}", l, run_big(f[1])));
        }
        if f[0] == "sockctor" {
            return Some(format!("sockctor => {}", run_ctor_empty()));
        }
        if f[0] == "sockflushrace" && f.len() == 3 {
            return Some(format!("{} => {}", l, run_flushrace(f[1], f[2].parse().unwrap_or(1000))));
        }
        if f[0] == "sockstrace" && f.len() == 2 {
            return Some(format!("{} => {}", l, run_strace(f[1])));
        }
    }
    let line = line.split(" => ").next().unwrap().trim();
    if line.is_empty() || line.starts_with('#') {
        return None;
    }
    let f: Vec<&str> = line.split(' ').collect();
    match f[0] {
        "sock" if f.len() == 6 => {
            let ops: Vec<String> = if f[5] == "-" { vec![] } else { f[5].split(',').map(|x| x.to_string()).collect() };
            Some(format!("{} => {}", line, run_sock(f[1], f[2], f[3] == "1", f[4], &ops)))
        }
        "sockmt" if f.len() == 6 => Some(format!(
            "{} => {}",
            line,
            run_mt(f[1], f[2].parse().unwrap_or(64), f[3].parse().unwrap_or(2), f[4].parse().unwrap_or(10), f[5] == "1")
        )),
        "socklock" if f.len() == 2 => Some(format!("{} => {}", line, run_lock(f[1].parse().unwrap_or(64)))),
        "sockcr" if f.len() == 3 => Some(format!("{} => {}", line, run_cr(f[1], f[2].parse().unwrap_or(8)))),
        _ => Some(format!("{} => malformed", line)),
    }
}

fn gen_ops(rng: &mut Rng, kind: &str, capn: usize, n: usize, manual: bool) -> Vec<String> {
    let mut ops = Vec::new();
    let buffered = kind.starts_with('b');
    for i in 0..n {
        let r = rng.below(100);
        if r < 8 {
            ops.push("s".to_string());
        } else if r < 11 {
            ops.push("q".to_string());
        } else if r < 18 && buffered {
            ops.push("f".to_string());
        } else if r < 26 && manual {
            ops.push("r".to_string());
        } else if r < (if kind.ends_with("ln") { 34 } else { 28 }) && kind.contains("unix") && !kind.ends_with("gone") && !kind.ends_with("late") && !manual {
            ops.push("R".to_string());
        } else if r < 32 {
            let big: &[usize] = if kind.contains("udp") { &[1432, 8192, 65507, 65508, 70000] } else { &[1432, 8192, 65507, 70000] };
            ops.push(format!("g{}", rng.pick(big)));
        } else if r < 40 {
            ops.push(format!("e{}", hex(rng.pick(&["日本", "é", "", "a\nb", "x|y:z", "a\n", "\n", "k:1|c\n", "x\n\n"]).as_bytes())));
        } else {
            let room = capn.saturating_sub(1);
            let l = if buffered {
                match rng.below(8) {
                    0 => room,
                    1 => room + 1,
                    2 => room.saturating_sub(1),
                    3 => capn + 1,
                    _ => rng.below(1 + (room as u64).max(8) / 2) as usize,
                }
            } else {
                rng.below(40) as usize
            };
            let mut m = format!("m{}.", i);
            while m.len() < l {
                m.push('x');
            }
            m.truncate(l);
            ops.push(format!("e{}", hex(m.as_bytes())));
        }
    }
    ops
}

fn main() {
    silence_panics();
    let args: Vec<String> = std::env::args().collect();
    let stdout = io::stdout();
    let mut out = io::BufWriter::new(stdout.lock());
    if args.get(1).map(|s| s.as_str()) == Some("replay") {
        for line in io::stdin().lock().lines() {
            if let Some(l) = run_line(&line.unwrap()) {
                writeln!(out, "{}", l).unwrap();
            }
        }
        return;
    }
    let tier = arg_value(&args, "--tier").unwrap_or("quick".into());
    let mut rng = Rng::new(env_seed());
    let mut count = 0u64;
    let n = if tier == "quick" { 600 } else { 24000 };
    let have_v6 = UdpSocket::bind("[::1]:0").is_ok();
    for i in 0..n {
        if BLOCKED.load(Ordering::Relaxed) > 3 {
            break;
        }
        let kind = *rng.pick(&["udp", "unix", "budp", "bunix", "budp", "bunix", "unixgone", "bunixgone", "unixln", "bunixln", "udp6", "budp6"]);
        let kind = if kind.ends_with('6') && !have_v6 { &kind[..kind.len() - 1] } else { kind };
        let buffered = kind.starts_with('b');
        let (cap, capn) = if !buffered {
            ("-".to_string(), 0)
        } else {
            match rng.below(9) {
                8 if kind.contains("unix") => (if rng.chance(50) { ("70000".to_string(), 70000) } else { ("131072".to_string(), 131072) }),
                8 => ("65507".to_string(), 65507),
                7 => ("9000".to_string(), 9000),
                0 => ("d".to_string(), 512),
                1 => ("0".to_string(), 0),
                2 => ("1".to_string(), 1),
                3 => ("8".to_string(), 8),
                4 => ("1432".to_string(), 1432),
                5 => ("512".to_string(), 512),
                _ => {
                    let c = rng.range(2, 80) as usize;
                    (c.to_string(), c)
                }
            }
        };
        let manual = kind.contains("unix") && !kind.ends_with("gone") && i % 4 == 0;
        let nb = if manual { true } else { rng.chance(50) };
        let nops = if manual { rng.range(10, 60) } else { rng.range(1, 30) } as usize;
        let ops = gen_ops(&mut rng, kind, capn, nops, manual);
        let obs = run_sock(kind, &cap, nb, if manual { "m" } else { "a" }, &ops);
        writeln!(out, "sock {} {} {} {} {} => {}", kind, cap, if nb { 1 } else { 0 }, if manual { "m" } else { "a" }, ops.join(","), obs)
            .unwrap();
        count += 1;
    }
    // back-pressure on a non-blocking Unix socket: the receiver's queue fills, sends are refused (and counted
    // as dropped), the receiver drains, the same payload is retried and accepted
    let npress = if tier == "quick" { 40 } else { 1500 };
    for i in 0..npress {
        let kind = ["bunix", "unix", "bunixln", "bunix"][i % 4];
        let l = 1 + rng.below(30) as usize;
        let cap = if kind.starts_with('b') { format!("{}", rng.pick(&[0usize, 1, l, l + 1, l + 2, 2 * l + 2, 3 * l + 3])) } else { "-".to_string() };
        let mut ops: Vec<String> = Vec::new();
        for round in 0..(2 + rng.below(3)) {
            for j in 0..(12 + rng.below(8)) {
                let mut m = format!("p{}.{}.", round, j);
                while m.len() < l {
                    m.push('y');
                }
                m.truncate(l);
                ops.push(format!("e{}", hex(m.as_bytes())));
                if rng.chance(10) {
                    ops.push((*rng.pick(&["s", "f", "q"])).to_string());
                }
            }
            ops.push("s".to_string());
            ops.push("r".to_string());
            ops.push("f".to_string());
            ops.push("s".to_string());
            if rng.chance(50) {
                ops.push("r".to_string());
            }
        }
        let obs = run_sock(kind, &cap, true, "m", &ops);
        writeln!(out, "sock {} {} 1 m {} => {}", kind, cap, ops.join(","), obs).unwrap();
        count += 1;
    }
    // a receiver that starts late: a long run of refused sends (ENOENT), then the receiver binds and every
    // later send must reach it
    for (i, kind) in ["unixlate", "bunixlate", "unixlate", "bunixlate"].iter().enumerate() {
        let cap = if kind.starts_with('b') { ["1", "16"][i / 2].to_string() } else { "-".to_string() };
        let mut ops: Vec<String> = Vec::new();
        for j in 0..(if i < 2 { 130 } else { 260 }) {
            ops.push(format!("e{}", hex(format!("late.{}", j).as_bytes())));
        }
        ops.push("s".to_string());
        ops.push("R".to_string());
        for j in 0..6 {
            ops.push(format!("e{}", hex(format!("after.{}", j).as_bytes())));
        }
        ops.push("f".to_string());
        ops.push("s".to_string());
        let obs = run_sock(kind, &cap, false, "a", &ops);
        writeln!(out, "sock {} {} 0 a {} => {}", kind, cap, ops.join(","), obs).unwrap();
        count += 1;
    }
    let nmt = if tier == "quick" { 24 } else { 600 };
    for i in 0..nmt {
        let kind = ["bspy", "bunix", "budp", "unix"][i % 4];
        let cap = [16usize, 64, 512][i % 3];
        let threads = 2 + (i * 3) % 15;
        let per = if kind == "unix" { 1500 } else if tier == "quick" { 60 } else { 150 + (i * 13) % 300 };
        let flushes = (i / 4) % 2 == 1;
        let obs = run_mt(kind, cap, threads, per, flushes);
        writeln!(out, "sockmt {} {} {} {} {} => {}", kind, cap, threads, per, if flushes { 1 } else { 0 }, obs).unwrap();
        count += 1;
    }
    for kind in ["unixgone", "udp"] {
        writeln!(out, "sockbig {} => {}", kind, run_big(kind)).unwrap();
        count += 1;
    }
    for kind in ["bunix", "unix"] {
        writeln!(out, "sockstrace {} => {}", kind, run_strace(kind)).unwrap();
        count += 1;
    }
    writeln!(out, "sockctor => {}", run_ctor_empty()).unwrap();
    count += 1;
    for kind in ["budp", "bunix"] {
        let n = if tier == "quick" { 100000 } else { 2000000 };
        writeln!(out, "sockflushrace {} {} => {}", kind, n, run_flushrace(kind, n)).unwrap();
        count += 1;
    }
    for kind in ["udp", "budp"] {
        for n in if tier == "quick" { vec![8usize, 20] } else { vec![4usize, 8, 20, 100] } {
            writeln!(out, "sockcr {} {} => {}", kind, n, run_cr(kind, n)).unwrap();
            count += 1;
        }
    }
    for cap in if tier == "quick" { vec![64usize] } else { vec![16usize, 64, 512] } {
        writeln!(out, "socklock {} => {}", cap, run_lock(cap)).unwrap();
        count += 1;
    }
    eprintln!("sock: {} cases", count);
}
