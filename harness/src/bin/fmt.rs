//! Engine `fmt`: drives `StatsdClient` (all 24 entry points incl. incr/decr, plain / tagged try_send /
//! tagged quiet send forms, every builder option), the standalone metric constructors, a scripted
//! `MetricSink` and a recording error handler.
//!
//!   fmt <prefix> <tags> <cid> <calls> => <obs>
//!     tags  : `-` | comma list of `<khex>:<vhex>` (key:value) or `~<vhex>` (bare value)
//!     cid   : `~` (none) | hex
//!     calls : `;` list of `<entry>/<form>/<keyhex>/<value>/<bops>/<sink>`
//!       form  : p (plain) | t (…_with_tags(..).<bops>.try_send()) | s (…_with_tags(..).<bops>.send())
//!       value : n | <i64> | <u64> | f<bits16hex>=<text> | <secs>s<nanos> | [] | `_`-joined list of those
//!       bops  : `-` | `+` list of T<khex>:<vhex> | V<vhex> | C<hex> | S<u64> | R<f64 token>
//!       sink  : a (accept) | b<n> (accept, reporting n bytes; bm = usize::MAX) | r<k> (refuse with
//!               io::ErrorKind index k, unique token = call index+1)
//!     obs   : `;` list of `<result>/<emits>/<handler>`
//!       result  : ok:<hex of as_metric_str> | inv | io:<k>:<tok> | unit | panic
//!       emits   : `~` | comma list of hex strings the sink received during the call
//!       handler : `~` | comma list of inv | io:<k>:<tok>
//!   std <ctor> <prefixhex> <keyhex> <value> => <hex>
//!   raw <texthex> <sink> <s|c> => <result>/<emits>/<handler>      MetricBackend::send_metric / consume_error
//!   val <variant> <value> => <hex of format!("{}", MetricValue)> | panic
//!
//! f64 text is produced here with `format!("{}", x)`, independently of cadence.

use cadence::prelude::*;
use cadence::{
    Counter, Distribution, Gauge, Histogram, Meter, Metric, MetricBuilder, MetricError, MetricSink, Set,
    StatsdClient, Timer,
};
use cadence_verif_harness::*;
use std::collections::VecDeque;
use std::io::{self, BufRead, Write};
use std::panic::{catch_unwind, AssertUnwindSafe};
use std::sync::{Arc, Mutex};
use std::time::Duration;

/// what the scripted sink answers: accept (reporting the metric's length), accept reporting some
/// other byte count (a sink may report anything, e.g. 0 when it buffers), or refuse
#[derive(Clone, Copy)]
enum Ans {
    Accept,
    AcceptReporting(usize),
    Refuse(usize),
    /// refuse with an OS error (`io::Error::from_raw_os_error`), e.g. ENOBUFS, EAGAIN, ECONNREFUSED
    RefuseOs(i32),
}

#[derive(Default)]
struct SinkState {
    script: VecDeque<Ans>,
    received: Vec<String>,
    tok: u64,
    /// what the next `flush` answers (None: Ok)
    flush_script: Option<Ans>,
    flushes: usize,
}

struct ScriptedSink(Arc<Mutex<SinkState>>);

impl MetricSink for ScriptedSink {
    fn emit(&self, metric: &str) -> io::Result<usize> {
        let mut s = self.0.lock().unwrap();
        s.received.push(metric.to_string());
        match s.script.pop_front().unwrap_or(Ans::Accept) {
            Ans::Accept => Ok(metric.len()),
            Ans::AcceptReporting(n) => Ok(n),
            Ans::Refuse(k) => {
                let t = s.tok;
                Err(tok_err(k, t))
            }
            Ans::RefuseOs(n) => Err(io::Error::from_raw_os_error(n)),
        }
    }
    fn flush(&self) -> io::Result<()> {
        let mut s = self.0.lock().unwrap();
        s.flushes += 1;
        match s.flush_script.take() {
            Some(Ans::Refuse(k)) => {
                let t = s.tok;
                Err(tok_err(k, t))
            }
            Some(Ans::RefuseOs(n)) => Err(io::Error::from_raw_os_error(n)),
            _ => Ok(()),
        }
    }
}

fn merr_repr(e: &MetricError) -> String {
    use std::error::Error;
    match e.kind() {
        cadence::ErrorKind::InvalidInput => "inv".to_string(),
        cadence::ErrorKind::IoError => match e.source().and_then(|s| s.downcast_ref::<io::Error>()) {
            // an OS error is identified by its errno (token 1000000 + errno)
            Some(i) if i.raw_os_error().is_some() => format!("io:os:{}", 1000000 + i.raw_os_error().unwrap()),
            Some(i) => format!("io:{}", err_repr(i)),
            None => "io:?:?".to_string(),
        },
    }
}

#[derive(Clone, Debug)]
enum Val {
    None,
    I(i64),
    U(u64),
    F(f64),
    D(Duration),
    VU(Vec<u64>),
    VF(Vec<f64>),
    VD(Vec<Duration>),
}

fn f64_tok(x: f64) -> String {
    format!("f{:016x}={}", x.to_bits(), x)
}

fn parse_f64(t: &str) -> f64 {
    let h = &t[1..17];
    f64::from_bits(u64::from_str_radix(h, 16).unwrap())
}

fn parse_dur(t: &str) -> Duration {
    let mut it = t.split('s');
    let s: u64 = it.next().unwrap().parse().unwrap();
    let n: u32 = it.next().unwrap().parse().unwrap();
    Duration::new(s, n)
}

fn dur_tok(d: &Duration) -> String {
    format!("{}s{}", d.as_secs(), d.subsec_nanos())
}

/// value type expected by an entry point
fn entry_type(entry: &str) -> &'static str {
    match entry {
        "count_i64" | "set_i64" => "i64",
        "count_i32" => "i32",
        "count_u32" => "u32",
        "incr" | "decr" => "none",
        "count_u64" | "time_u64" | "gauge_u64" | "meter_u64" | "hist_u64" | "dist_u64" => "u64",
        "gauge_f64" | "hist_f64" | "dist_f64" => "f64",
        "time_dur" | "hist_dur" => "dur",
        "time_vu64" | "hist_vu64" | "dist_vu64" => "vu64",
        "hist_vf64" | "dist_vf64" => "vf64",
        "time_vdur" | "hist_vdur" => "vdur",
        _ => "?",
    }
}

const ENTRIES: [&str; 24] = [
    "count_i64", "count_i32", "count_u64", "count_u32", "incr", "decr", "time_u64", "time_dur", "time_vu64",
    "time_vdur", "gauge_u64", "gauge_f64", "meter_u64", "hist_u64", "hist_f64", "hist_dur", "hist_vu64",
    "hist_vf64", "hist_vdur", "dist_u64", "dist_f64", "dist_vu64", "dist_vf64", "set_i64",
];

fn parse_val(ty: &str, t: &str) -> Option<Val> {
    let list = |t: &str| -> Vec<String> {
        if t == "[]" {
            vec![]
        } else {
            t.split('_').map(|x| x.to_string()).collect()
        }
    };
    Some(match ty {
        "none" => Val::None,
        "i64" | "i32" => Val::I(t.parse().ok()?),
        "u64" | "u32" => Val::U(t.parse().ok()?),
        "f64" => Val::F(parse_f64(t)),
        "dur" => Val::D(parse_dur(t)),
        "vu64" => Val::VU(list(t).iter().map(|x| x.parse().unwrap()).collect()),
        "vf64" => Val::VF(list(t).iter().map(|x| parse_f64(x)).collect()),
        "vdur" => Val::VD(list(t).iter().map(|x| parse_dur(x)).collect()),
        _ => return None,
    })
}

#[derive(Clone, Debug)]
enum BOp {
    Tag(String, String),
    TagV(String),
    Cid(String),
    Ts(u64),
    Rate(f64),
}

fn s_of(h: &str) -> String {
    String::from_utf8(unhex(h)).unwrap_or_default()
}

fn parse_bops(t: &str) -> Vec<BOp> {
    if t == "-" {
        return vec![];
    }
    t.split('+')
        .map(|x| {
            let (c, r) = x.split_at(1);
            match c {
                "T" => {
                    let mut it = r.splitn(2, ':');
                    let k = s_of(it.next().unwrap());
                    let v = s_of(it.next().unwrap());
                    BOp::Tag(k, v)
                }
                "V" => BOp::TagV(s_of(r)),
                "C" => BOp::Cid(s_of(r)),
                "S" => BOp::Ts(r.parse().unwrap()),
                _ => BOp::Rate(parse_f64(r)),
            }
        })
        .collect()
}

fn finish<'m, 'c, T>(mut b: MetricBuilder<'m, 'c, T>, bops: &'m [BOp], form: &str) -> String
where
    T: Metric + From<String> + std::fmt::Debug,
{
    for op in bops {
        b = match op {
            BOp::Tag(k, v) => b.with_tag(k, v),
            BOp::TagV(v) => b.with_tag_value(v),
            BOp::Cid(c) => b.with_container_id(c),
            BOp::Ts(t) => b.with_timestamp(*t),
            BOp::Rate(r) => b.with_sampling_rate(*r),
        };
    }
    // formatting a builder must never panic either
    let _ = format!("{:?}", b);
    if form == "s" {
        b.send();
        "unit".to_string()
    } else {
        res_repr(b.try_send())
    }
}

fn res_repr<T: Metric>(r: Result<T, MetricError>) -> String {
    match r {
        Ok(m) => format!("ok:{}", hex(m.as_metric_str().as_bytes())),
        Err(e) => {
            // Display / Debug of the error type are public behaviour too (C20)
            let _ = format!("{} {:?}", e, e);
            merr_repr(&e)
        }
    }
}

fn do_call(client: &StatsdClient, entry: &str, form: &str, key: &str, val: &Val, bops: &[BOp]) -> String {
    macro_rules! go {
        ($plain:ident, $tagged:ident, $v:expr) => {
            if form == "p" {
                res_repr(client.$plain(key, $v))
            } else {
                finish(client.$tagged(key, $v), bops, form)
            }
        };
    }
    match (entry, val) {
        ("count_i64", Val::I(v)) => go!(count, count_with_tags, *v),
        ("count_i32", Val::I(v)) => go!(count, count_with_tags, *v as i32),
        ("count_u64", Val::U(v)) => go!(count, count_with_tags, *v),
        ("count_u32", Val::U(v)) => go!(count, count_with_tags, *v as u32),
        ("incr", _) => {
            if form == "p" {
                res_repr(client.incr(key))
            } else {
                finish(client.incr_with_tags(key), bops, form)
            }
        }
        ("decr", _) => {
            if form == "p" {
                res_repr(client.decr(key))
            } else {
                finish(client.decr_with_tags(key), bops, form)
            }
        }
        ("time_u64", Val::U(v)) => go!(time, time_with_tags, *v),
        ("time_dur", Val::D(v)) => go!(time, time_with_tags, *v),
        ("time_vu64", Val::VU(v)) => go!(time, time_with_tags, v.clone()),
        ("time_vdur", Val::VD(v)) => go!(time, time_with_tags, v.clone()),
        ("gauge_u64", Val::U(v)) => go!(gauge, gauge_with_tags, *v),
        ("gauge_f64", Val::F(v)) => go!(gauge, gauge_with_tags, *v),
        ("meter_u64", Val::U(v)) => go!(meter, meter_with_tags, *v),
        ("hist_u64", Val::U(v)) => go!(histogram, histogram_with_tags, *v),
        ("hist_f64", Val::F(v)) => go!(histogram, histogram_with_tags, *v),
        ("hist_dur", Val::D(v)) => go!(histogram, histogram_with_tags, *v),
        ("hist_vu64", Val::VU(v)) => go!(histogram, histogram_with_tags, v.clone()),
        ("hist_vf64", Val::VF(v)) => go!(histogram, histogram_with_tags, v.clone()),
        ("hist_vdur", Val::VD(v)) => go!(histogram, histogram_with_tags, v.clone()),
        ("dist_u64", Val::U(v)) => go!(distribution, distribution_with_tags, *v),
        ("dist_f64", Val::F(v)) => go!(distribution, distribution_with_tags, *v),
        ("dist_vu64", Val::VU(v)) => go!(distribution, distribution_with_tags, v.clone()),
        ("dist_vf64", Val::VF(v)) => go!(distribution, distribution_with_tags, v.clone()),
        ("set_i64", Val::I(v)) => go!(set, set_with_tags, *v),
        _ => "badcall".to_string(),
    }
}

fn list_or<T: AsRef<str>>(v: &[T], empty: &str) -> String {
    if v.is_empty() {
        empty.to_string()
    } else {
        v.iter().map(|x| x.as_ref().to_string()).collect::<Vec<_>>().join(",")
    }
}

fn run_fmt(prefix: &str, tags: &str, cid: &str, calls: &str) -> String {
    let sink = Arc::new(Mutex::new(SinkState::default()));
    let handled: Arc<Mutex<Vec<String>>> = Arc::new(Mutex::new(Vec::new()));
    let h2 = handled.clone();
    let pfx = s_of(prefix);
    let mut b = StatsdClient::builder(&pfx, ScriptedSink(sink.clone()))
        .with_error_handler(move |e| h2.lock().unwrap().push(merr_repr(&e)));
    if tags != "-" {
        for t in tags.split(',') {
            if let Some(v) = t.strip_prefix('~') {
                b = b.with_tag_value(s_of(v));
            } else {
                let mut it = t.splitn(2, ':');
                let k = s_of(it.next().unwrap());
                let v = s_of(it.next().unwrap_or("-"));
                b = b.with_tag(k, v);
            }
        }
    }
    if cid != "~" {
        b = b.with_container_id(s_of(cid));
    }
    let client = b.build();
    let mut obs = Vec::new();
    for (i, call) in calls.split(';').enumerate() {
        let f: Vec<&str> = call.split('/').collect();
        if f.len() != 6 {
            obs.push("malformed/~/~".to_string());
            continue;
        }
        let (entry, form, key, valt, bopt, sinkt) = (f[0], f[1], s_of(f[2]), f[3], f[4], f[5]);
        let val = match parse_val(entry_type(entry), valt) {
            Some(v) => v,
            None => {
                obs.push("malformed/~/~".to_string());
                continue;
            }
        };
        let bops = parse_bops(bopt);
        {
            let mut s = sink.lock().unwrap();
            s.script.clear();
            s.script.push_back(if sinkt == "a" {
                Ans::Accept
            } else if let Some(n) = sinkt.strip_prefix('b') {
                Ans::AcceptReporting(if n == "m" { usize::MAX } else { n.parse().unwrap_or(0) })
            } else if let Some(n) = sinkt.strip_prefix('o') {
                Ans::RefuseOs(n.parse().unwrap_or(5))
            } else {
                Ans::Refuse(sinkt[1..].parse().unwrap())
            });
            s.received.clear();
            s.tok = i as u64 + 1;
        }
        handled.lock().unwrap().clear();
        let r = catch_unwind(AssertUnwindSafe(|| {
            let _ = format!("{:?}", client);
            do_call(&client, entry, form, &key, &val, &bops)
        }));
        let res = r.unwrap_or_else(|_| "panic".to_string());
        let em: Vec<String> = sink.lock().unwrap().received.iter().map(|m| hex(m.as_bytes())).collect();
        let hd = handled.lock().unwrap().clone();
        obs.push(format!("{}/{}/{}", res, list_or(&em, "~"), list_or(&hd, "~")));
    }
    obs.join(";")
}

fn run_std(ctor: &str, prefix: &str, key: &str, valt: &str) -> String {
    let p = s_of(prefix);
    let k = s_of(key);
    let r = catch_unwind(AssertUnwindSafe(|| -> String {
        match ctor {
            "Counter" => Counter::new(&p, &k, valt.parse().unwrap()).as_metric_str().to_string(),
            "Timer" => Timer::new(&p, &k, valt.parse().unwrap()).as_metric_str().to_string(),
            "Gauge" => Gauge::new(&p, &k, valt.parse().unwrap()).as_metric_str().to_string(),
            "Gauge_f64" => Gauge::new_f64(&p, &k, parse_f64(valt)).as_metric_str().to_string(),
            "Meter" => Meter::new(&p, &k, valt.parse().unwrap()).as_metric_str().to_string(),
            "Histogram" => Histogram::new(&p, &k, valt.parse().unwrap()).as_metric_str().to_string(),
            "Histogram_f64" => Histogram::new_f64(&p, &k, parse_f64(valt)).as_metric_str().to_string(),
            "Distribution" => Distribution::new(&p, &k, valt.parse().unwrap()).as_metric_str().to_string(),
            "Distribution_f64" => Distribution::new_f64(&p, &k, parse_f64(valt)).as_metric_str().to_string(),
            "Set" => Set::new(&p, &k, valt.parse().unwrap()).as_metric_str().to_string(),
            _ => "?".to_string(),
        }
    }));
    match r {
        Ok(s) => hex(s.as_bytes()),
        Err(_) => "panic".to_string(),
    }
}

/// `MetricBackend::send_metric` / `consume_error` used directly, as an extension crate would with its
/// own `Metric` type:  raw <prefix> <texthex> <sink> <mode: s (send_metric) | c (consume an invalid-input error)>
struct RawMetric(String);
impl Metric for RawMetric {
    fn as_metric_str(&self) -> &str {
        &self.0
    }
}

fn run_raw(texth: &str, sinkt: &str, mode: &str) -> String {
    use cadence::ext::MetricBackend;
    let sink = Arc::new(Mutex::new(SinkState::default()));
    let handled: Arc<Mutex<Vec<String>>> = Arc::new(Mutex::new(Vec::new()));
    let h2 = handled.clone();
    let client = StatsdClient::builder("ignored.prefix", ScriptedSink(sink.clone()))
        .with_tag("ignored", "tag")
        .with_error_handler(move |e| h2.lock().unwrap().push(merr_repr(&e)))
        .build();
    {
        let mut s = sink.lock().unwrap();
        s.script.push_back(if sinkt == "a" {
            Ans::Accept
        } else if let Some(n) = sinkt.strip_prefix('b') {
            Ans::AcceptReporting(n.parse().unwrap_or(0))
        } else if let Some(n) = sinkt.strip_prefix('o') {
            Ans::RefuseOs(n.parse().unwrap_or(5))
        } else {
            Ans::Refuse(sinkt[1..].parse().unwrap_or(15))
        });
        s.tok = 1;
    }
    let m = RawMetric(s_of(texth));
    let res = catch_unwind(AssertUnwindSafe(|| {
        if mode == "c" {
            client.consume_error(MetricError::from((cadence::ErrorKind::InvalidInput, "custom")));
            "unit".to_string()
        } else {
            match client.send_metric(&m) {
                Ok(()) => "ok".to_string(),
                Err(e) => merr_repr(&e),
            }
        }
    }))
    .unwrap_or_else(|_| "panic".to_string());
    let em: Vec<String> = sink.lock().unwrap().received.iter().map(|m| hex(m.as_bytes())).collect();
    let hd = handled.lock().unwrap().clone();
    format!("{}/{}/{}", res, list_or(&em, "~"), list_or(&hd, "~"))
}

/// `impl Display for MetricValue` (public through `cadence::ext`), every variant, empty lists included
fn run_val(variant: &str, valt: &str) -> String {
    use cadence::ext::MetricValue;
    let items: Vec<String> = if valt == "[]" { vec![] } else { valt.split('_').map(|x| x.to_string()).collect() };
    let v = match variant {
        "signed" => MetricValue::Signed(valt.parse().unwrap_or(0)),
        "unsigned" => MetricValue::Unsigned(valt.parse().unwrap_or(0)),
        "float" => MetricValue::Float(parse_f64(valt)),
        "psigned" => MetricValue::PackedSigned(items.iter().map(|x| x.parse().unwrap_or(0)).collect()),
        "punsigned" => MetricValue::PackedUnsigned(items.iter().map(|x| x.parse().unwrap_or(0)).collect()),
        _ => MetricValue::PackedFloat(items.iter().map(|x| parse_f64(x)).collect()),
    };
    match catch_unwind(AssertUnwindSafe(|| format!("{}", v))) {
        Ok(s) => hex(s.as_bytes()),
        Err(_) => "panic".to_string(),
    }
}

/// run one case in the sibling binary built with debug assertions and overflow checks off (profile `nodebug`)
fn run_in_nodebug(case: &str) -> String {
    use std::io::Read;
    let mut exe = std::env::current_exe().unwrap();
    let name = exe.file_name().unwrap().to_owned();
    exe.pop();
    exe.pop();
    exe.push("nodebug");
    exe.push(name);
    let child = std::process::Command::new(exe)
        .arg("replay")
        .stdin(std::process::Stdio::piped())
        .stdout(std::process::Stdio::piped())
        .stderr(std::process::Stdio::null())
        .spawn();
    let mut child = match child {
        Ok(c) => c,
        Err(_) => return "nodebug-binary-missing".to_string(),
    };
    let _ = child.stdin.take().unwrap().write_all(format!("{}\n", case).as_bytes());
    let mut out = String::new();
    let _ = child.stdout.take().unwrap().read_to_string(&mut out);
    let _ = child.wait();
    match out.trim().split(" => ").nth(1) {
        Some(o) => o.to_string(),
        None => "nodebug-child-crashed".to_string(),
    }
}

struct Refuser;
impl MetricSink for Refuser {
    fn emit(&self, _m: &str) -> io::Result<usize> {
        Err(io::Error::new(io::ErrorKind::Other, "refused"))
    }
}

/// The error handler and quiet sends under stress: every failed quiet send reaches the handler exactly once,
/// (a) after an earlier handler invocation panicked, (b) when the handler itself makes a failing quiet send on
/// the same client, (c) while another thread's handler invocation is still running.  Prints the number of
/// handler invocations of each scenario (2 each).
fn run_hdl() -> String {
    use std::sync::atomic::{AtomicUsize, Ordering};
    let a = {
        let n = Arc::new(AtomicUsize::new(0));
        let n2 = n.clone();
        let client = StatsdClient::builder("p", Refuser)
            .with_error_handler(move |_e| {
                if n2.fetch_add(1, Ordering::SeqCst) == 0 {
                    panic!("handler panic");
                }
            })
            .build();
        let _ = catch_unwind(AssertUnwindSafe(|| client.count_with_tags("k", 1).send()));
        let _ = catch_unwind(AssertUnwindSafe(|| client.count_with_tags("k", 2).send()));
        n.load(Ordering::SeqCst)
    };
    let b = {
        let n = Arc::new(AtomicUsize::new(0));
        let n2 = n.clone();
        let slot: Arc<Mutex<Option<Arc<StatsdClient>>>> = Arc::new(Mutex::new(None));
        let slot2 = slot.clone();
        let client = Arc::new(
            StatsdClient::builder("p", Refuser)
                .with_error_handler(move |_e| {
                    if n2.fetch_add(1, Ordering::SeqCst) == 0 {
                        let inner = slot2.lock().unwrap().clone();
                        if let Some(c) = inner {
                            c.count_with_tags("from.handler", 1).send();
                        }
                    }
                })
                .build(),
        );
        *slot.lock().unwrap() = Some(client.clone());
        let _ = catch_unwind(AssertUnwindSafe(|| client.gauge_with_tags("k", 1u64).send()));
        *slot.lock().unwrap() = None;
        n.load(Ordering::SeqCst)
    };
    let c = {
        let n = Arc::new(AtomicUsize::new(0));
        let n2 = n.clone();
        let second_done = Arc::new(AtomicUsize::new(0));
        let sd2 = second_done.clone();
        let first_in = Arc::new(AtomicUsize::new(0));
        let fi2 = first_in.clone();
        let client = Arc::new(
            StatsdClient::builder("p", Refuser)
                .with_error_handler(move |_e| {
                    if n2.fetch_add(1, Ordering::SeqCst) == 0 {
                        fi2.store(1, Ordering::SeqCst);
                        // parked until the other thread's failed send has returned (or 2 s)
                        let t0 = std::time::Instant::now();
                        while sd2.load(Ordering::SeqCst) == 0 && t0.elapsed() < Duration::from_secs(2) {
                            std::thread::yield_now();
                        }
                    }
                })
                .build(),
        );
        let c1 = client.clone();
        let t1 = std::thread::spawn(move || {
            let _ = catch_unwind(AssertUnwindSafe(|| c1.count_with_tags("k", 1).send()));
        });
        let t0 = std::time::Instant::now();
        while first_in.load(Ordering::SeqCst) == 0 && t0.elapsed() < Duration::from_secs(2) {
            std::thread::yield_now();
        }
        let c2 = client.clone();
        let t2 = std::thread::spawn(move || {
            let _ = catch_unwind(AssertUnwindSafe(|| c2.count_with_tags("k", 2).send()));
        });
        let _ = t2.join();
        let seen = n.load(Ordering::SeqCst);
        second_done.store(1, Ordering::SeqCst);
        let _ = t1.join();
        seen
    };
    format!("a{},b{},c{}", a, b, c)
}

fn run_line(line: &str) -> Option<String> {
    let line = line.split(" => ").next().unwrap().trim();
    if line.is_empty() || line.starts_with('#') {
        return None;
    }
    let f: Vec<&str> = line.split(' ').collect();
    match f[0] {
        "fmt" if f.len() == 5 => Some(format!("{} => {}", line, run_fmt(f[1], f[2], f[3], f[4]))),
        "std" if f.len() == 5 => Some(format!("{} => {}", line, run_std(f[1], f[2], f[3], f[4]))),
        "val" if f.len() == 3 => Some(format!("{} => {}", line, run_val(f[1], f[2]))),
        "raw" if f.len() == 4 => Some(format!("{} => {}", line, run_raw(f[1], f[2], f[3]))),
        "hdl" => Some(format!("hdl => {}", run_hdl())),
        "fmtn" if f.len() == 5 => Some(format!("{} => {}", line, run_in_nodebug(&format!("fmt {} {} {} {}", f[1], f[2], f[3], f[4])))),
        _ => Some(format!("{} => malformed", line)),
    }
}

// ------------------------------------------------------------------------------------------------
// generators

const STRS: [&str; 18] = [
    "k", "some.key", "a", "user", "web-01", "x_y", "日本", "é", "", "a.b.", "..", "with space", "UPPER", "0", " lead",
    "trail ", "tab\t", " ",
];
const HOSTILE: [&str; 10] = ["a:b", "a|b", "#x", "a,b", "@r", "l\nm", "|#", "c:", "T1", ""];

fn gen_str(rng: &mut Rng, hostile: bool) -> String {
    if hostile && rng.chance(50) {
        if rng.below(1000) < 2 {
            return "k".repeat(*rng.pick(&[1000usize, 8192, 40000, 65507, 70000]));
        }
        return rng.pick(&HOSTILE).to_string();
    }
    if rng.chance(20) {
        let n = rng.range(1, 12) as usize;
        let mut s = String::new();
        for _ in 0..n {
            s.push(*rng.pick(&['a', 'b', 'z', 'Q', '0', '9', '.', '_', '-', 'é', '本']));
        }
        return s;
    }
    rng.pick(&STRS).to_string()
}

const U64_EDGES: [u64; 16] = [
    0, 1, 9, 10, 99, 100, 255, 256, 65535, 4294967295, 4294967296, 9223372036854775807, 9223372036854775808,
    18446744073709551614, 18446744073709551615, 1000000000000000000,
];
const I64_EDGES: [i64; 14] = [
    0, 1, -1, 9, -9, 10, -10, 2147483647, -2147483648, 2147483648, -2147483649, 9223372036854775807,
    -9223372036854775808, -9223372036854775807,
];
const F64_EDGES: [u64; 26] = [
    0x0000000000000000, 0x8000000000000000, 0x3ff0000000000000, 0xbff0000000000000, 0x0000000000000001,
    0x000fffffffffffff, 0x0010000000000000, 0x7fefffffffffffff, 0xffefffffffffffff, 0x7ff0000000000000,
    0xfff0000000000000, 0x7ff8000000000000, 0x3fb999999999999a, 0x3fd3333333333333, 0x44b52d02c7e14af6,
    0x4340000000000001, 0x4340000000000000, 0x7e37e43c8800759c, 0x3fe0000000000000, 0x3f50624dd2f1a9fc,
    0x4059000000000000, 0x3ff8000000000000, 0x400921fb54442d18, 0x3cb0000000000000, 0x0006123400000000,
    0x4202a05f20000000,
];

fn gen_u64(rng: &mut Rng) -> u64 {
    match rng.below(4) {
        0 => *rng.pick(&U64_EDGES),
        1 => {
            let b = rng.below(64);
            let p = 1u64 << b;
            match rng.below(3) {
                0 => p,
                1 => p.wrapping_sub(1),
                _ => p.wrapping_add(1),
            }
        }
        2 => rng.below(1000),
        _ => rng.next(),
    }
}

fn gen_i64(rng: &mut Rng) -> i64 {
    match rng.below(4) {
        0 => *rng.pick(&I64_EDGES),
        1 => gen_u64(rng) as i64,
        2 => -(rng.below(1000) as i64),
        _ => rng.next() as i64,
    }
}

fn gen_f64(rng: &mut Rng) -> f64 {
    match rng.below(4) {
        0 => f64::from_bits(*rng.pick(&F64_EDGES)),
        1 => (rng.below(2000) as f64 - 1000.0) / *rng.pick(&[1.0, 2.0, 4.0, 8.0, 10.0, 100.0, 1000.0]),
        2 => {
            let e = rng.range(0, 40) as i32 - 20;
            (rng.below(100000) as f64) * 10f64.powi(e)
        }
        _ => {
            let b = rng.next();
            // full random bit patterns print up to ~330 digits; keep most exponents moderate
            if rng.chance(15) {
                f64::from_bits(b)
            } else {
                let e = 1023 + rng.range(0, 120) - 60;
                f64::from_bits((b & 0x800f_ffff_ffff_ffff) | (e << 52))
            }
        }
    }
}

fn gen_dur(rng: &mut Rng) -> Duration {
    const MS_S: u64 = 18446744073709551; // u64::MAX / 1000
    const NS_S: u64 = 18446744073; // u64::MAX / 10^9
    match rng.below(14) {
        0 => Duration::new(0, 0),
        1 => Duration::new(0, 999_999),
        2 => Duration::new(0, 1_000_000),
        3 => Duration::new(MS_S, 615_999_999),
        4 => Duration::new(MS_S, 616_000_000),
        5 => Duration::new(MS_S, 615_000_000),
        6 => Duration::new(MS_S + 1, 0),
        7 => Duration::new(NS_S, 709_551_615),
        8 => Duration::new(NS_S, 709_551_616),
        9 => Duration::new(u64::MAX, 999_999_999),
        10 => Duration::new(rng.below(100000), rng.below(1_000_000_000) as u32),
        11 => Duration::new(NS_S - rng.below(3), rng.below(1_000_000_000) as u32),
        12 => Duration::new(MS_S - rng.below(3), rng.below(1_000_000_000) as u32),
        _ => Duration::new(rng.next() >> rng.below(64), rng.below(1_000_000_000) as u32),
    }
}

fn gen_val(rng: &mut Rng, ty: &str) -> String {
    let n_list = |rng: &mut Rng| -> usize {
        match rng.below(60) {
            0..=4 => 0,
            5..=9 => 1,
            59 => rng.range(50, 300) as usize,
            _ => rng.range(1, 6) as usize,
        }
    };
    match ty {
        "none" => "n".to_string(),
        "i64" => gen_i64(rng).to_string(),
        "i32" => (gen_i64(rng) as i32).to_string(),
        "u64" => gen_u64(rng).to_string(),
        "u32" => (gen_u64(rng) as u32).to_string(),
        "f64" => f64_tok(gen_f64(rng)),
        "dur" => dur_tok(&gen_dur(rng)),
        "vu64" => {
            let n = n_list(rng);
            if n == 0 {
                "[]".into()
            } else {
                (0..n).map(|_| gen_u64(rng).to_string()).collect::<Vec<_>>().join("_")
            }
        }
        "vf64" => {
            let n = n_list(rng);
            if n == 0 {
                "[]".into()
            } else {
                (0..n).map(|_| f64_tok(gen_f64(rng))).collect::<Vec<_>>().join("_")
            }
        }
        "vdur" => {
            let n = n_list(rng);
            if n == 0 {
                "[]".into()
            } else {
                // mostly in range, so that lists are usually accepted; one overflow at a random index sometimes
                let over = if rng.chance(25) { Some(rng.below(n as u64) as usize) } else { None };
                (0..n)
                    .map(|i| {
                        if Some(i) == over {
                            if rng.chance(50) {
                                dur_tok(&Duration::new(18446744073709552 + rng.below(5), 0))
                            } else {
                                // overflows as nanoseconds, fits as milliseconds
                                dur_tok(&Duration::new(rng.range(18446744074, 18446744073709551), rng.below(1_000_000_000) as u32))
                            }
                        } else {
                            dur_tok(&Duration::new(rng.below(18446744073), rng.below(1_000_000_000) as u32))
                        }
                    })
                    .collect::<Vec<_>>()
                    .join("_")
            }
        }
        _ => "n".to_string(),
    }
}

fn h(s: &str) -> String {
    hex(s.as_bytes())
}

fn gen_cfg(rng: &mut Rng, hostile: bool) -> (String, String, String) {
    let prefix = match rng.below(10) {
        0 => "".to_string(),
        1 => "p.".to_string(),
        2 => "p..".to_string(),
        3 => "...".to_string(),
        4 => (*rng.pick(&["app.日本", "app ", " app", "app. ", " "])).to_string(),
        5 => ".lead".to_string(),
        _ => gen_str(rng, hostile),
    };
    let nt = match rng.below(6) {
        0 | 1 => 0,
        2 => 1,
        _ => rng.range(1, 6) as usize,
    };
    let tags: Vec<String> = (0..nt)
        .map(|_| {
            if rng.chance(35) {
                format!("~{}", h(&gen_str(rng, hostile)))
            } else {
                format!("{}:{}", h(&gen_str(rng, hostile)), h(&gen_str(rng, hostile)))
            }
        })
        .collect();
    let cid = if rng.chance(40) { h(&gen_str(rng, hostile)) } else { "~".to_string() };
    (h(&prefix), list_or(&tags, "-"), cid)
}

/// fixed corner configurations (independent of the seed): empty strings in every position of the client's
/// defaults, alone and repeated
fn corner_cfgs(out: &mut impl Write, rng: &mut Rng, count: &mut u64) {
    let tagsets = ["~-", "-:-", "~-,~-", "6b:-", "-:76", "~61", "~-,6b:76", "6b:76,~-", "-"];
    let cids = ["~", "-", "63"];
    let prefixes = ["-", "70", "702e"];
    for (i, tags) in tagsets.iter().enumerate() {
        for (j, cid) in cids.iter().enumerate() {
            let cfg = (prefixes[(i + j) % 3].to_string(), tags.to_string(), cid.to_string());
            let mut calls = Vec::new();
            for (n, entry) in ["count_i64", "time_u64", "gauge_u64", "meter_u64", "hist_u64", "dist_u64", "set_i64", "incr"].iter().enumerate() {
                let val = gen_val(rng, entry_type(entry));
                let bops = match n % 4 {
                    0 => "-".to_string(),
                    1 => "V-".to_string(),
                    2 => "T-:-".to_string(),
                    _ => "C-".to_string(),
                };
                calls.push(format!("{}/{}/{}/{}/{}/a", entry, if n % 2 == 0 { "t" } else { "s" }, h("k"), val, bops));
            }
            emit_fmt(out, &cfg, &calls, count);
        }
    }
}

/// builder ops for a subset mask of {rate, tags, container, timestamp}; extra repetitions sometimes
fn gen_bops(rng: &mut Rng, mask: u32, hostile: bool) -> String {
    let mut ops: Vec<String> = Vec::new();
    if mask & 1 != 0 {
        ops.push(format!("R{}", f64_tok(if rng.chance(70) { (rng.below(1000) as f64) / 1000.0 } else { gen_f64(rng) })));
        if rng.chance(15) {
            // a second with_sampling_rate call: the last one wins
            ops.push(format!("R{}", f64_tok((rng.below(1000) as f64) / 1000.0)));
        }
    }
    if mask & 2 != 0 {
        let n = rng.range(1, 4);
        for _ in 0..n {
            if rng.chance(35) {
                ops.push(format!("V{}", h(&gen_str(rng, hostile))));
            } else {
                ops.push(format!("T{}:{}", h(&gen_str(rng, hostile)), h(&gen_str(rng, hostile))));
            }
        }
    }
    if mask & 4 != 0 {
        ops.push(format!("C{}", h(&gen_str(rng, hostile))));
        if rng.chance(20) {
            ops.push(format!("C{}", h(&gen_str(rng, hostile))));
        }
    }
    if mask & 8 != 0 {
        ops.push(format!("S{}", gen_u64(rng)));
    }
    // builder calls may come in any order
    if rng.chance(50) {
        for i in (1..ops.len()).rev() {
            let j = rng.below(i as u64 + 1) as usize;
            ops.swap(i, j);
        }
    }
    if ops.is_empty() {
        "-".to_string()
    } else {
        ops.join("+")
    }
}

fn gen_sink(rng: &mut Rng, failpct: u64) -> String {
    if rng.chance(failpct) {
        if rng.chance(25) {
            // OS-coded errors: ENOBUFS, EAGAIN, ECONNREFUSED, EMSGSIZE, EPERM, ENOENT, EINTR
            format!("o{}", rng.pick(&[105, 11, 111, 90, 1, 2, 4]))
        } else {
            format!("r{}", rng.below(16))
        }
    } else if rng.chance(15) {
        // an accepting sink may report any byte count
        (*rng.pick(&["b0", "b1", "b7", "bm", "b4096"])).to_string()
    } else {
        "a".to_string()
    }
}

fn emit_fmt(out: &mut impl Write, cfg: &(String, String, String), calls: &[String], count: &mut u64) {
    let c = calls.join(";");
    if std::env::var("VERIF_DEBUG").is_ok() {
        eprintln!("CASE fmt {} {} {} {}", cfg.0, cfg.1, cfg.2, c);
    }
    let obs = run_fmt(&cfg.0, &cfg.1, &cfg.2, &c);
    writeln!(out, "fmt {} {} {} {} => {}", cfg.0, cfg.1, cfg.2, c, obs).unwrap();
    *count += 1;
}

/// for one configuration: every entry point x every form x all 16 subsets of optional sections
fn sweep_cfg(out: &mut impl Write, rng: &mut Rng, cfg: &(String, String, String), hostile: bool, count: &mut u64) {
    for entry in ENTRIES.iter() {
        let ty = entry_type(entry);
        for form in ["p", "t", "s"] {
            let masks: Vec<u32> = if form == "p" { vec![0] } else { (0..16).collect() };
            let mut calls = Vec::new();
            for mask in masks {
                let key = gen_str(rng, hostile);
                let val = gen_val(rng, ty);
                let bops = if form == "p" { "-".to_string() } else { gen_bops(rng, mask, hostile) };
                calls.push(format!("{}/{}/{}/{}/{}/{}", entry, form, h(&key), val, bops, gen_sink(rng, 15)));
            }
            emit_fmt(out, cfg, &calls, count);
        }
    }
}

/// call sequences mixing entries, forms, valid / invalid values and accept / refuse scripts (C03)
fn sequences(out: &mut impl Write, rng: &mut Rng, n: usize, hostile: bool, count: &mut u64) {
    for _ in 0..n {
        let cfg = gen_cfg(rng, hostile);
        let ncalls = rng.range(1, 30) as usize;
        let failpct = *rng.pick(&[0u64, 10, 50, 100]);
        let mut calls = Vec::new();
        for _ in 0..ncalls {
            let entry = *rng.pick(&ENTRIES);
            let form = *rng.pick(&["p", "t", "s"]);
            let key = gen_str(rng, hostile);
            let val = gen_val(rng, entry_type(entry));
            let mask = rng.below(16) as u32;
            let bops = if form == "p" { "-".to_string() } else { gen_bops(rng, mask, hostile) };
            calls.push(format!("{}/{}/{}/{}/{}/{}", entry, form, h(&key), val, bops, gen_sink(rng, failpct)));
        }
        emit_fmt(out, &cfg, &calls, count);
        // every 6th sequence also runs in the binary built without debug assertions
        if *count % 6 == 0 {
            let c = calls.join(";");
            let line = format!("fmtn {} {} {} {}", cfg.0, cfg.1, cfg.2, c);
            if let Some(l) = run_line(&line) {
                writeln!(out, "{}", l).unwrap();
                *count += 1;
            }
        }
    }
}

/// state kept per client across many calls: 300 quiet sends in a row that all fail, 300 that all succeed, a
/// mix; and keys / tag values longer than a UDP datagram
fn long_runs(out: &mut impl Write, rng: &mut Rng, count: &mut u64) {
    for failpct in [100u64, 0, 30] {
        let cfg = gen_cfg(rng, false);
        let mut calls = Vec::new();
        for i in 0..300 {
            let entry = *rng.pick(&ENTRIES);
            let form = if i % 10 == 9 { "t" } else { "s" };
            let val = gen_val(rng, entry_type(entry));
            calls.push(format!("{}/{}/{}/{}/{}/{}", entry, form, h("k"), val, "-", gen_sink(rng, failpct)));
        }
        emit_fmt(out, &cfg, &calls, count);
    }
    for n in [65507usize, 65508, 70000, 200000] {
        let cfg = gen_cfg(rng, false);
        let key = "k".repeat(n);
        let calls = vec![
            format!("count_i64/t/{}/1/-/a", h(&key)),
            format!("gauge_u64/s/{}/7/T{}:{}/r3", h("g"), h("t"), h(&key)),
        ];
        emit_fmt(out, &cfg, &calls, count);
    }
}

fn std_cases(out: &mut impl Write, rng: &mut Rng, n: usize, count: &mut u64) {
    for _ in 0..n {
        let ctor = *rng.pick(&[
            "Counter", "Timer", "Gauge", "Gauge_f64", "Meter", "Histogram", "Histogram_f64", "Distribution",
            "Distribution_f64", "Set",
        ]);
        let val = match ctor {
            "Counter" | "Set" => gen_i64(rng).to_string(),
            "Gauge_f64" | "Histogram_f64" | "Distribution_f64" => f64_tok(gen_f64(rng)),
            _ => gen_u64(rng).to_string(),
        };
        let hp = rng.chance(20);
        let p = h(&gen_str(rng, hp));
        let hk = rng.chance(20);
        let k = h(&gen_str(rng, hk));
        let obs = run_std(ctor, &p, &k, &val);
        writeln!(out, "std {} {} {} {} => {}", ctor, p, k, val, obs).unwrap();
        *count += 1;
    }
}

/// exhaustive {valid, invalid} x {accept, refuse} x {plain, try_send, send} x 24 entry points
fn exhaustive_outcomes(out: &mut impl Write, count: &mut u64) {
    let cfg = (h("p"), format!("{}:{}", h("dk"), h("dv")), "~".to_string());
    for entry in ENTRIES.iter() {
        let ty = entry_type(entry);
        let valid = match ty {
            "none" => "n",
            "i64" | "i32" => "-7",
            "u64" | "u32" => "7",
            "f64" => "f3ff8000000000000=1.5",
            "dur" => "1s500000000",
            "vu64" => "1_2_3",
            "vf64" => "f3ff8000000000000=1.5_f4000000000000000=2",
            "vdur" => "1s0_2s5000000",
            _ => "n",
        };
        let invalid: Option<&str> = match ty {
            "dur" => Some("18446744073709552s0"),
            "vdur" => Some("1s0_18446744073709552s0_2s0"),
            "vu64" | "vf64" => Some("[]"),
            _ => None,
        };
        for form in ["p", "t", "s"] {
            for sink in ["a", "b0", "b1", "r8", "r15", "r4", "r11", "o105", "o11"] {
                let mut calls = vec![format!("{}/{}/{}/{}/-/{}", entry, form, h("k"), valid, sink)];
                if let Some(iv) = invalid {
                    calls.push(format!("{}/{}/{}/{}/-/{}", entry, form, h("k"), iv, sink));
                }
                // a second valid call: the client is stateless
                calls.push(format!("{}/{}/{}/{}/-/a", entry, form, h("k2"), valid));
                emit_fmt(out, &cfg, &calls, count);
            }
        }
    }
}

fn main() {
    silence_panics();
    let args: Vec<String> = std::env::args().collect();
    let stdout = io::stdout();
    let mut out = io::BufWriter::new(stdout.lock());
    if args.get(1).map(|s| s.as_str()) == Some("replay") {
        for line in io::stdin().lock().lines() {
            if let Some(l) = run_line(&line.unwrap()) {
                writeln!(out, "{}", l).unwrap();
            }
        }
        return;
    }
    let tier = arg_value(&args, "--tier").unwrap_or("quick".into());
    let mut rng = Rng::new(env_seed());
    let mut count = 0u64;
    let (ncfg, nhost, nseq, nstd) = if tier == "quick" { (40, 8, 400, 600) } else { (600, 120, 8000, 20000) };
    exhaustive_outcomes(&mut out, &mut count);
    corner_cfgs(&mut out, &mut rng, &mut count);
    for _ in 0..ncfg {
        let cfg = gen_cfg(&mut rng, false);
        sweep_cfg(&mut out, &mut rng, &cfg, false, &mut count);
    }
    for _ in 0..nhost {
        let cfg = gen_cfg(&mut rng, true);
        sweep_cfg(&mut out, &mut rng, &cfg, true, &mut count);
    }
    sequences(&mut out, &mut rng, nseq, false, &mut count);
    sequences(&mut out, &mut rng, nseq / 4, true, &mut count);
    std_cases(&mut out, &mut rng, nstd, &mut count);
    long_runs(&mut out, &mut rng, &mut count);
    for _ in 0..(if tier == "quick" { 3 } else { 200 }) {
        writeln!(out, "hdl => {}", run_hdl()).unwrap();
        count += 1;
    }
    for i in 0..(nstd / 6) {
        let text = if i % 3 == 0 { gen_str(&mut rng, true) } else { format!("custom.metric:{}|x|#{}", gen_u64(&mut rng), gen_str(&mut rng, false)) };
        let sink = gen_sink(&mut rng, 30);
        let mode = if i % 5 == 4 { "c" } else { "s" };
        if let Some(l) = run_line(&format!("raw {} {} {}", h(&text), sink, mode)) {
            writeln!(out, "{}", l).unwrap();
            count += 1;
        }
    }
    for i in 0..(nstd / 4) {
        let variant = ["signed", "unsigned", "float", "psigned", "punsigned", "pfloat"][i % 6];
        let n = match rng.below(6) {
            0 => 0,
            1 => 1,
            _ => rng.range(2, 5) as usize,
        };
        let valt = match variant {
            "signed" => gen_i64(&mut rng).to_string(),
            "unsigned" => gen_u64(&mut rng).to_string(),
            "float" => f64_tok(gen_f64(&mut rng)),
            "psigned" => if n == 0 { "[]".into() } else { (0..n).map(|_| gen_i64(&mut rng).to_string()).collect::<Vec<_>>().join("_") },
            "punsigned" => if n == 0 { "[]".into() } else { (0..n).map(|_| gen_u64(&mut rng).to_string()).collect::<Vec<_>>().join("_") },
            _ => if n == 0 { "[]".into() } else { (0..n).map(|_| f64_tok(gen_f64(&mut rng))).collect::<Vec<_>>().join("_") },
        };
        if let Some(l) = run_line(&format!("val {} {}", variant, valt)) {
            writeln!(out, "{}", l).unwrap();
            count += 1;
        }
    }
    eprintln!("fmt: {} cases", count);
}
