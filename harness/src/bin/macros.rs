//! Engine `macros`: the seven `statsd_*!` macros on the global default client.  The global can be set
//! once per process, so every case runs in a fresh child process (`macros child`, case on stdin).
//!
//!   mac <prefixhex|UNSET> <tags> <cid> <invocations> => <obs>
//!   macn …  the same, the child process built with debug assertions and overflow checks off (profile `nodebug`)
//!     tags / cid as in engine fmt;  invocations: `;` list of <entry>/<keyhex>/<value>/<tagpairs>/<sink>
//!       or the marker SET: invocations before it run with no global client, then it is installed
//!       entry    : one of the 22 value-typed entry points (count_i64 … set_i64; no incr/decr), or `nest`:
//!                  statsd_gauge!(key, { statsd_count!("inner.calls", 1); value }) — an invocation inside an argument
//!       tagpairs : `-` | comma list of <khex>:<vhex>  (0..4 pairs: macro arity is static)
//!       sink     : a | r<k>
//!     obs : `;` list per invocation of comma lists of events, in order:
//!       <n>      the n-th argument expression was evaluated (0 key, 1 value, 2+2i / 3+2i tag i key / value)
//!       E<hex>   the sink was handed this string      H<err>  the client's error handler got this error
//!       PANIC    the invocation panicked

use cadence::{MetricError, MetricSink, StatsdClient};
use cadence_macros::{
    statsd_count, statsd_distribution, statsd_gauge, statsd_histogram, statsd_meter, statsd_set, statsd_time,
};
use cadence_verif_harness::*;
use std::collections::VecDeque;
use std::io::{self, BufRead, Read, Write};
use std::panic::{catch_unwind, AssertUnwindSafe};
use std::sync::Mutex;
use std::time::Duration;

static EVENTS: Mutex<Vec<String>> = Mutex::new(Vec::new());
static SCRIPT: Mutex<VecDeque<Option<usize>>> = Mutex::new(VecDeque::new());
static TOK: Mutex<u64> = Mutex::new(0);

fn ev(n: usize) {
    EVENTS.lock().unwrap().push(n.to_string());
}

struct Sink;
impl MetricSink for Sink {
    fn emit(&self, metric: &str) -> io::Result<usize> {
        EVENTS.lock().unwrap().push(format!("E{}", hex(metric.as_bytes())));
        match SCRIPT.lock().unwrap().pop_front().unwrap_or(None) {
            None => Ok(metric.len()),
            Some(k) => Err(tok_err(k, *TOK.lock().unwrap())),
        }
    }
    /// the macros never flush the sink
    fn flush(&self) -> io::Result<()> {
        EVENTS.lock().unwrap().push("F".to_string());
        Ok(())
    }
}

/// set for one invocation (`hnest`): the client's error handler itself invokes a macro, once
static HANDLER_EMITS: std::sync::atomic::AtomicBool = std::sync::atomic::AtomicBool::new(false);

fn merr_repr(e: &MetricError) -> String {
    use std::error::Error;
    match e.kind() {
        cadence::ErrorKind::InvalidInput => "inv".to_string(),
        cadence::ErrorKind::IoError => match e.source().and_then(|s| s.downcast_ref::<io::Error>()) {
            Some(i) => format!("io:{}", err_repr(i)),
            None => "io:?:?".to_string(),
        },
    }
}

fn s_of(h: &str) -> String {
    String::from_utf8(unhex(h)).unwrap_or_default()
}
fn parse_f64(t: &str) -> f64 {
    f64::from_bits(u64::from_str_radix(&t[1..17], 16).unwrap())
}
fn parse_dur(t: &str) -> Duration {
    let mut it = t.split('s');
    let s: u64 = it.next().unwrap().parse().unwrap();
    let n: u32 = it.next().unwrap().parse().unwrap();
    Duration::new(s, n)
}
fn list(t: &str) -> Vec<String> {
    if t == "[]" {
        vec![]
    } else {
        t.split('_').map(|x| x.to_string()).collect()
    }
}

/// invoke `$mac` with the key, the value and 0..4 tag pairs, every argument in a counting block
macro_rules! invoke {
    ($mac:ident, $key:expr, $val:expr, $tags:expr) => {{
        let key: &str = $key;
        let tags: &Vec<(String, String)> = $tags;
        match tags.len() {
            0 => { $mac!({ ev(0); key }, { ev(1); $val }); }
            1 => { $mac!({ ev(0); key }, { ev(1); $val },
                    { ev(2); tags[0].0.as_str() } => { ev(3); tags[0].1.as_str() }); }
            2 => { $mac!({ ev(0); key }, { ev(1); $val },
                    { ev(2); tags[0].0.as_str() } => { ev(3); tags[0].1.as_str() },
                    { ev(4); tags[1].0.as_str() } => { ev(5); tags[1].1.as_str() }); }
            3 => { $mac!({ ev(0); key }, { ev(1); $val },
                    { ev(2); tags[0].0.as_str() } => { ev(3); tags[0].1.as_str() },
                    { ev(4); tags[1].0.as_str() } => { ev(5); tags[1].1.as_str() },
                    { ev(6); tags[2].0.as_str() } => { ev(7); tags[2].1.as_str() }); }
            _ => { $mac!({ ev(0); key }, { ev(1); $val },
                    { ev(2); tags[0].0.as_str() } => { ev(3); tags[0].1.as_str() },
                    { ev(4); tags[1].0.as_str() } => { ev(5); tags[1].1.as_str() },
                    { ev(6); tags[2].0.as_str() } => { ev(7); tags[2].1.as_str() },
                    { ev(8); tags[3].0.as_str() } => { ev(9); tags[3].1.as_str() }); }
        }
    }};
}

fn do_invocation(entry: &str, key: &str, valt: &str, tags: &Vec<(String, String)>) -> bool {
    let vu = || -> Vec<u64> { list(valt).iter().map(|x| x.parse().unwrap()).collect() };
    let vf = || -> Vec<f64> { list(valt).iter().map(|x| parse_f64(x)).collect() };
    let vd = || -> Vec<Duration> { list(valt).iter().map(|x| parse_dur(x)).collect() };
    match entry {
        "count_i64" => invoke!(statsd_count, key, valt.parse::<i64>().unwrap(), tags),
        "count_i32" => invoke!(statsd_count, key, valt.parse::<i32>().unwrap(), tags),
        "count_u64" => invoke!(statsd_count, key, valt.parse::<u64>().unwrap(), tags),
        "count_u32" => invoke!(statsd_count, key, valt.parse::<u32>().unwrap(), tags),
        "time_u64" => invoke!(statsd_time, key, valt.parse::<u64>().unwrap(), tags),
        "time_dur" => invoke!(statsd_time, key, parse_dur(valt), tags),
        "time_vu64" => invoke!(statsd_time, key, vu(), tags),
        "time_vdur" => invoke!(statsd_time, key, vd(), tags),
        "gauge_u64" => invoke!(statsd_gauge, key, valt.parse::<u64>().unwrap(), tags),
        "gauge_f64" => invoke!(statsd_gauge, key, parse_f64(valt), tags),
        "meter_u64" => invoke!(statsd_meter, key, valt.parse::<u64>().unwrap(), tags),
        "hist_u64" => invoke!(statsd_histogram, key, valt.parse::<u64>().unwrap(), tags),
        "hist_f64" => invoke!(statsd_histogram, key, parse_f64(valt), tags),
        "hist_dur" => invoke!(statsd_histogram, key, parse_dur(valt), tags),
        "hist_vu64" => invoke!(statsd_histogram, key, vu(), tags),
        "hist_vf64" => invoke!(statsd_histogram, key, vf(), tags),
        "hist_vdur" => invoke!(statsd_histogram, key, vd(), tags),
        "dist_u64" => invoke!(statsd_distribution, key, valt.parse::<u64>().unwrap(), tags),
        "dist_f64" => invoke!(statsd_distribution, key, parse_f64(valt), tags),
        "dist_vu64" => invoke!(statsd_distribution, key, vu(), tags),
        "dist_vf64" => invoke!(statsd_distribution, key, vf(), tags),
        "set_i64" => invoke!(statsd_set, key, valt.parse::<i64>().unwrap(), tags),
        "apanic" => {
            // the value expression panics (caught by the caller): nothing is sent, and later invocations on this
            // thread are unaffected
            statsd_count!(
                {
                    ev(0);
                    key
                },
                {
                    ev(1);
                    if !key.is_empty() || key.is_empty() {
                        panic!("argument expression panics");
                    }
                    1i64
                }
            );
        }
        "hnest" => {
            // the handler of the global client invokes a macro itself (its metric is accepted)
            HANDLER_EMITS.store(true, std::sync::atomic::Ordering::SeqCst);
            let v = valt.parse::<u64>().unwrap();
            statsd_gauge!(
                {
                    ev(0);
                    key
                },
                {
                    ev(1);
                    v
                }
            );
            HANDLER_EMITS.store(false, std::sync::atomic::Ordering::SeqCst);
        }
        "nest" => {
            let v = valt.parse::<u64>().unwrap();
            statsd_gauge!(
                {
                    ev(0);
                    key
                },
                {
                    ev(1);
                    statsd_count!("inner.calls", 1i64);
                    v
                }
            );
        }
        _ => return false,
    }
    true
}

fn run_child(line: &str) -> String {
    let f: Vec<&str> = line.trim().split(' ').collect();
    if f.len() != 5 || (f[0] != "mac" && f[0] != "macn") {
        return "malformed".to_string();
    }
    let install = |f: &Vec<&str>| {
        let pfx = s_of(f[1]);
        let mut b = StatsdClient::builder(&pfx, Sink)
            .with_error_handler(|e| {
                EVENTS.lock().unwrap().push(format!("H{}", merr_repr(&e)));
                if HANDLER_EMITS.swap(false, std::sync::atomic::Ordering::SeqCst) {
                    statsd_count!("from.handler", 1i64);
                }
            });
        if f[2] != "-" {
            for t in f[2].split(',') {
                if let Some(v) = t.strip_prefix('~') {
                    b = b.with_tag_value(s_of(v));
                } else {
                    let mut it = t.splitn(2, ':');
                    let k = s_of(it.next().unwrap());
                    let v = s_of(it.next().unwrap_or("-"));
                    b = b.with_tag(k, v);
                }
            }
        }
        if f[3] != "~" {
            b = b.with_container_id(s_of(f[3]));
        }
        cadence_macros::set_global_default(b.build());
    };
    // invocations before the marker `SET` run with no global client; the marker installs it (same thread)
    let late = f[4].split(';').any(|x| x == "SET");
    if f[1] != "UNSET" && !late {
        install(&f);
    }
    let mut obs = Vec::new();
    for (i, inv) in f[4].split(';').enumerate() {
        if inv == "SET" {
            if f[1] != "UNSET" {
                install(&f);
            }
            obs.push("set".to_string());
            continue;
        }
        let p: Vec<&str> = inv.split('/').collect();
        if p.len() != 5 {
            obs.push("malformed".to_string());
            continue;
        }
        let key = s_of(p[1]);
        let tags: Vec<(String, String)> = if p[3] == "-" {
            vec![]
        } else {
            p[3].split(',')
                .map(|t| {
                    let mut it = t.splitn(2, ':');
                    (s_of(it.next().unwrap()), s_of(it.next().unwrap_or("-")))
                })
                .collect()
        };
        {
            let mut s = SCRIPT.lock().unwrap();
            s.clear();
            if p[0] == "nest" {
                s.push_back(None); // the inner invocation's metric is accepted
            }
            s.push_back(if p[4] == "a" { None } else { Some(p[4][1..].parse().unwrap()) });
            if p[0] == "hnest" {
                s.push_back(None); // the handler's own metric is accepted
            }
            *TOK.lock().unwrap() = i as u64 + 1;
            EVENTS.lock().unwrap().clear();
        }
        let r = catch_unwind(AssertUnwindSafe(|| do_invocation(p[0], &key, p[2], &tags)));
        let mut evs = EVENTS.lock().unwrap().clone();
        match r {
            Ok(true) => {}
            Ok(false) => evs.push("malformed".to_string()),
            Err(_) => evs.push("PANIC".to_string()),
        }
        obs.push(if evs.is_empty() { "-".to_string() } else { evs.join(",") });
    }
    obs.join(";")
}

fn run_case_in_child(case: &str) -> String {
    let mut exe = std::env::current_exe().unwrap();
    if case.starts_with("macn ") {
        // …/target/release/macros → …/target/nodebug/macros
        let name = exe.file_name().unwrap().to_owned();
        exe.pop();
        exe.pop();
        exe.push("nodebug");
        exe.push(name);
    }
    let mut child = std::process::Command::new(exe)
        .arg("child")
        .stdin(std::process::Stdio::piped())
        .stdout(std::process::Stdio::piped())
        .stderr(std::process::Stdio::piped())
        .spawn()
        .unwrap();
    child.stdin.take().unwrap().write_all(case.as_bytes()).unwrap();
    let mut out = String::new();
    child.stdout.take().unwrap().read_to_string(&mut out).unwrap();
    let mut errout = String::new();
    child.stderr.take().unwrap().read_to_string(&mut errout).unwrap();
    let st = child.wait().unwrap();
    // failures go to the client's error handler and nowhere else: nothing may be printed
    if !errout.trim().is_empty() || out.trim().lines().count() > 1 {
        return format!("{};PRINTED", out.trim().lines().last().unwrap_or(""));
    }
    if !st.success() && out.trim().is_empty() {
        return "child-crashed".to_string();
    }
    out.trim().to_string()
}

const ENTRIES: [(&str, &str); 22] = [
    ("count_i64", "i64"), ("count_i32", "i32"), ("count_u64", "u64"), ("count_u32", "u32"), ("time_u64", "u64"),
    ("time_dur", "dur"), ("time_vu64", "vu64"), ("time_vdur", "vdur"), ("gauge_u64", "u64"), ("gauge_f64", "f64"),
    ("meter_u64", "u64"), ("hist_u64", "u64"), ("hist_f64", "f64"), ("hist_dur", "dur"), ("hist_vu64", "vu64"),
    ("hist_vf64", "vf64"), ("hist_vdur", "vdur"), ("dist_u64", "u64"), ("dist_f64", "f64"), ("dist_vu64", "vu64"),
    ("dist_vf64", "vf64"), ("set_i64", "i64"),
];

fn gen_val(rng: &mut Rng, ty: &str) -> String {
    let f = |x: f64| format!("f{:016x}={}", x.to_bits(), x);
    match ty {
        "i64" => (*rng.pick(&[0i64, 1, -1, 42, -9223372036854775808, 9223372036854775807])).to_string(),
        "i32" => (*rng.pick(&[0i32, 7, -7, 2147483647, -2147483648])).to_string(),
        "u64" => (*rng.pick(&[0u64, 1, 99, 18446744073709551615])).to_string(),
        "u32" => (*rng.pick(&[0u32, 5, 4294967295])).to_string(),
        "f64" => f(*rng.pick(&[0.0, 1.5, -2.25, 1e21, 0.1])),
        "dur" => (*rng.pick(&["0s0", "1s500000000", "18446744073709551s615999999", "18446744073709552s0", "18446744073s709551616"])).to_string(),
        "vu64" => (*rng.pick(&["1_2_3", "7", "[]"])).to_string(),
        "vf64" => format!("{}_{}", f(1.5), f(2.0)),
        "vdur" => (*rng.pick(&["1s0_2s5000000", "1s0_18446744073709552s0", "[]"])).to_string(),
        _ => "0".to_string(),
    }
}

fn h(s: &str) -> String {
    hex(s.as_bytes())
}

fn main() {
    silence_panics();
    let args: Vec<String> = std::env::args().collect();
    if args.get(1).map(|s| s.as_str()) == Some("child") {
        let mut line = String::new();
        io::stdin().read_line(&mut line).unwrap();
        println!("{}", run_child(&line));
        return;
    }
    let stdout = io::stdout();
    let mut out = io::BufWriter::new(stdout.lock());
    if args.get(1).map(|s| s.as_str()) == Some("replay") {
        for line in io::stdin().lock().lines() {
            let line = line.unwrap();
            let case = line.split(" => ").next().unwrap().trim().to_string();
            if case.is_empty() || case.starts_with('#') {
                continue;
            }
            writeln!(out, "{} => {}", case, run_case_in_child(&case)).unwrap();
        }
        return;
    }
    let tier = arg_value(&args, "--tier").unwrap_or("quick".into());
    let mut rng = Rng::new(env_seed());
    let mut count = 0u64;
    let ncfg = if tier == "quick" { 60 } else { 1500 };
    let strs = ["k", "some.key", "a", "web-01", "日本", "", "x_y", "http:requests", "a|b", "l\nm", "#x", "a,b", "@t", ".lead", "..x", "trail."];
    for c in 0..ncfg {
        let unset = c % 12 == 11;
        let prefix = if unset { "UNSET".to_string() } else { h(*rng.pick(&["", "p", "app.", "a..", "日本"])) };
        let ntags = rng.below(4);
        let tags: Vec<String> = (0..ntags)
            .map(|_| if rng.chance(30) { format!("~{}", h(*rng.pick(&strs))) } else { format!("{}:{}", h(*rng.pick(&strs)), h(*rng.pick(&strs))) })
            .collect();
        let cid = if rng.chance(40) { h(*rng.pick(&strs)) } else { "~".to_string() };
        // every entry point at every tag arity 0..4, spread over the configurations
        let mut invs = Vec::new();
        for (j, (entry, ty)) in ENTRIES.iter().enumerate() {
            let arity = (j + c) % 5;
            let tp: Vec<String> = (0..arity).map(|_| format!("{}:{}", h(*rng.pick(&strs)), h(*rng.pick(&strs)))).collect();
            let sink = if rng.chance(20) { format!("r{}", rng.below(16)) } else { "a".to_string() };
            invs.push(format!(
                "{}/{}/{}/{}/{}",
                entry,
                h(*rng.pick(&strs)),
                gen_val(&mut rng, ty),
                if tp.is_empty() { "-".to_string() } else { tp.join(",") },
                sink
            ));
            if unset && invs.len() >= 3 {
                break;
            }
            // every 5th configured case installs the global only after two invocations (which must panic)
            if !unset && c % 5 == 4 && invs.len() == 2 {
                invs.push("SET".to_string());
                // the same two call sites again, now with the global client installed
                invs.push(invs[0].clone());
                invs.push(invs[1].clone());
            }
            if (j + c) % 7 == 3 {
                let sink = if rng.chance(30) { format!("r{}", rng.below(16)) } else { "a".to_string() };
                invs.push(format!("nest/{}/{}/-/{}", h(*rng.pick(&strs)), rng.below(100), sink));
            }
            if (j + c) % 11 == 5 {
                invs.push(format!("hnest/{}/{}/-/r{}", h(*rng.pick(&strs)), rng.below(100), rng.below(16)));
            }
        }
        // a run of invocations whose argument expression panics, then ordinary ones
        if !unset && c % 6 == 2 {
            let mut pre: Vec<String> = (0..(9 + c % 5)).map(|_| format!("apanic/{}/0/-/a", h(*rng.pick(&strs)))).collect();
            pre.append(&mut invs);
            invs = pre;
        }
        let case = format!("{} {} {} {} {}", if c % 2 == 1 { "macn" } else { "mac" }, prefix, if tags.is_empty() { "-".to_string() } else { tags.join(",") }, cid, invs.join(";"));
        writeln!(out, "{} => {}", case, run_case_in_child(&case)).unwrap();
        count += 1;
    }
    // the macros expanded inside a crate built with cfg(test) (harness/tests/macros_cfg_test.rs, built by the
    // orchestrator and copied next to this binary)
    {
        let mut exe = std::env::current_exe().unwrap();
        exe.pop();
        exe.push("macros_cfg_test");
        match std::process::Command::new(&exe).args(["--nocapture", "--test-threads=1"]).stderr(std::process::Stdio::null()).output() {
            Ok(o) => {
                for l in String::from_utf8_lossy(&o.stdout).lines() {
                    // libtest prints "test … ..." on the same line before the first println: keep the case part
                    if let Some(i) = l.find("mact ") {
                        writeln!(out, "{}", &l[i..]).unwrap();
                        count += 1;
                    }
                }
            }
            Err(_) => {
                writeln!(out, "mact unset => test-binary-missing").unwrap();
                count += 1;
            }
        }
    }
    eprintln!("macros: {} cases", count);
}
