//! Shared helpers for the correspondence engines: one PRNG, hex, the io::ErrorKind table,
//! panic capture.  Every random choice of every engine derives from one `Rng` state.

use std::io;

pub struct Rng(pub u64);

impl Rng {
    pub fn new(seed: u64) -> Rng {
        Rng(seed ^ 0x9E37_79B9_7F4A_7C15)
    }
    pub fn next(&mut self) -> u64 {
        self.0 = self.0.wrapping_add(0x9E37_79B9_7F4A_7C15);
        let mut z = self.0;
        z = (z ^ (z >> 30)).wrapping_mul(0xBF58_476D_1CE4_E5B9);
        z = (z ^ (z >> 27)).wrapping_mul(0x94D0_49BB_1331_11EB);
        z ^ (z >> 31)
    }
    pub fn below(&mut self, n: u64) -> u64 {
        if n == 0 {
            0
        } else {
            self.next() % n
        }
    }
    pub fn range(&mut self, lo: u64, hi: u64) -> u64 {
        lo + self.below(hi - lo + 1)
    }
    pub fn chance(&mut self, pct: u64) -> bool {
        self.below(100) < pct
    }
    pub fn pick<'a, T>(&mut self, xs: &'a [T]) -> &'a T {
        &xs[self.below(xs.len() as u64) as usize]
    }
}

pub fn hex(bytes: &[u8]) -> String {
    if bytes.is_empty() {
        return "-".to_string();
    }
    let mut s = String::with_capacity(bytes.len() * 2);
    for b in bytes {
        s.push_str(&format!("{:02x}", b));
    }
    s
}

pub fn unhex(s: &str) -> Vec<u8> {
    if s == "-" {
        return Vec::new();
    }
    let b = s.as_bytes();
    let mut out = Vec::with_capacity(b.len() / 2);
    let mut i = 0;
    while i + 1 < b.len() {
        let h = (b[i] as char).to_digit(16).unwrap() as u8;
        let l = (b[i + 1] as char).to_digit(16).unwrap() as u8;
        out.push(h * 16 + l);
        i += 2;
    }
    out
}

/// The io::ErrorKind variants the scripted sinks / writers can return, by index.
/// Index 4 is `Interrupted` (retried by `BufWriter::flush_buf`).
pub const KINDS: [io::ErrorKind; 32] = [
    io::ErrorKind::NotFound,
    io::ErrorKind::PermissionDenied,
    io::ErrorKind::ConnectionRefused,
    io::ErrorKind::ConnectionReset,
    io::ErrorKind::Interrupted,
    io::ErrorKind::ConnectionAborted,
    io::ErrorKind::NotConnected,
    io::ErrorKind::AddrInUse,
    io::ErrorKind::BrokenPipe,
    io::ErrorKind::AlreadyExists,
    io::ErrorKind::WouldBlock,
    io::ErrorKind::InvalidInput,
    io::ErrorKind::InvalidData,
    io::ErrorKind::TimedOut,
    io::ErrorKind::WriteZero,
    io::ErrorKind::Other,
    // (the first sixteen keep their historical indices: corpus and seeded-change replays name them)
    io::ErrorKind::NetworkDown,
    io::ErrorKind::NetworkUnreachable,
    io::ErrorKind::HostUnreachable,
    io::ErrorKind::AddrNotAvailable,
    io::ErrorKind::UnexpectedEof,
    io::ErrorKind::OutOfMemory,
    io::ErrorKind::Unsupported,
    io::ErrorKind::StorageFull,
    io::ErrorKind::ResourceBusy,
    io::ErrorKind::QuotaExceeded,
    io::ErrorKind::FileTooLarge,
    io::ErrorKind::ArgumentListTooLong,
    io::ErrorKind::Deadlock,
    io::ErrorKind::NotADirectory,
    io::ErrorKind::ReadOnlyFilesystem,
    io::ErrorKind::StaleNetworkFileHandle,
];

pub fn kind_index(k: io::ErrorKind) -> usize {
    KINDS.iter().position(|x| *x == k).unwrap_or(99)
}

/// An io::Error of kind index `k` carrying the unique token `tok` as its payload.
pub fn tok_err(k: usize, tok: u64) -> io::Error {
    io::Error::new(KINDS[k % KINDS.len()], format!("tok{}", tok))
}

/// `kind:token` of an io::Error made by `tok_err`; foreign errors give `kind:x`.
pub fn err_repr(e: &io::Error) -> String {
    let k = kind_index(e.kind());
    let t = e
        .get_ref()
        .map(|i| i.to_string())
        .and_then(|s| s.strip_prefix("tok").map(|x| x.to_string()))
        .unwrap_or_else(|| "x".to_string());
    format!("{}:{}", k, t)
}

pub fn silence_panics() {
    if std::env::var("VERIF_DEBUG").is_err() {
        std::panic::set_hook(Box::new(|_| {}));
    }
}

pub fn env_seed() -> u64 {
    std::env::var("VERIF_SEED").ok().and_then(|s| s.parse().ok()).unwrap_or(1)
}

pub fn arg_value(args: &[String], name: &str) -> Option<String> {
    args.iter().position(|a| a == name).and_then(|i| args.get(i + 1).cloned())
}
