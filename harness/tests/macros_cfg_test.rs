//! The `statsd_*!` macros expanded inside a crate compiled with `cfg(test)` (this integration test): what
//! `cfg!(test)`, `cfg!(debug_assertions)` … evaluate to at the expansion site must make no difference.
//! Prints two case lines (`mact …`) which the macros engine relays into its case stream.

use cadence::{MetricSink, StatsdClient};
use cadence_macros::statsd_count;
use std::io;
use std::panic::{catch_unwind, AssertUnwindSafe};
use std::sync::Mutex;

static EVENTS: Mutex<Vec<String>> = Mutex::new(Vec::new());

fn hex(b: &[u8]) -> String {
    b.iter().map(|x| format!("{:02x}", x)).collect()
}

struct Sink;
impl MetricSink for Sink {
    fn emit(&self, m: &str) -> io::Result<usize> {
        EVENTS.lock().unwrap().push(format!("E{}", hex(m.as_bytes())));
        Ok(m.len())
    }
}

fn ev(n: usize) {
    EVENTS.lock().unwrap().push(n.to_string());
}

fn invoke() -> String {
    EVENTS.lock().unwrap().clear();
    let r = catch_unwind(AssertUnwindSafe(|| {
        statsd_count!(
            {
                ev(0);
                "k"
            },
            {
                ev(1);
                1i64
            }
        );
    }));
    let mut e = EVENTS.lock().unwrap().clone();
    if r.is_err() {
        e.push("PANIC".to_string());
    }
    if e.is_empty() {
        "-".to_string()
    } else {
        e.join(",")
    }
}

#[test]
fn macros_inside_a_test_crate() {
    std::panic::set_hook(Box::new(|_| {}));
    println!("mact unset => {}", invoke());
    cadence_macros::set_global_default(StatsdClient::from_sink("p", Sink));
    println!("mact set => {}", invoke());
}
