import Cadence.Model.Writer
/-!
Executable property predicates for the line writer, evaluated by the driver on the
**implementation's** observations (and proved to accept every trace of the model in
`Cadence/Proofs/WriterCheck.lean`).  The checker walks a history with one piece of state, the
list of lines that were acknowledged (`Ok`) but not yet seen in an accepted write, and reports the
first clause of C05 / C06 / C07 / C19 / C20 that the observed trace breaks.

It is written against the *properties*, not against the model: any implementation that frames,
conserves and packs as the properties demand is accepted, whatever its internal policy.
-/
namespace Mlw
variable {α : Type} [DecidableEq α]

def stripPrefix? : List α → List α → Option (List α)
  | [], rest => some rest
  | _ :: _, [] => none
  | a :: as, b :: bs => if a = b then stripPrefix? as bs else none

/-- smallest `k ≥ 1` such that `payload = frame c (work.take k)` -/
def matchGo (c : Cfg α) : List (List α) → List α → Nat → Option Nat
  | [], rest, k => if rest.isEmpty && k ≥ 1 then some k else none
  | l :: ls, rest, k =>
    if rest.isEmpty && k ≥ 1 then some k
    else match stripPrefix? (l ++ c.ending) rest with
      | some rest' => matchGo c ls rest' (k + 1)
      | none => none

/-- an empty write under an empty terminator carries no bytes of any line: it consumes nothing -/
def matchPrefix (c : Cfg α) (work : List (List α)) (payload : List α) : Option Nat :=
  if payload.isEmpty && c.ending.isEmpty then some 0 else matchGo c work payload 0

structure Viol where
  prop : String
  clause : String
  deriving Repr

abbrev Ck (β : Type) := Except Viol β

def viol {β} (p cl : String) : Ck β := .error ⟨p, cl⟩

/-- walk the attempts of one operation over the work list (pending lines, possibly followed by the
line being emitted).  Returns the remaining work list, whether any attempt was refused, and the
number of lines of the largest accepted group. -/
def ckAtts (c : Cfg α) : List (List α) → List (Attempt α) → Ck (List (List α) × Bool × Nat)
  | work, [] => pure (work, false, 0)
  | work, a :: as =>
    match matchPrefix c work a.payload with
    | none => viol "C05" "a write is not a concatenation of whole pending lines"
    | some k =>
      if a.payload.length > c.cap then viol "C05" "a group of lines exceeds the capacity"
      else
        match a.err with
        | none => do
          let r ← ckAtts c (work.drop k) as
          pure (r.1, r.2.1, max k r.2.2)
        | some _ => do
          let r ← ckAtts c work as
          pure (r.1, true, r.2.2)

def lastErr (as : List (Attempt α)) : Option Nat :=
  match as.getLast? with
  | some a => a.err
  | none => none

/-- one emit.  `pend` = acknowledged, not yet written lines. -/
def ckEmit (c : Cfg α) (pend : List (List α)) (m : List α) (o : OpObs α) : Ck (List (List α)) :=
  let req := m.length + c.ending.length
  if o.res = .panic then viol "C07+C20" "emit panicked" else
  if req > c.cap then
    -- oversize: sent alone, unmodified, during its own emit
    match o.atts with
    | [a] =>
      if a.payload ≠ m then viol "C05" "oversize metric not sent alone and unmodified"
      else match a.err, o.res with
        | none, .ok n => if n = m.length then pure pend else viol "C06" "Ok with a wrong byte count"
        | some k, .err k' => if k = k' then pure pend else viol "C07" "error returned is not the socket's error"
        | none, _ => viol "C07" "oversize metric written but an error reported"
        | some _, _ => viol "C07" "oversize metric refused but Ok reported"
    | _ => viol "C06" "oversize metric not written exactly once during its own emit"
  else do
    let work := pend ++ [m]
    let r ← ckAtts c work o.atts
    let rest := r.1
    let mDelivered := rest.isEmpty
    -- C19: a write during an emit only when the line does not fit, or exactly fills an empty buffer
    let flen := (frame c pend).length
    let needed := flen + req > c.cap || (flen == 0 && req == c.cap)
    if !o.atts.isEmpty && !needed then viol "C19" "wrote during an emit although the line fit" else
    let restPend := if mDelivered then [] else rest.dropLast
    if flen + req > c.cap && r.2.2 != 0 && !(frame c restPend).isEmpty then
      viol "C19" "flushed only part of the pending lines" else
    match o.res with
    | .ok n =>
      if n ≠ m.length then viol "C06" "Ok with a wrong byte count"
      else pure rest
    | .err k =>
      if lastErr o.atts ≠ some k then viol "C07" "error returned is not the error of a write attempted in this call"
      else if mDelivered && !(m ++ c.ending).isEmpty then viol "C07" "metric reported as failed was written"
      else pure (if mDelivered then rest else rest.dropLast)
    | .panic => viol "C07+C20" "emit panicked"

def ckFlush (c : Cfg α) (pend : List (List α)) (o : OpObs α) : Ck (List (List α)) := do
  if o.res = .panic then viol "C07+C20" "flush panicked" else
  let r ← ckAtts c pend o.atts
  match o.res with
  | .ok _ =>
    if !(frame c r.1).isEmpty then viol "C06" "flush returned Ok but acknowledged lines remain unwritten"
    else pure []
  | .err k =>
    if lastErr o.atts ≠ some k then viol "C07" "error returned is not the error of a write attempted in this call"
    else pure r.1
  | .panic => viol "C07+C20" "flush panicked"

def ckDrop (c : Cfg α) (pend : List (List α)) (o : OpObs α) : Ck Unit := do
  if o.res = .panic then viol "C07+C20" "drop panicked" else
  let r ← ckAtts c pend o.atts
  if !r.2.1 && !(frame c r.1).isEmpty then viol "C06" "dropped without writing the remaining lines"
  else pure ()

/-- the whole life: history observations followed by the drop's observation -/
def ckLife (c : Cfg α) : List (List α) → List (Op α) → List (OpObs α) → Ck Unit
  | pend, [], [d] => ckDrop c pend d
  | pend, .emit m :: ops, o :: os => do
    let p ← ckEmit c pend m o
    ckLife c p ops os
  | pend, .flush :: ops, o :: os => do
    let p ← ckFlush c pend o
    ckLife c p ops os
  | _, _, _ => viol "C20" "observation list does not match the history"

end Mlw
