import Cadence.Model.Format
/-!
Exact check that a decimal numeral printed for an `f64` parses back to the bit-identical number
(C02's float clause), in integer arithmetic only.

`RoundTrips bits text` holds iff `text` is `NaN` / `inf` / `-inf` for the corresponding bit patterns,
or a plain decimal numeral `[-]digits[.digits]` whose exact rational value lies in the
round-to-nearest-even rounding interval of the binary64 number denoted by `bits` (so every correctly
rounding parser returns exactly `bits`; the sign of zero must match).  This is evaluated by the
driver for every float token of every case: each *sampled* float is verified exactly, independently
of std's parser.  That std prints such a numeral for *every* finite double is not proved.
-/
namespace Fmt

/-- sign, biased exponent, fraction -/
def f64Fields (bits : Nat) : Bool × Nat × Nat :=
  (bits / 2 ^ 63 % 2 == 1, bits / 2 ^ 52 % 2 ^ 11, bits % 2 ^ 52)

/-- a finite double as `m * 2^(e - 1074)` with `m < 2^53` (subnormals: e = 0, normals: e = biased - 1) -/
def f64MantExp (bits : Nat) : Nat × Nat :=
  let (_, be, fr) := f64Fields bits
  if be == 0 then (fr, 0) else (fr + 2 ^ 52, be - 1)

/-- parse `digits[.digits]` into (numerator, number of fractional digits) -/
def parseDecimal (s : Str) : Option (Nat × Nat) :=
  let ip := s.takeWhile (· != DOT)
  let rest := s.dropWhile (· != DOT)
  match parseNat ip with
  | none => none
  | some i =>
    match rest with
    | [] => some (i, 0)
    | _ :: fp =>
      match parseNat fp with
      | none => none
      | some f => some (i * 10 ^ fp.length + f, fp.length)

def NAN_TEXT : Str := [78, 97, 78]
def INF_TEXT : Str := [105, 110, 102]

/-- `|N / 10^k|` rounds to nearest-even to `m * 2^(e-1074)`.  All comparisons are cross-multiplied:
with `S = 2^1074` the value is `m * 2^e / S`; the rounding interval's ends are the midpoints to the
neighbouring doubles (`ulp = 2^e` above; below it is `2^(e-1)` when `m = 2^52` and `e > 0`), closed
when `m` is even. -/
def magnitudeRoundTrips (m e : Nat) (num k : Nat) : Bool :=
  -- compare num / 10^k with (2m ± 1) * 2^e / (2 * 2^1074): scale everything by 2 * 2^1074 * 10^k
  let lhs := num * 2 * 2 ^ 1074            -- num/10^k * (2*S*10^k)
  let ten := 10 ^ k
  let hi := (2 * m + 1) * 2 ^ e * ten       -- upper midpoint
  let lo :=
    if m == 2 ^ 52 && e > 0 then (4 * m - 1) * 2 ^ (e - 1) * ten   -- half-size gap below a power of two
    else if m == 0 then 0
    else (2 * m - 1) * 2 ^ e * ten
  let even := m % 2 == 0
  let okHi := if even then lhs ≤ hi else lhs < hi
  let okLo := if m == 0 then true else if even then lo ≤ lhs else lo < lhs
  -- the largest finite double: anything at or beyond the midpoint to 2^1024 would round to infinity
  okHi && okLo

def RoundTrips (bits : Nat) (text : Str) : Bool :=
  let (neg, be, fr) := f64Fields bits
  if be == 2047 then
    if fr != 0 then text == NAN_TEXT
    else if neg then text == MINUS :: INF_TEXT else text == INF_TEXT
  else
    let (tneg, body) := match text with
      | b :: rest => if b == MINUS then (true, rest) else (false, text)
      | [] => (false, [])
    if tneg != neg then false else
    match parseDecimal body with
    | none => false
    | some (num, k) =>
      let (m, e) := f64MantExp bits
      magnitudeRoundTrips m e num k

end Fmt
