import Cadence.Model.Client
import Cadence.Check.Float
/-!
Executable property predicates for C01–C04, evaluated on the **implementation's** observation of
one metric call (result, strings handed to the sink, error-handler invocations).  They are written
against the properties: the emitted text is parsed back with the grammar's parser and compared,
field by field, with what the caller supplied.
-/
namespace Fmt

structure Viol where
  prop : String
  clause : String
  deriving Repr

abbrev Ck (β : Type) := Except Viol β

def viol {β} (p cl : String) : Ck β := .error ⟨p, cl⟩

def BOp.delimFree : BOp → Bool
  | .tag k v => Fmt.delimFree k && Fmt.delimFree v
  | .tagv v => Fmt.delimFree v
  | .cid c => Fmt.delimFree c
  | _ => true

def inputsDelimFree (cfg : ClientCfg) (key : Str) (bops : List BOp) : Bool :=
  Fmt.delimFree (normPrefix cfg.pfx) && Fmt.delimFree key && cfg.tags.all Tag.delimFree &&
  (match cfg.cid with | some c => Fmt.delimFree c | none => true) && bops.all BOp.delimFree

/-- the numeric meaning of a value, for the parse-back check of C02: integer numerals must parse to
exactly the supplied value; float numerals must lie in the rounding interval of the supplied bits
(`RoundTrips`, exact integer arithmetic) -/
def tokenOk (v : Val) (toks : List Str) : Bool :=
  match v with
  | .signed i => toks.map parseInt == [some i]
  | .psigned l => toks.map parseInt == l.map some
  | .unsigned n => toks.map parseNat == [some n]
  | .punsigned l => toks.map parseNat == l.map some
  | .float t => toks.length == 1 && toks.all (RoundTrips t.bits)
  | .pfloat l => toks.length == l.length && (toks.zip l).all fun (tok, t) => RoundTrips t.bits tok

/-- what the caller supplied, independent of how the library combines it -/
structure Supplied where
  name : Str
  kind : Kind
  rate : Option Str
  rateTok : Option FloatTok := none
  tags : List Tag
  cid : Option Str
  ts : Option Nat

def lastSome {β} : List (Option β) → Option β
  | [] => none
  | x :: xs => match lastSome xs with
    | some y => some y
    | none => x

def supplied (cfg : ClientCfg) (e : Entry) (key : Str) (bops : List BOp) : Supplied :=
  { name := (if cfg.pfx.isEmpty then [] else trimDots cfg.pfx ++ [DOT]) ++ key
    kind := e.kind
    rate := lastSome (bops.map fun | .rate r => some r.text | _ => none)
    rateTok := lastSome (bops.map fun | .rate r => some r | _ => none)
    tags := cfg.tags ++ bops.filterMap fun | .tag k v => some ⟨some k, v⟩ | .tagv v => some ⟨none, v⟩ | _ => none
    cid := match lastSome (bops.map fun | .cid c => some c | _ => none) with
           | some c => some c
           | none => cfg.cid
    ts := lastSome (bops.map fun | .ts t => some t | _ => none) }

/-- C01/C02/C04 on one emitted line -/
def ckLine (cfg : ClientCfg) (e : Entry) (key : Str) (v : Val) (bops : List BOp) (t : Str) : Ck Unit :=
  if !inputsDelimFree cfg key bops then pure () else
  match parseLine t with
  | none => viol "C01" "emitted text is not a well-formed metric line"
  | some l =>
    let s := supplied cfg e key bops
    if l.name ≠ s.name then viol "C01" "name is not prefix-without-trailing-dots + '.' + key"
    else if l.kind ≠ s.kind then viol "C01" "type code is not the code of the kind that was called"
    else if l.vals.any (·.isEmpty) then viol "C01" "a line without a value was emitted"
    else if !tokenOk v l.vals then viol "C02" "value numerals do not parse back to exactly the supplied values (integers) / bits (floats)"
    else if l.rate.isSome ≠ s.rateTok.isSome then viol "C02" "sampling-rate section present although none was supplied, or missing"
    else if (match l.rate, s.rateTok with | some r, some t => !RoundTrips t.bits r | _, _ => false) then
      viol "C02" "the sampling rate on the wire does not parse back to the bit-identical number"
    else if l.tags ≠ s.tags then viol "C04" "tags are not defaults-then-call-tags in order"
    else if l.cid ≠ s.cid then viol "C04" "container id is not the per-call one, else the default"
    else if l.ts.bind parseNat ≠ s.ts ∨ (l.ts.isSome ≠ s.ts.isSome) then viol "C01" "timestamp section differs from what was supplied"
    else pure ()

/-- C03 (and through `ckLine` C01/C02/C04) on one call -/
def ckCall (cfg : ClientCfg) (e : Entry) (form : Form) (key : Str) (a : Arg) (bops : List BOp)
    (sink : SinkOut) (tok : Nat) (o : CallObs) : Ck Unit :=
  match convert e a with
  | none => pure ()
  | some conv =>
    let bops := if form = .plain then [] else bops
    if o.emits.length > 1 then viol "C03" "more than one string handed to the sink in one call" else
    let valid : Option Val := match conv with
      | .ok v => if v.count = 0 then none else some v
      | .error _ => none
    -- what the call must report
    let failure : Option ErrRepr := match valid, sink with
      | none, _ => some .inv
      | some _, .refuse k => some (.io k tok)
      | some _, .accept => none
    match valid with
    | none =>
      if !o.emits.isEmpty then
        (match conv with
         | .ok _ => viol "C01" "a line without a value was emitted"
         | .error _ => viol "C02" "a rejected value was sent")
      else if form = .send then
        (if o.result ≠ .unit then viol "C03" "quiet send returned something"
         else if o.handler ≠ [.inv] then viol "C03" "handler not invoked exactly once with the invalid-input error" else pure ())
      else if o.result ≠ .err .inv then viol "C02" "rejected value not reported as invalid input"
      else if !o.handler.isEmpty then viol "C03" "handler invoked by a non-quiet form" else pure ()
    | some v =>
      match o.emits with
      | [t] => do
        ckLine cfg e key v bops t
        if form = .send then
          if o.result ≠ .unit then viol "C03" "quiet send returned something"
          else match failure with
            | none => if o.handler.isEmpty then pure () else viol "C03" "handler invoked on success"
            | some er => if o.handler = [er] then pure () else viol "C03" "handler not invoked exactly once with the sink's error"
        else
          if !o.handler.isEmpty then viol "C03" "handler invoked by a non-quiet form" else
          match failure with
          | none => if o.result = .ok t then pure () else viol "C03" "sink accepted but the call did not return Ok(that metric)"
          | some er => if o.result = .err er then pure () else viol "C03" "sink refused but the call did not return the sink's error"
      | _ => viol "C03" "valid value but nothing handed to the sink"

/-- the standalone constructors: same text as the client's for the same full name and value -/
def ckStandalone (c : Ctor) (pfx key : Str) (v : Val) (t : Str) : Ck Unit :=
  if !(Fmt.delimFree pfx && Fmt.delimFree key) then pure () else
  match parseLine t with
  | none => viol "C01" "standalone constructor text is not a well-formed metric line"
  | some l =>
    if l.name ≠ pfx ++ key ∨ l.kind ≠ c.kind ∨ !tokenOk v l.vals ∨ l.rate.isSome ∨ !l.tags.isEmpty ∨ l.cid.isSome ∨ l.ts.isSome
    then viol "C01" "standalone constructor text differs from the client's for the same name and value"
    else pure ()

end Fmt
