import Cadence.Model.Queue
/-!
Executable property predicates for the queuing sink (C08–C11, C15, C16), evaluated on the
**implementation's** observation of one closed history (every handle finally dropped, every gate
opened).  Written against the properties: they track only what a user could count — which emits
returned Ok, which metrics the wrapped sink was entered with, which handler calls and which `Drop`
were seen, what the counters said.
-/
namespace Queue

/-- one harness operation, as parsed -/
inductive HOp where
  | emit (h : Nat) (m : String) (len : Nat)
  | clone (h : Nat) | drop (h : Nat) | flush (h : Nat) | stats (h : Nat) | sinkStats (h : Nat)
  | fin (o : Outcome) (kind : Nat)
  deriving Repr

/-- one observed event -/
inductive HEv where
  | enter (m : String) (worker : Bool)
  | handled (kind : Nat) (tok : String) (worker : Bool)
  | flushed | dropped | timeout
  deriving Repr, DecidableEq

inductive HRes where
  | ok (n : Option Nat) | err (k : Nat) | idle | nohandle | blocked | panic | skipped | slow
  | stats (sub drn q pan : Nat)
  | sinkStats (a b c d : Nat)
  deriving Repr, DecidableEq

structure HObs where
  res : HRes
  evs : List HEv
  deriving Repr

structure CkSt where
  accepted : List String := []     -- metrics whose emit returned Ok, in order
  entered : Nat := 0               -- how many of them the wrapped sink has been entered with
  live : List Nat := [0]
  next : Nat := 1
  inside : Bool := false
  finishes : Nat := 0
  panics : Nat := 0
  dropped : Bool := false

structure Viol where
  prop : String
  clause : String
  deriving Repr

abbrev Ck (β : Type) := Except Viol β
def viol {β} (p c : String) : Ck β := .error ⟨p, c⟩

/-- events of one op, in order -/
def ckEvents (hasHandler : Bool) (expectH : Option (Nat × String)) : CkSt → List HEv → Bool → Ck CkSt
  | s, [], pendingH =>
    if pendingH then viol "C16" "the wrapped sink failed but the handler was not invoked before the next event"
    else pure s
  | s, e :: es, pendingH =>
    match e with
    | .handled k t w =>
      if !hasHandler then viol "C16" "handler event without a configured handler"
      else match expectH with
        | none => viol "C16" "handler invoked although the wrapped sink did not fail"
        | some (k', t') =>
          if !pendingH then viol "C16" "handler invoked more than once for one failure"
          else if k ≠ k' ∨ t ≠ t' then viol "C16" "handler got a different error than the wrapped sink returned"
          else if !w then viol "C16" "handler ran on a caller thread"
          else ckEvents hasHandler expectH s es false
    | .enter m w =>
      if pendingH then viol "C16" "next metric processed before the handler saw the previous failure"
      else if !w then viol "C10" "the wrapped sink ran on a caller thread"
      else if s.inside then viol "C08" "the wrapped sink was entered while it was still processing a metric"
      else match s.accepted[s.entered]? with
        | none => viol "C08" "the wrapped sink got a metric that no emit was acknowledged for (duplicate or invented)"
        | some a =>
          if a ≠ m then viol "C08" "metrics reached the wrapped sink out of acceptance order, twice, or altered"
          else ckEvents hasHandler expectH { s with entered := s.entered + 1, inside := true } es pendingH
    | .dropped =>
      if !s.live.isEmpty then viol "C09" "the wrapped sink was dropped while a handle is alive"
      else if s.entered < s.accepted.length then viol "C09" "the wrapped sink was dropped before every accepted metric was handed over"
      else ckEvents hasHandler expectH { s with dropped := true } es pendingH
    | .timeout =>
      if s.entered < s.accepted.length then
        (if s.live.isEmpty then viol "C09" "after the last drop an accepted metric was never handed to the wrapped sink"
         else viol "C08" "an accepted metric was never handed to the wrapped sink")
      else if pendingH then viol "C16" "handler never invoked for a failure"
      else viol "C09" "the background thread did not stop / the wrapped sink was not dropped after the last drop"
    | .flushed => ckEvents hasHandler expectH s es pendingH

def ckOp (cap : Option Nat) (hasHandler : Bool) (s : CkSt) (op : HOp) (o : HObs) : Ck CkSt := do
  if o.res = .panic then viol "C20" "an operation of the queuing sink panicked" else
  if o.res = .slow then viol "C09" "dropping a handle waited (more than 100 ms) instead of returning at once" else
  if (match op with | .flush _ => false | _ => true) && o.evs.contains .flushed then
    viol "C10+C19" "an operation other than flush made the wrapped sink flush" else
  if o.res = .blocked then
    (match op with
     | .drop _ => viol "C09" "dropping a handle blocked"
     | _ =>
       if o.evs.any (fun e => match e with | .enter _ _ => true | _ => false) then
         viol "C10+C08" "a producer-side call ran the wrapped sink itself (a second consumer) and blocked in it"
       else viol "C10" "a producer-side call blocked")
  else
  match op with
  | .emit h m len =>
    if h ∉ s.live then pure s else
    let waiting := s.accepted.length - s.entered
    let room := match cap with | none => true | some c => waiting < c
    match o.res with
    | .ok n =>
      if !room then viol "C10" "emit accepted a metric beyond the queue capacity"
      else if n ≠ some len then viol "C10" "emit returned Ok with a wrong byte count"
      else ckEvents hasHandler none { s with accepted := s.accepted ++ [m] } o.evs false
    | .err _ =>
      if room then
        (if cap.isNone then viol "C10" "an unbounded queue refused a metric"
         else viol "C10" "emit refused a metric although the queue had room")
      else ckEvents hasHandler none s o.evs false
    | _ => viol "C10" "emit returned neither Ok nor an error"
  | .clone h =>
    if h ∉ s.live then pure s else
    ckEvents hasHandler none { s with live := s.next :: s.live, next := s.next + 1 } o.evs false
  | .drop h =>
    if h ∉ s.live then pure s else
    ckEvents hasHandler none { s with live := s.live.erase h } o.evs false
  | .flush h =>
    if h ∈ s.live ∧ !o.evs.contains .flushed then
      viol "C06" "flush through the queuing wrapper did not reach the wrapped sink"
    else if h ∈ s.live ∧ o.res ≠ .ok none then viol "C06" "flush through the queuing wrapper did not return the wrapped sink's answer"
    else ckEvents hasHandler none s o.evs false
  | .sinkStats h =>
    if h ∉ s.live then pure s else
    -- the gated wrapped sink reports fixed figures: the queuing sink must pass them through unchanged
    if o.res ≠ .sinkStats 70 3 50 2 then viol "C14" "stats() read through the queuing sink differ from the wrapped sink's"
    else ckEvents hasHandler none s o.evs false
  | .stats h =>
    if h ∉ s.live then pure s else
    match o.res with
    | .stats sub drn q pan =>
      if sub ≠ s.accepted.length then viol "C15" "submitted differs from the number of emits that returned Ok"
      else if drn ≠ s.entered then viol "C15" "drained differs from the number of metrics handed to the wrapped sink"
      else if q ≠ sub - drn ∨ q > sub then viol "C15" "queued is not submitted - drained within [0, submitted]"
      else if pan ≠ s.panics then viol "C11" "panic count differs from the number of panics that occurred"
      else ckEvents hasHandler none s o.evs false
    | _ => viol "C15" "counters could not be read"
  | .fin oc kind =>
    if o.res = .idle then ckEvents hasHandler none s o.evs false else
    let s1 := { s with inside := false, finishes := s.finishes + 1,
                       panics := s.panics + (match oc with | .panic => 1 | _ => 0) }
    match oc with
    | .err _ =>
      if hasHandler then ckEvents hasHandler (some (kind, toString s1.finishes)) s1 o.evs true
      else ckEvents hasHandler none s1 o.evs false
    | _ => ckEvents hasHandler none s1 o.evs false

/-- the per-operation clauses over a whole history -/
def ckOps (cap : Option Nat) (hasHandler : Bool) : CkSt → List HOp → List HObs → Ck CkSt
  | s, [], [] => pure s
  | s, op :: ops, o :: os => do
    let s' ← ckOp cap hasHandler s op o
    ckOps cap hasHandler s' ops os
  | _, _, _ => viol "C20" "observation list does not match the history"

/-- the clauses on a closed history (every handle finally dropped, every gate opened) -/
def ckClose (s : CkSt) : Ck Unit :=
  if s.entered < s.accepted.length then viol "C08" "history closed but an accepted metric was never handed over"
  else if s.live.isEmpty && !s.dropped then viol "C09" "every handle dropped but the wrapped sink was never dropped"
  else pure ()

def ckHistory (cap : Option Nat) (hasHandler : Bool) (s : CkSt) (ops : List HOp) (os : List HObs) : Ck Unit := do
  let s' ← ckOps cap hasHandler s ops os
  ckClose s'

end Queue
