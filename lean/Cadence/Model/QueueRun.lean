import Cadence.Model.Queue
import Cadence.Check.Queue
/-!
The model side of the `queue` correspondence, as library code: one harness operation is run on the
LTS of `Cadence.Model.Queue` in the quiescent schedule (`settle`), and the events it adds to the
model's trace are reported in the harness's vocabulary (`HObs`).  The driver (`Driver/Queue.lean`)
compares these observations with the implementation's; `Cadence.Props.C08` proves that the
executable predicates of `Cadence.Check.Queue` accept every one of them
(`predicate_accepts_every_model_history`): a predicate failure is never an artefact of the predicate.
-/
namespace Queue

abbrev M := String   -- metrics are kept as their hex text

def settleAll (s : St M) : St M := settle (4 * s.chan.length + 12) s

def newEvents (before after : List (Ev M)) (kind : Nat) : List HEv :=
  (after.drop before.length).map fun
    | .enter m => .enter m true
    | .handled tok => .handled kind (toString tok) true
    | .released => .dropped

/-- run one harness operation on the model, in the quiescent schedule -/
def modelOp (s : St M) (fins : Nat) (op : HOp) : St M × Nat × HObs :=
  let tr0 := s.trace
  match op with
  | .emit h m len =>
    match step s (.emitTry h m) with
    | none => (s, fins, ⟨.nohandle, []⟩)
    | some (s1, .emitOk) =>
      let s2 := match step s1 .emitCount with | some (x, _) => x | none => s1
      let s3 := settleAll s2
      (s3, fins, ⟨.ok (some len), newEvents tr0 s3.trace 0⟩)
    | some (s1, _) => (s1, fins, ⟨.err 15, []⟩)
  | .clone h =>
    match step s (.clone h) with
    | none => (s, fins, ⟨.nohandle, []⟩)
    | some (s1, _) => (s1, fins, ⟨.ok none, []⟩)
  | .drop h =>
    match step s (.drop h) with
    | none => (s, fins, ⟨.nohandle, []⟩)
    | some (s1, _) =>
      let s2 := settleAll s1
      (s2, fins, ⟨.ok none, newEvents tr0 s2.trace 0⟩)
  | .flush h => if h ∈ s.handles then (s, fins, ⟨.ok none, [.flushed]⟩) else (s, fins, ⟨.nohandle, []⟩)
  | .stats h =>
    if h ∈ s.handles then (s, fins, ⟨.stats s.submitted s.drained (queuedOf s.submitted s.drained) s.panics, []⟩)
    else (s, fins, ⟨.nohandle, []⟩)
  | .sinkStats h =>
    if h ∈ s.handles then (s, fins, ⟨.sinkStats 70 3 50 2, []⟩) else (s, fins, ⟨.nohandle, []⟩)
  | .fin oc kind =>
    let o : Outcome := match oc with | .err _ => .err (fins + 1) | x => x
    match step s (.wFinish o) with
    | none => (s, fins, ⟨.idle, []⟩)
    | some (s1, _) =>
      let s2 := settleAll s1
      (s2, fins + 1, ⟨.ok none, newEvents tr0 s2.trace kind⟩)

def modelRun (cap : Option Nat) (hh : Bool) (ops : List HOp) : List HObs :=
  let rec go (s : St M) (fins : Nat) (ops : List HOp) (acc : List HObs) : List HObs :=
    match ops with
    | [] => acc.reverse
    | op :: rest =>
      let r := modelOp s fins op
      go r.1 r.2.1 rest (r.2.2 :: acc)
  go (settleAll (init cap hh)) 0 ops []


/-- the model state after a history (the schedule of `modelRun`) -/
def modelFinal (cap : Option Nat) (hh : Bool) (ops : List HOp) : St M :=
  (ops.foldl (fun (p : St M × Nat) op => let r := modelOp p.1 p.2 op; (r.1, r.2.1)) (settleAll (init cap hh), 0)).1

end Queue
