import Cadence.Model.Format
/-
Model of `StatsdClient` (`/repo/cadence/src/client.rs`), `MetricBuilder` (`builder.rs`) and the
standalone constructors (`types.rs`): configuration, the 24 entry points (22 `To*Value`
conversions + incr/decr), the builder operations, `try_send` / `send`, the sink and the error
handler as oracles/recorders.
-/
namespace Fmt

structure ClientCfg where
  pfx : Str                 -- as given to the builder, before normalisation
  tags : List Tag
  cid : Option Str
  deriving Repr

/-- `str::trim_end_matches('.')` -/
def trimDots (p : Str) : Str := (p.reverse.dropWhile (· == DOT)).reverse

/-- `StatsdClientBuilder::formatted_prefix` -/
def normPrefix (p : Str) : Str := if p.isEmpty then [] else trimDots p ++ [DOT]

/-- the value supplied at an entry point -/
inductive Arg where
  | none
  | i64 (v : Int) | i32 (v : Int) | u64 (v : Nat) | u32 (v : Nat)
  | f64 (t : FloatTok)
  | dur (secs nanos : Nat)
  | vu64 (l : List Nat) | vf64 (l : List FloatTok) | vdur (l : List (Nat × Nat))
  deriving Repr

inductive Entry where
  | count_i64 | count_i32 | count_u64 | count_u32 | incr | decr
  | time_u64 | time_dur | time_vu64 | time_vdur
  | gauge_u64 | gauge_f64 | meter_u64
  | hist_u64 | hist_f64 | hist_dur | hist_vu64 | hist_vf64 | hist_vdur
  | dist_u64 | dist_f64 | dist_vu64 | dist_vf64 | set_i64
  deriving DecidableEq, Repr

def Entry.kind : Entry → Kind
  | .count_i64 | .count_i32 | .count_u64 | .count_u32 | .incr | .decr => .counter
  | .time_u64 | .time_dur | .time_vu64 | .time_vdur => .timer
  | .gauge_u64 | .gauge_f64 => .gauge
  | .meter_u64 => .meter
  | .hist_u64 | .hist_f64 | .hist_dur | .hist_vu64 | .hist_vf64 | .hist_vdur => .histogram
  | .dist_u64 | .dist_f64 | .dist_vu64 | .dist_vf64 => .distribution
  | .set_i64 => .set

def U64MAX : Nat := 2 ^ 64 - 1

/-- `Duration::as_millis` / `as_nanos` (u128, cannot overflow for secs < 2^64, nanos < 10^9) -/
def toMillis (secs nanos : Nat) : Nat := secs * 1000 + nanos / 1000000
def toNanos (secs nanos : Nat) : Nat := secs * 1000000000 + nanos

inductive ErrRepr where
  | inv                       -- ErrorKind::InvalidInput
  | io (kind tok : Nat)       -- ErrorKind::IoError carrying the sink's own io::Error
  deriving DecidableEq, Repr

/-- the `To*Value::try_to_value` conversions; `none` = the case is ill-typed (harness bug) -/
def convert : Entry → Arg → Option (Except ErrRepr Val)
  | .count_i64, .i64 v => some (.ok (.signed v))
  | .count_i32, .i32 v => some (.ok (.signed v))
  | .count_u64, .u64 v => some (.ok (.unsigned v))
  | .count_u32, .u32 v => some (.ok (.unsigned v))
  | .incr, .none => some (.ok (.signed 1))
  | .decr, .none => some (.ok (.signed (-1)))
  | .time_u64, .u64 v => some (.ok (.unsigned v))
  | .time_dur, .dur s n =>
    some (if toMillis s n > U64MAX then .error .inv else .ok (.unsigned (toMillis s n % 2 ^ 64)))
  | .time_vu64, .vu64 l => some (.ok (.punsigned l))
  | .time_vdur, .vdur l =>
    some (if l.any (fun d => toMillis d.1 d.2 > U64MAX) then .error .inv
          else .ok (.punsigned (l.map fun d => toMillis d.1 d.2 % 2 ^ 64)))
  | .gauge_u64, .u64 v => some (.ok (.unsigned v))
  | .gauge_f64, .f64 t => some (.ok (.float t))
  | .meter_u64, .u64 v => some (.ok (.unsigned v))
  | .hist_u64, .u64 v => some (.ok (.unsigned v))
  | .hist_f64, .f64 t => some (.ok (.float t))
  | .hist_dur, .dur s n =>
    some (if toNanos s n > U64MAX then .error .inv else .ok (.unsigned (toNanos s n % 2 ^ 64)))
  | .hist_vu64, .vu64 l => some (.ok (.punsigned l))
  | .hist_vf64, .vf64 l => some (.ok (.pfloat l))
  | .hist_vdur, .vdur l =>
    some (if l.any (fun d => toNanos d.1 d.2 > U64MAX) then .error .inv
          else .ok (.punsigned (l.map fun d => toNanos d.1 d.2 % 2 ^ 64)))
  | .dist_u64, .u64 v => some (.ok (.unsigned v))
  | .dist_f64, .f64 t => some (.ok (.float t))
  | .dist_vu64, .vu64 l => some (.ok (.punsigned l))
  | .dist_vf64, .vf64 l => some (.ok (.pfloat l))
  | .set_i64, .i64 v => some (.ok (.signed v))
  | _, _ => none

/-- the `MetricBuilder` methods a caller can chain, in call order -/
inductive BOp where
  | tag (k v : Str) | tagv (v : Str) | cid (c : Str) | ts (t : Nat) | rate (r : FloatTok)
  deriving Repr

def MFmt.apply (f : MFmt) : BOp → MFmt
  | .tag k v => { f with tags := f.tags ++ [⟨some k, v⟩] }
  | .tagv v => { f with tags := f.tags ++ [⟨none, v⟩] }
  | .cid c => { f with cid := some c }
  | .ts t => { f with ts := some t }
  | .rate r => { f with rate := some r }

/-- `X_with_tags(key, value)`: formatter on the normalised prefix, `.with_tags(defaults)`,
`.with_container_id_opt(default)`; then the caller's builder calls -/
def buildFmt (cfg : ClientCfg) (e : Entry) (key : Str) (v : Val) (bops : List BOp) : MFmt :=
  let f0 : MFmt := { pfx := normPrefix cfg.pfx, key := key, val := v, kind := e.kind,
                     tags := cfg.tags, cid := cfg.cid }
  bops.foldl MFmt.apply f0

inductive Form where
  | plain | trySend | send
  deriving DecidableEq, Repr

/-- what the sink does with the (single) metric it is handed during this call -/
inductive SinkOut where
  | accept | refuse (kind : Nat)
  deriving DecidableEq, Repr

inductive CallRes where
  | ok (text : Str) | err (e : ErrRepr) | unit
  deriving DecidableEq, Repr

structure CallObs where
  result : CallRes
  emits : List Str
  handler : List ErrRepr
  deriving DecidableEq, Repr

/-- `MetricBuilder::try_send` for a built formatter (an empty packed list is invalid input) -/
def trySend (f : MFmt) (sink : SinkOut) (tok : Nat) : CallRes × List Str :=
  if f.val.count = 0 then (.err .inv, [])
  else
    let t := f.format
    match sink with
    | .accept => (.ok t, [t])
    | .refuse k => (.err (.io k tok), [t])

/-- one metric call.  `tok` identifies the error object the sink would return. -/
def call (cfg : ClientCfg) (e : Entry) (form : Form) (key : Str) (a : Arg) (bops : List BOp)
    (sink : SinkOut) (tok : Nat) : Option CallObs :=
  match convert e a with
  | none => none
  | some (.error err) =>
    -- BuilderRepr::Error: builder calls are ignored, nothing is emitted
    some (match form with
      | .send => ⟨.unit, [], [err]⟩
      | _ => ⟨.err err, [], []⟩)
  | some (.ok v) =>
    let f := buildFmt cfg e key v (if form = .plain then [] else bops)
    let r := trySend f sink tok
    some (match form with
      | .send => (match r.1 with
          | .err er => ⟨.unit, r.2, [er]⟩
          | _ => ⟨.unit, r.2, []⟩)
      | _ => ⟨r.1, r.2, []⟩)

/-! ## standalone constructors (`types.rs`) -/

inductive Ctor where
  | counter | timer | gauge | gaugeF | meter | histogram | histogramF | distribution | distributionF | set
  deriving DecidableEq, Repr

def Ctor.kind : Ctor → Kind
  | .counter => .counter | .timer => .timer | .gauge | .gaugeF => .gauge | .meter => .meter
  | .histogram | .histogramF => .histogram | .distribution | .distributionF => .distribution | .set => .set

/-- `Counter::new(prefix, key, v)` etc.: the formatter on the *given* prefix, no decoration -/
def standalone (c : Ctor) (pfx key : Str) (v : Val) : Str :=
  ({ pfx := pfx, key := key, val := v, kind := c.kind } : MFmt).format

end Fmt
