/-
Model of `std::io::BufWriter` (the parts cadence uses) and of `cadence::io::MultiLineWriter`
(`/repo/cadence/src/io.rs`), polymorphic in the element type: behaviour depends on lengths and
concatenation only.

* `flushBuf`, `direct`, `bwWrite` – BufWriter::{flush_buf, get_mut().write, write/write_cold}
* `mlwWrite`, `mlwFlush`, `mlwDrop` – MultiLineWriter::{write, flush} and the Drop of its BufWriter,
  transcribed branch by branch
* `specWrite`, `specFlush`, `specDrop` – the abstract "pending lines" specification the concrete
  writer is proved to refine (`Cadence/Proofs/WriterRefine.lean`); all history-level properties
  (C05 C06 C07 C19) are proved about the specification and transfer through the refinement.

The environment is an oracle: a finite list of outcomes, one consumed per attempted write to the
underlying writer, `ok` after exhaustion (all-or-nothing datagram semantics).
-/
namespace Mlw

inductive Outcome where
  | ok | err (kind : Nat) | intr
  deriving Repr, DecidableEq

/-- io::ErrorKind index of `Interrupted` in the harness table -/
def intrKind : Nat := 4

structure Cfg (α : Type) where
  cap : Nat
  ending : List α

structure St (α : Type) where
  written : Nat
  buf : List α
  deriving Repr

/-- one attempted write to the underlying writer; `err = none` means it was accepted -/
structure Attempt (α : Type) where
  payload : List α
  err : Option Nat
  deriving Repr, DecidableEq

def Attempt.ok {α} (a : Attempt α) : Bool := a.err.isNone

inductive Res where
  | ok (n : Nat) | err (k : Nat) | panic
  deriving Repr, DecidableEq

/-- BufWriter::flush_buf with all-or-nothing writes: `Interrupted` is retried, any other error is
returned with the buffer intact, success empties the buffer.  Returns (error?, buffer, attempts,
remaining oracle). -/
def flushBuf {α} (buf : List α) : List Outcome → (Option Nat × List α × List (Attempt α) × List Outcome)
  | [] => if buf.isEmpty then (none, buf, [], []) else (none, [], [⟨buf, none⟩], [])
  | o :: os =>
    if buf.isEmpty then (none, buf, [], o :: os) else
    match o with
    | .ok => (none, [], [⟨buf, none⟩], os)
    | .err k => (some k, buf, [⟨buf, some k⟩], os)
    | .intr =>
      let r := flushBuf buf os
      (r.1, r.2.1, ⟨buf, some intrKind⟩ :: r.2.2.1, r.2.2.2)

/-- one direct write attempt to the underlying writer (an `Interrupted` is returned, not retried) -/
def direct {α} (p : List α) : List Outcome → (Res × List (Attempt α) × List Outcome)
  | [] => (.ok p.length, [⟨p, none⟩], [])
  | .ok :: os => (.ok p.length, [⟨p, none⟩], os)
  | .err k :: os => (.err k, [⟨p, some k⟩], os)
  | .intr :: os => (.err intrKind, [⟨p, some intrKind⟩], os)

/-- BufWriter::write (incl. write_cold) with capacity `cap` -/
def bwWrite {α} (cap : Nat) (buf part : List α) (orc : List Outcome) :
    (Res × List α × List (Attempt α) × List Outcome) :=
  if part.length < cap - buf.length then (.ok part.length, buf ++ part, [], orc)
  else
    let r := if part.length > cap - buf.length then flushBuf buf orc else (none, buf, [], orc)
    match r.1 with
    | some k => (.err k, r.2.1, r.2.2.1, r.2.2.2)
    | none =>
      if part.length ≥ cap then
        let d := direct part r.2.2.2
        (d.1, r.2.1, r.2.2.1 ++ d.2.1, d.2.2)
      else (.ok part.length, r.2.1 ++ part, r.2.2.1, r.2.2.2)

/-- MultiLineWriter::flush -/
def mlwFlush {α} (s : St α) (orc : List Outcome) : (Res × St α × List (Attempt α) × List Outcome) :=
  let r := flushBuf s.buf orc
  match r.1 with
  | some k => (.err k, { s with buf := r.2.1 }, r.2.2.1, r.2.2.2)
  | none => (.ok 0, { written := 0, buf := r.2.1 }, r.2.2.1, r.2.2.2)

/-- MultiLineWriter::write; `capacity - written` is a checked `usize` subtraction -/
def mlwWrite {α} (c : Cfg α) (s : St α) (m : List α) (orc : List Outcome) :
    (Res × St α × List (Attempt α) × List Outcome) :=
  if s.written > c.cap then (.panic, s, [], orc) else
  let left := c.cap - s.written
  let required := m.length + c.ending.length
  if required > c.cap then
    let d := direct m orc
    (d.1, s, d.2.1, d.2.2)
  else
    let f := if left < required then mlwFlush s orc else (.ok 0, s, [], orc)
    match f.1 with
    | .err k => (.err k, f.2.1, f.2.2.1, f.2.2.2)
    | .panic => (.panic, f.2.1, f.2.2.1, f.2.2.2)
    | .ok _ =>
      let w1 := bwWrite c.cap f.2.1.buf m f.2.2.2
      match w1.1 with
      | .ok n1 =>
        let w2 := bwWrite c.cap w1.2.1 c.ending w1.2.2.2
        match w2.1 with
        | .ok n2 => (.ok n1, { written := f.2.1.written + n1 + n2, buf := w2.2.1 }, f.2.2.1 ++ w1.2.2.1 ++ w2.2.2.1, w2.2.2.2)
        | r => (r, { written := f.2.1.written + n1, buf := w2.2.1 }, f.2.2.1 ++ w1.2.2.1 ++ w2.2.2.1, w2.2.2.2)
      | r => (r, { f.2.1 with buf := w1.2.1 }, f.2.2.1 ++ w1.2.2.1, w1.2.2.2)

/-- drop: BufWriter's Drop runs flush_buf, ignoring errors -/
def mlwDrop {α} (s : St α) (orc : List Outcome) : (List (Attempt α) × List Outcome) :=
  let r := flushBuf s.buf orc
  (r.2.2.1, r.2.2.2)

def frame {α} (c : Cfg α) (ms : List (List α)) : List α := ms.flatMap (· ++ c.ending)

/-- C05's shape of one datagram -/
def IsFrame {α} (c : Cfg α) (p : List α) : Prop :=
  (∃ ms : List (List α), ms ≠ [] ∧ p = frame c ms ∧ p.length ≤ c.cap) ∨
  (p.length + c.ending.length > c.cap)

/-- the invariant relating cadence's private fill counter `written`, BufWriter's own buffer and the
ghost list of accepted-but-unwritten lines -/
def Inv {α} (c : Cfg α) (s : St α) (pending : List (List α)) : Prop :=
  (s.written = s.buf.length ∨ (s.buf = [] ∧ s.written = c.cap)) ∧ s.written ≤ c.cap ∧ s.buf = frame c pending ∧ s.buf.length ≤ c.cap

/-! ## The abstract specification: a list of pending lines -/

/-- a structured attempt: a group of whole pending lines, or one oversize metric sent alone -/
inductive SAtt (α : Type) where
  | group (ms : List (List α)) (err : Option Nat)
  | bypass (m : List α) (err : Option Nat)
  deriving Repr, DecidableEq

def SAtt.render {α} (c : Cfg α) : SAtt α → Attempt α
  | .group ms e => ⟨frame c ms, e⟩
  | .bypass m e => ⟨m, e⟩

def SAtt.err {α} : SAtt α → Option Nat
  | .group _ e => e
  | .bypass _ e => e

def specFlush {α} (c : Cfg α) (pending : List (List α)) (orc : List Outcome) :
    (Res × List (List α) × List (SAtt α) × List Outcome) :=
  let r := flushBuf (frame c pending) orc
  match r.1 with
  | some k => (.err k, pending, r.2.2.1.map (fun a => .group pending a.err), r.2.2.2)
  | none => (.ok 0, [], r.2.2.1.map (fun a => .group pending a.err), r.2.2.2)

/-- the writes BufWriter passes straight through when a line exactly fills an empty buffer -/
def cornerWrites {α} (c : Cfg α) (m : List α) : List (List α) :=
  (if m.length ≥ c.cap then [m] else []) ++ (if c.ending.length ≥ c.cap then [c.ending] else [])

def isCorner {α} (c : Cfg α) (p0 : List (List α)) (m : List α) : Bool :=
  (frame c p0).isEmpty && (m.length + c.ending.length == c.cap) &&
    (m.length == c.cap || c.ending.length == c.cap)

/-- consecutive direct writes, stopping at the first refusal -/
def directs {α} : List (List α) → List Outcome → (Option Nat × List (Attempt α) × List Outcome)
  | [], orc => (none, [], orc)
  | p :: ps, orc =>
    let d := direct p orc
    match d.1 with
    | .ok _ =>
      let r := directs ps d.2.2
      (r.1, d.2.1 ++ r.2.1, r.2.2)
    | .err k => (some k, d.2.1, d.2.2)
    | .panic => (some 0, d.2.1, d.2.2)

def specWrite {α} (c : Cfg α) (pending : List (List α)) (m : List α) (orc : List Outcome) :
    (Res × List (List α) × List (SAtt α) × List Outcome) :=
  let required := m.length + c.ending.length
  if required > c.cap then
    let d := direct m orc
    (d.1, pending, d.2.1.map (fun a => .bypass m a.err), d.2.2)
  else
    let f := if (frame c pending).length + required > c.cap then specFlush c pending orc
             else (.ok 0, pending, [], orc)
    match f.1 with
    | .err k => (.err k, f.2.1, f.2.2.1, f.2.2.2)
    | .panic => (.panic, f.2.1, f.2.2.1, f.2.2.2)
    | .ok _ =>
      if isCorner c f.2.1 m then
        let d := directs (cornerWrites c m) f.2.2.2
        (match d.1 with | none => .ok m.length | some k => .err k,
         f.2.1, f.2.2.1 ++ d.2.1.map (fun a => .group [m] a.err), d.2.2)
      else (.ok m.length, f.2.1 ++ [m], f.2.2.1, f.2.2.2)

def specDrop {α} (c : Cfg α) (pending : List (List α)) (orc : List Outcome) :
    (List (SAtt α) × List Outcome) :=
  let r := flushBuf (frame c pending) orc
  (r.2.2.1.map (fun a => .group pending a.err), r.2.2.2)

/-! ## Histories -/

inductive Op (α : Type) | emit (m : List α) | flush
  deriving Repr

/-- per-operation observation: the result and the attempted underlying writes made during it -/
structure OpObs (α : Type) where
  res : Res
  atts : List (Attempt α)
  deriving Repr

structure SOpObs (α : Type) where
  res : Res
  atts : List (SAtt α)
  deriving Repr

/-- run a history on the concrete writer; returns the per-op observations, the final state and the
remaining oracle -/
def runOps {α} (c : Cfg α) : St α → List (Op α) → List Outcome → (List (OpObs α) × St α × List Outcome)
  | s, [], orc => ([], s, orc)
  | s, .emit m :: ops, orc =>
    let r := mlwWrite c s m orc
    let rest := runOps c r.2.1 ops r.2.2.2
    (⟨r.1, r.2.2.1⟩ :: rest.1, rest.2)
  | s, .flush :: ops, orc =>
    let r := mlwFlush s orc
    let rest := runOps c r.2.1 ops r.2.2.2
    (⟨r.1, r.2.2.1⟩ :: rest.1, rest.2)

/-- the same history on the specification -/
def specOps {α} (c : Cfg α) : List (List α) → List (Op α) → List Outcome →
    (List (SOpObs α) × List (List α) × List Outcome)
  | p, [], orc => ([], p, orc)
  | p, .emit m :: ops, orc =>
    let r := specWrite c p m orc
    let rest := specOps c r.2.1 ops r.2.2.2
    (⟨r.1, r.2.2.1⟩ :: rest.1, rest.2)
  | p, .flush :: ops, orc =>
    let r := specFlush c p orc
    let rest := specOps c r.2.1 ops r.2.2.2
    (⟨r.1, r.2.2.1⟩ :: rest.1, rest.2)

/-- a whole life: the history, then the drop; the last observation is the drop's -/
def runLife {α} (c : Cfg α) (ops : List (Op α)) (orc : List Outcome) : List (OpObs α) :=
  let r := runOps c ⟨0, []⟩ ops orc
  r.1 ++ [⟨.ok 0, (mlwDrop r.2.1 r.2.2).1⟩]

def specLife {α} (c : Cfg α) (ops : List (Op α)) (orc : List Outcome) : List (SOpObs α) :=
  let r := specOps c [] ops orc
  r.1 ++ [⟨.ok 0, (specDrop c r.2.1 r.2.2).1⟩]

def SOpObs.render {α} (c : Cfg α) (o : SOpObs α) : OpObs α := ⟨o.res, o.atts.map (SAtt.render c)⟩

end Mlw
