namespace Holder

inductive Ord | relaxed | acquire | release | acqRel | seqCst
  deriving DecidableEq, Repr

def Ord.acq : Ord → Bool
  | .acquire | .acqRel | .seqCst => true
  | _ => false

def Ord.rel : Ord → Bool
  | .release | .acqRel | .seqCst => true
  | _ => false

structure Ords where
  casSucc : Ord
  casFail : Ord
  storeOrd : Ord
  loadOrd : Ord
  deriving Repr

/-- the orderings written in cadence-macros/src/state.rs -/
def Ords.source : Ords := ⟨.acqRel, .relaxed, .release, .acquire⟩

def UNSET : Nat := 0
def LOADING : Nat := 1
def COMPLETE : Nat := 2

/-- a message of the atomic location `state`; `view` = hb-predecessors published by a release -/
structure Msg where
  val : Nat
  view : Option (List Nat)
  deriving Repr

inductive Call | set | get | isSet
  deriving DecidableEq, Repr

inductive Pc | idle | write | store | read
  deriving DecidableEq, Repr

inductive Result | none | some (writer : Nat) | flag (b : Bool)
  deriving DecidableEq, Repr

structure Thr where
  seen : List Nat        -- ids of events that happen-before the thread's next event
  coh : Nat              -- coherence: smallest message index this thread may still read
  pc : Pc
  calls : List Call
  results : List Result
  deriving Repr

structure Access where
  eid : Nat
  tid : Nat
  isWrite : Bool
  deriving Repr

structure St where
  msgs : List Msg
  accesses : List Access
  cellVal : Option Nat
  nextId : Nat
  thrs : Nat → Thr
  raced : Bool

def joinView (seen : List Nat) : Option (List Nat) → List Nat
  | none => seen
  | some v => v ++ seen

def upd (f : Nat → Thr) (t : Nat) (x : Thr) : Nat → Thr := fun i => if i = t then x else f i

def init (progs : Nat → List Call) : St :=
  { msgs := [⟨UNSET, none⟩], accesses := [], cellVal := none, nextId := 0,
    thrs := fun t => ⟨[], 0, .idle, progs t, []⟩, raced := false }

/-- one step of thread `t`; `i` is the index of the message read by a load / CAS. -/
def step (o : Ords) (s : St) (t i : Nat) : Option St :=
  let th := s.thrs t
  let eid := s.nextId
  match th.pc with
  | .idle =>
    match th.calls with
    | [] => none
    | .set :: rest =>
      if h : th.coh ≤ i ∧ i < s.msgs.length then
        let m := s.msgs[i]
        if m.val = UNSET then
          if i + 1 = s.msgs.length then
            let seen1 := eid :: (if o.casSucc.acq then joinView th.seen m.view else th.seen)
            let newMsg : Msg := ⟨LOADING, if o.casSucc.rel then some seen1 else m.view⟩
            some { s with msgs := s.msgs ++ [newMsg], nextId := eid + 1,
                          thrs := upd s.thrs t { th with seen := seen1, coh := s.msgs.length, pc := .write, calls := rest } }
          else none
        else
          let seen1 := eid :: (if o.casFail.acq then joinView th.seen m.view else th.seen)
          some { s with nextId := eid + 1,
                        thrs := upd s.thrs t { th with seen := seen1, coh := i, calls := rest } }
      else none
    | .get :: rest =>
      if h : th.coh ≤ i ∧ i < s.msgs.length then
        let m := s.msgs[i]
        let seen1 := eid :: (if o.loadOrd.acq then joinView th.seen m.view else th.seen)
        if m.val = COMPLETE then
          some { s with nextId := eid + 1,
                        thrs := upd s.thrs t { th with seen := seen1, coh := i, pc := .read, calls := rest } }
        else
          some { s with nextId := eid + 1,
                        thrs := upd s.thrs t { th with seen := seen1, coh := i, calls := rest, results := th.results ++ [.none] } }
      else none
    | .isSet :: rest =>
      if h : th.coh ≤ i ∧ i < s.msgs.length then
        let m := s.msgs[i]
        let seen1 := eid :: (if o.loadOrd.acq then joinView th.seen m.view else th.seen)
        some { s with nextId := eid + 1,
                      thrs := upd s.thrs t { th with seen := seen1, coh := i, calls := rest,
                                                      results := th.results ++ [.flag (m.val = COMPLETE)] } }
      else none
  | .write =>
    let race := s.accesses.any fun a => !(th.seen.contains a.eid)
    some { s with accesses := s.accesses ++ [⟨eid, t, true⟩], cellVal := some t, nextId := eid + 1,
                  raced := s.raced || race,
                  thrs := upd s.thrs t { th with seen := eid :: th.seen, pc := .store } }
  | .store =>
    let seen1 := eid :: th.seen
    let newMsg : Msg := ⟨COMPLETE, if o.storeOrd.rel then some seen1 else none⟩
    some { s with msgs := s.msgs ++ [newMsg], nextId := eid + 1,
                  thrs := upd s.thrs t { th with seen := seen1, coh := s.msgs.length, pc := .idle } }
  | .read =>
    let race := s.accesses.any fun a => a.isWrite && !(th.seen.contains a.eid)
    let r := match s.cellVal with | some w => Result.some w | none => Result.none
    some { s with accesses := s.accesses ++ [⟨eid, t, false⟩], nextId := eid + 1,
                  raced := s.raced || race,
                  thrs := upd s.thrs t { th with seen := eid :: th.seen, pc := .idle, results := th.results ++ [r] } }

/-- run a schedule; steps that are not enabled are skipped -/
def run (o : Ords) (s : St) : List (Nat × Nat) → St
  | [] => s
  | (t, i) :: rest => match step o s t i with
    | some s' => run o s' rest
    | none => run o s rest

end Holder
