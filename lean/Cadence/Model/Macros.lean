import Cadence.Model.Client
/-
Model of one `statsd_*!` invocation as `_generate_impl!` (`/repo/cadence-macros/src/macros.rs`)
expands it:

    let client = get_global_default().unwrap();     -- panics iff no global client is set
    let builder = client.<kind>_with_tags($key, $val);
    $(let builder = builder.with_tag($tag_key, $tag_val);)*
    builder.send()

as the list of events one invocation produces: argument expression i evaluated (`eval i`: 0 = key,
1 = value, 2+2j / 3+2j = key / value of tag j), the sink handed a string, the client's error
handler invoked, or a panic.
-/
namespace Fmt

inductive MEv where
  | eval (i : Nat) | emit (t : Str) | handled (e : ErrRepr) | panic
  deriving DecidableEq, Repr

/-- `global = none`: no global default client has been set -/
def macroTrace (global : Option ClientCfg) (e : Entry) (key : Str) (a : Arg) (tags : List (Str × Str))
    (sink : SinkOut) (tok : Nat) : Option (List MEv) :=
  match global with
  | none => some [.panic]
  | some cfg =>
    match call cfg e .send key a (tags.map fun kv => BOp.tag kv.1 kv.2) sink tok with
    | none => none
    | some o => some ((List.range (2 + 2 * tags.length)).map MEv.eval ++ o.emits.map MEv.emit ++ o.handler.map MEv.handled)

end Fmt
