import Cadence.Check.Queue
/-!
Model of `QueuingMetricSink` with **capacity 0** (`/repo/cadence/src/sinks/queuing.rs`), the case the
LTS of `Cadence.Model.Queue` leaves out.  crossbeam's zero-capacity channel is a rendezvous channel
(trusted, `crossbeam-channel/src/flavors/zero.rs`):

* `try_send(x)` succeeds iff a receiver is blocked in `recv()` / `recv_timeout()` at that moment; the
  value is handed to that receiver (here: phase `waiting` → `got x`), otherwise `Full`;
* `is_empty()` is constantly `true`, so the loop head of `Worker::run` tests the stop flag alone;
* `recv_timeout` with nobody sending returns `Timeout` (label `wTimeout`), and the worker re-tests the
  flag — the repair cea8c71.  `poll = false` is the code before that repair (blocking `recv()`).

Between the flag test and the moment the thread is registered as a waiting receiver (`entering`) a
`try_send` fails: this is the window in which the stop marker of the last drop is lost.

Labels are the atomic actions of the code, as in `Cadence.Model.Queue`:
`emitTry`, `clone`, `drop`, `stopFlag`, `stopPill` (the two steps of `Worker::stop()` run by the last
drop), `wCheck` (loop head), `wEnter` (the thread blocks in `recv_timeout`), `wTimeout`, `wTake` (the
receiver wakes up with the value handed to it, counts it and calls the wrapped sink — or leaves the
loop on the stop marker), `wFinish o`, `release`.
-/
namespace Queue0
open Queue (Outcome StopStage Ev Obs HOp HObs HEv HRes)

inductive Phase (μ : Type) | check | entering | waiting | got (x : Option μ) | running (m : μ) | exited
  deriving Repr

structure St (μ : Type) where
  poll : Bool
  hasHandler : Bool
  handles : List Nat
  nextHandle : Nat
  stopReq : Bool
  stopStage : StopStage
  phase : Phase μ
  submitted : Nat
  drained : Nat
  panics : Nat
  accepted : List μ        -- ghost: metrics whose try_send succeeded, in order
  wrappedLog : List μ      -- ghost: metrics handed to the wrapped sink, in order
  handlerLog : List Nat
  trace : List (Ev μ)
  released : Bool
  deriving Repr

inductive Label (μ : Type)
  | emitTry (h : Nat) (m : μ)
  | clone (h : Nat)
  | drop (h : Nat)
  | stopFlag | stopPill
  | wCheck | wEnter | wTimeout | wTake
  | wFinish (o : Outcome)
  | release
  deriving Repr

def init {μ} (poll hasHandler : Bool) : St μ :=
  { poll, hasHandler, handles := [0], nextHandle := 1, stopReq := false, stopStage := .idle, phase := .check,
    submitted := 0, drained := 0, panics := 0, accepted := [], wrappedLog := [], handlerLog := [], trace := [],
    released := false }

def step {μ} (s : St μ) : Label μ → Option (St μ × Obs)
  | .emitTry h m =>
    if h ∈ s.handles then
      match s.phase with
      | .waiting => some ({ s with phase := .got (some m), accepted := s.accepted ++ [m], submitted := s.submitted + 1 }, .emitOk)
      | _ => some (s, .emitErr)
    else none
  | .clone h =>
    if h ∈ s.handles then
      some ({ s with handles := s.nextHandle :: s.handles, nextHandle := s.nextHandle + 1 }, .none)
    else none
  | .drop h =>
    if h ∈ s.handles then
      let hs := s.handles.erase h
      if hs = [] then some ({ s with handles := hs, stopStage := .flag }, .none)
      else some ({ s with handles := hs }, .none)
    else none
  | .stopFlag =>
    match s.stopStage with
    | .flag => some ({ s with stopReq := true, stopStage := .pill }, .none)
    | _ => none
  | .stopPill =>
    match s.stopStage with
    | .pill =>
      match s.phase with
      | .waiting => some ({ s with stopStage := .done, phase := .got none }, .none)
      | _ => some ({ s with stopStage := .done }, .none)          -- `Full`: result ignored
    | _ => none
  | .wCheck =>
    match s.phase with
    | .check => if s.stopReq then some ({ s with phase := .exited }, .none) else some ({ s with phase := .entering }, .none)
    | _ => none
  | .wEnter =>
    match s.phase with
    | .entering => some ({ s with phase := .waiting }, .none)
    | _ => none
  | .wTimeout =>
    match s.phase with
    | .waiting => if s.poll then some ({ s with phase := .check }, .none) else none
    | _ => none
  | .wTake =>
    match s.phase with
    | .got (some m) => some ({ s with drained := s.drained + 1, phase := .running m,
                                      wrappedLog := s.wrappedLog ++ [m], trace := s.trace ++ [.enter m] }, .none)
    | .got none => some ({ s with phase := .exited }, .none)
    | _ => none
  | .wFinish o =>
    match s.phase with
    | .running _ =>
      match o with
      | .ok => some ({ s with phase := .check }, .none)
      | .err tok => some ({ s with phase := .check,
                                   handlerLog := if s.hasHandler then s.handlerLog ++ [tok] else s.handlerLog,
                                   trace := if s.hasHandler then s.trace ++ [.handled tok] else s.trace }, .none)
      | .panic => some ({ s with phase := .check, panics := s.panics + 1 }, .none)
    | _ => none
  | .release =>
    match s.phase with
    | .exited => if s.handles = [] && s.stopStage == .done && !s.released then
        some ({ s with released := true, trace := s.trace ++ [.released] }, .none) else none
    | _ => none

inductive Reachable {μ} (poll hh : Bool) : St μ → Prop
  | init : Reachable poll hh (init poll hh)
  | step {s s' l o} : Reachable poll hh s → step s l = some (s', o) → Reachable poll hh s'

def inflight {μ} : Phase μ → List μ
  | .got (some m) => [m]
  | _ => []

/-- steps that need no further call by any user of the sink -/
def isSystem {μ} : Label μ → Bool
  | .stopFlag | .stopPill | .wCheck | .wEnter | .wTimeout | .wTake | .wFinish _ | .release => true
  | _ => false

def runLabels {μ} (s : St μ) : List (Label μ) → Option (St μ)
  | [] => some s
  | l :: ls => match step s l with
    | some (s', _) => runLabels s' ls
    | none => none

def phaseM {μ} : Phase μ → Nat
  | .exited => 0 | .check => 1 | .got none => 1 | .waiting => 2 | .running _ => 2 | .entering => 3 | .got (some _) => 3

def stageM : StopStage → Nat
  | .flag => 2 | .pill => 1 | _ => 0

/-- bound on the number of system steps once the stop flag is set -/
def measure {μ} (s : St μ) : Nat := phaseM s.phase + stageM s.stopStage + (if s.released then 0 else 1)

/-! ### the quiescent schedule used by the correspondence (`queue0` cases)

The worker runs until it blocks: inside the gated wrapped sink, waiting for a sender, or exited and
released.  A waiting worker whose stop flag is set leaves through the time-out. -/

def workerStep {μ} (s : St μ) : Option (Label μ) :=
  match s.stopStage with
  | .flag => some .stopFlag
  | .pill => some .stopPill
  | _ =>
  match s.phase with
  | .check => some .wCheck
  | .entering => some .wEnter
  | .waiting => if s.stopReq && s.poll then some .wTimeout else none
  | .got _ => some .wTake
  | .running _ => none
  | .exited => if s.handles.isEmpty && s.stopStage == .done && !s.released then some .release else none

def settle {μ} : Nat → St μ → St μ
  | 0, s => s
  | fuel + 1, s =>
    match workerStep s with
    | none => s
    | some l => match step s l with
      | some (s', _) => settle fuel s'
      | none => s

abbrev M := String

def settleAll (s : St M) : St M := settle 12 s

def newEvents (before after : List (Ev M)) (kind : Nat) : List HEv :=
  (after.drop before.length).map fun
    | .enter m => .enter m true
    | .handled tok => .handled kind (toString tok) true
    | .released => .dropped

/-- One harness operation in the quiescent schedule.  Whether an emit finds the worker already waiting
is a race the harness cannot steer (after a finished call, or right after construction, the thread may
not be back in `recv_timeout` yet): `implRefused` is the implementation's answer and resolves that
choice.  A refusal is a run of the LTS in every state (the worker's time-out returns it to the loop
head, where a `try_send` fails); an acceptance is one only when the worker can be waiting — the model
answers `err` otherwise and the comparison fails. -/
def modelOp (s : St M) (fins : Nat) (op : HOp) (implRefused : Bool) : St M × Nat × HObs :=
  let tr0 := s.trace
  match op with
  | .emit h m len =>
    if implRefused then
      if h ∈ s.handles then (s, fins, ⟨.err 15, []⟩) else (s, fins, ⟨.nohandle, []⟩)
    else
    match step s (.emitTry h m) with
    | none => (s, fins, ⟨.nohandle, []⟩)
    | some (s1, .emitOk) =>
      let s3 := settleAll s1
      (s3, fins, ⟨.ok (some len), newEvents tr0 s3.trace 0⟩)
    | some (s1, _) => (s1, fins, ⟨.err 15, []⟩)
  | .clone h =>
    match step s (.clone h) with
    | none => (s, fins, ⟨.nohandle, []⟩)
    | some (s1, _) => (s1, fins, ⟨.ok none, []⟩)
  | .drop h =>
    match step s (.drop h) with
    | none => (s, fins, ⟨.nohandle, []⟩)
    | some (s1, _) =>
      let s2 := settleAll s1
      (s2, fins, ⟨.ok none, newEvents tr0 s2.trace 0⟩)
  | .flush h => if h ∈ s.handles then (s, fins, ⟨.ok none, [.flushed]⟩) else (s, fins, ⟨.nohandle, []⟩)
  | .stats h =>
    if h ∈ s.handles then (s, fins, ⟨.stats s.submitted s.drained (Queue.queuedOf s.submitted s.drained) s.panics, []⟩)
    else (s, fins, ⟨.nohandle, []⟩)
  | .sinkStats h =>
    if h ∈ s.handles then (s, fins, ⟨.sinkStats 70 3 50 2, []⟩) else (s, fins, ⟨.nohandle, []⟩)
  | .fin oc kind =>
    let o : Outcome := match oc with | .err _ => .err (fins + 1) | x => x
    match step s (.wFinish o) with
    | none => (s, fins, ⟨.idle, []⟩)
    | some (s1, _) =>
      let s2 := settleAll s1
      (s2, fins + 1, ⟨.ok none, newEvents tr0 s2.trace kind⟩)

def modelRun (hh : Bool) (ops : List (HOp × Bool)) : List HObs :=
  let rec go (s : St M) (fins : Nat) (ops : List (HOp × Bool)) (acc : List HObs) : List HObs :=
    match ops with
    | [] => acc.reverse
    | (op, refused) :: rest =>
      let r := modelOp s fins op refused
      go r.1 r.2.1 rest (r.2.2 :: acc)
  go (settleAll (init true hh)) 0 ops []

end Queue0
