/-
Model of `QueuingMetricSink` (`/repo/cadence/src/sinks/queuing.rs`) as a labelled transition system.

Actors: any number of producer handles (the original and its clones), the background worker
thread (and its respawns after a panic), the environment (what the wrapped sink answers).
Granularity: one label per atomic action of the code —

* `emitTry h m`  `sender.try_send(Some(m))` on handle `h` (the linearisation point of an emit)
* `emitCount`    the `submitted.fetch_add` that follows a successful try_send (separate, so the
                 window in which `drained` has overtaken `submitted` is in the model)
* `clone h` / `drop h`   handle management; dropping the *last* handle starts `WorkerStopper::drop`,
                 which runs `Worker::stop()` in two separately scheduled steps:
* `stopFlag`     `stop_requested.store(true)`
* `stopPill`     `sender.try_send(None)`, its result ignored (a full bounded queue refuses the pill)
* `wCheck`       the worker's loop head: stop requested and queue empty → leave the loop
* `wRecv`        `receiver.recv()`: blocks (label disabled) on an empty queue
* `wCount`       `drained.fetch_add`, then the call into the wrapped sink begins
* `wFinish o`    the wrapped sink returns Ok / Err(tok) / panics; an error goes to the handler if one
                 is configured; a panic unwinds the thread, `Sentinel::drop` counts it and spawns a
                 new thread that re-enters the loop head
* `release`      the wrapped sink's `Drop` runs: the worker thread has exited, no handle is left and
                 the stopper has finished `stop()` (it holds an `Arc<Worker>` until then)

crossbeam's channel is a linearizable FIFO with atomic try_send / recv (trusted).  A zero-capacity
(rendezvous) channel has different try_send semantics and is outside *this* LTS: liveness theorems
carry `cap ≠ some 0`.  Capacity 0, with the worker's polling loop (`recv_timeout`, repair cea8c71), is
modelled in `Cadence/Model/Queue0.lean`.
-/
namespace Queue

inductive Outcome | ok | err (tok : Nat) | panic
  deriving DecidableEq, Repr

inductive Phase (μ : Type) | check | recving | got (m : μ) | running (m : μ) | exited
  deriving DecidableEq, Repr

/-- progress of `WorkerStopper::drop` (runs once, when the last handle goes) -/
inductive StopStage | idle | flag | pill | done
  deriving DecidableEq, Repr

/-- what the wrapped sink, the handler and the wrapped sink's `Drop` see, in real-time order -/
inductive Ev (μ : Type) | enter (m : μ) | handled (tok : Nat) | released
  deriving DecidableEq, Repr

structure St (μ : Type) where
  cap : Option Nat
  hasHandler : Bool
  chan : List (Option μ)
  handles : List Nat
  nextHandle : Nat
  stopReq : Bool
  stopStage : StopStage
  phase : Phase μ
  submitted : Nat
  drained : Nat
  panics : Nat
  pendingIncr : Nat
  accepted : List μ        -- ghost: linearisation order of successful try_sends
  wrappedLog : List μ      -- ghost: metrics handed to the wrapped sink, in call order
  handlerLog : List Nat    -- ghost: error tokens passed to the handler, in order
  finished : List Outcome  -- ghost: outcomes of the completed wrapped-sink calls, in order
  trace : List (Ev μ)      -- ghost: unified real-time event log
  released : Bool
  deriving Repr

inductive Label (μ : Type)
  | emitTry (h : Nat) (m : μ)
  | emitCount
  | clone (h : Nat)
  | drop (h : Nat)
  | stopFlag | stopPill
  | wCheck | wRecv | wCount
  | wFinish (o : Outcome)
  | release
  deriving Repr

inductive Obs | none | emitOk | emitErr
  deriving DecidableEq, Repr

def room {μ} (s : St μ) : Bool :=
  match s.cap with
  | .none => true
  | .some c => s.chan.length < c

def init {μ} (cap : Option Nat) (hasHandler : Bool) : St μ :=
  { cap, hasHandler, chan := [], handles := [0], nextHandle := 1, stopReq := false, stopStage := .idle, phase := .check,
    submitted := 0, drained := 0, panics := 0, pendingIncr := 0, accepted := [], wrappedLog := [],
    handlerLog := [], finished := [], trace := [], released := false }

def step {μ} (s : St μ) : Label μ → Option (St μ × Obs)
  | .emitTry h m =>
    if h ∈ s.handles then
      if room s then
        some ({ s with chan := s.chan ++ [some m], accepted := s.accepted ++ [m], pendingIncr := s.pendingIncr + 1 }, .emitOk)
      else some (s, .emitErr)
    else none
  | .emitCount =>
    if 0 < s.pendingIncr then
      some ({ s with pendingIncr := s.pendingIncr - 1, submitted := s.submitted + 1 }, .none)
    else none
  | .clone h =>
    if h ∈ s.handles then
      some ({ s with handles := s.nextHandle :: s.handles, nextHandle := s.nextHandle + 1 }, .none)
    else none
  | .drop h =>
    if h ∈ s.handles then
      let hs := s.handles.erase h
      if hs = [] then some ({ s with handles := hs, stopStage := .flag }, .none)
      else some ({ s with handles := hs }, .none)
    else none
  | .stopFlag =>
    match s.stopStage with
    | .flag => some ({ s with stopReq := true, stopStage := .pill }, .none)
    | _ => none
  | .stopPill =>
    match s.stopStage with
    | .pill => some ({ s with stopStage := .done, chan := if room s then s.chan ++ [none] else s.chan }, .none)
    | _ => none
  | .wCheck =>
    match s.phase with
    | .check =>
      if s.stopReq && s.chan.isEmpty then some ({ s with phase := .exited }, .none)
      else some ({ s with phase := .recving }, .none)
    | _ => none
  | .wRecv =>
    match s.phase with
    | .recving =>
      match s.chan with
      | [] => none                                   -- blocked in recv()
      | .none :: rest => some ({ s with chan := rest, phase := .exited }, .none)
      | .some m :: rest => some ({ s with chan := rest, phase := .got m }, .none)
    | _ => none
  | .wCount =>
    match s.phase with
    | .got m => some ({ s with drained := s.drained + 1, phase := .running m,
                               wrappedLog := s.wrappedLog ++ [m], trace := s.trace ++ [.enter m] }, .none)
    | _ => none
  | .wFinish o =>
    match s.phase with
    | .running _ =>
      match o with
      | .ok => some ({ s with phase := .check, finished := s.finished ++ [o] }, .none)
      | .err tok => some ({ s with phase := .check, finished := s.finished ++ [o],
                                   handlerLog := if s.hasHandler then s.handlerLog ++ [tok] else s.handlerLog,
                                   trace := if s.hasHandler then s.trace ++ [.handled tok] else s.trace }, .none)
      | .panic => some ({ s with phase := .check, finished := s.finished ++ [o], panics := s.panics + 1 }, .none)
    | _ => none
  | .release =>
    match s.phase with
    | .exited => if s.handles = [] && s.stopStage == .done && !s.released then
        some ({ s with released := true, trace := s.trace ++ [.released] }, .none) else none
    | _ => none

inductive Reachable {μ} (cap : Option Nat) (hh : Bool) : St μ → Prop
  | init : Reachable cap hh (init cap hh)
  | step {s s' l o} : Reachable cap hh s → step s l = some (s', o) → Reachable cap hh s'

def somes {μ} : List (Option μ) → List μ
  | [] => []
  | .none :: r => somes r
  | .some m :: r => m :: somes r

def inflight {μ} : Phase μ → List μ
  | .got m => [m]
  | _ => []

def isWorker {μ} : Label μ → Bool
  | .wCheck | .wRecv | .wCount | .wFinish _ | .release => true
  | _ => false

/-- steps that need no further call by any user of the sink: the worker's, and the two steps of the
`stop()` already running inside the last handle's destructor -/
def isSystem {μ} : Label μ → Bool
  | .stopFlag | .stopPill => true
  | l => isWorker l

/-- run a sequence of labels; `none` if one of them is not enabled -/
def runLabels {μ} (s : St μ) : List (Label μ) → Option (St μ)
  | [] => some s
  | l :: ls => match step s l with
    | some (s', _) => runLabels s' ls
    | none => none

/-- `WorkerStats::queued`: saturating difference of two counter reads -/
def queuedOf (submitted drained : Nat) : Nat := if submitted > drained then submitted - drained else 0

/-! ### the deterministic quiescent schedule used by the correspondence

After each harness operation the dropping thread finishes `stop()` (if it is inside one) and the
worker runs until it blocks: inside the (gated) wrapped sink, in `recv()` on an empty queue, or
exited (and released).  `settle` is that schedule; it is one particular sequence of LTS labels
(`settle_reachable`). -/

def workerStep {μ} (s : St μ) : Option (Label μ) :=
  match s.stopStage with
  | .flag => some .stopFlag
  | .pill => some .stopPill
  | _ =>
  match s.phase with
  | .check => some .wCheck
  | .recving => if s.chan.isEmpty then none else some .wRecv
  | .got _ => some .wCount
  | .running _ => none
  | .exited => if s.handles.isEmpty && s.stopStage == .done && !s.released then some .release else none

def settle {μ} : Nat → St μ → St μ
  | 0, s => s
  | fuel + 1, s =>
    match workerStep s with
    | none => s
    | some l => match step s l with
      | some (s', _) => settle fuel s'
      | none => s

end Queue
