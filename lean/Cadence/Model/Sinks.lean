import Cadence.Model.Writer
/-
Model of the socket-backed sinks (`/repo/cadence/src/sinks/{udp,unix,core}.rs`): the unbuffered
sinks make exactly one datagram send per emit with the metric's bytes as payload; the buffered
sinks are the line writer with terminator "\n" and capacity 512 unless given; every send attempt
passes through `SocketStats::update`.
-/
namespace Sinks
open Mlw

/-- `SinkStats` -/
structure Stats where
  bytesSent : Nat := 0
  packetsSent : Nat := 0
  bytesDropped : Nat := 0
  packetsDropped : Nat := 0
  deriving DecidableEq, Repr

/-- `SocketStats::update(res, len)` for one send attempt of `len` bytes (an accepted datagram
send reports `len` bytes written) -/
def Stats.update (s : Stats) (len : Nat) (ok : Bool) : Stats :=
  if ok then { s with bytesSent := s.bytesSent + len, packetsSent := s.packetsSent + 1 }
  else { s with bytesDropped := s.bytesDropped + len, packetsDropped := s.packetsDropped + 1 }

def Stats.updateAll (s : Stats) (as : List (Nat × Bool)) : Stats :=
  as.foldl (fun acc a => acc.update a.1 a.2) s

/-- an unbuffered sink's emit: one attempt, payload exactly the metric's bytes -/
def unbufferedEmit {α} (m : List α) (orc : List Outcome) : Res × List (Attempt α) × List Outcome :=
  direct m orc

def DEFAULT_BUFFER_SIZE : Nat := 512

/-- configuration of a buffered socket sink -/
def bufferedCfg (cap : Option Nat) : Cfg UInt8 := ⟨cap.getD DEFAULT_BUFFER_SIZE, [10]⟩

def attemptStats {α} (as : List (Attempt α)) : List (Nat × Bool) := as.map fun a => (a.payload.length, a.err.isNone)

end Sinks
