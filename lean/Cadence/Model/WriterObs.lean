import Cadence.Model.Writer
/-!
Observation-level notions the writer properties are stated with: which lines were acknowledged,
which lines an accepted write carried, in-order greedy packing.
-/
namespace Mlw
variable {α : Type}

/-- lines acknowledged with `Ok` that fit the buffer (oversize metrics bypass it), in order -/
def acceptedBuffered (c : Cfg α) : List (Op α) → List (SOpObs α) → List (List α)
  | .emit m :: ops, o :: os =>
    (match o.res with
     | .ok _ => if m.length + c.ending.length ≤ c.cap then [m] else []
     | _ => []) ++ acceptedBuffered c ops os
  | .flush :: ops, _ :: os => acceptedBuffered c ops os
  | _, _ => []

/-- the lines carried by a structured attempt that the socket accepted -/
def SAtt.lines : SAtt α → List (List α)
  | .group ms none => ms
  | _ => []

def deliveredLines (os : List (SOpObs α)) : List (List α) :=
  os.flatMap (fun o => o.atts.flatMap SAtt.lines)

/-- the groups of lines the socket accepted, in order -/
def SAtt.groupOk : SAtt α → List (List (List α))
  | .group ms none => [ms]
  | _ => []

def deliveredGroups (os : List (SOpObs α)) : List (List (List α)) :=
  os.flatMap (fun o => o.atts.flatMap SAtt.groupOk)

/-- in-order greedy packing of lines into groups whose frames fit the capacity; `cur` is the open group -/
def pack (c : Cfg α) : List (List α) → List (List α) → List (List (List α))
  | cur, [] => if cur.isEmpty then [] else [cur]
  | cur, m :: ms =>
    if (frame c cur).length + (m.length + c.ending.length) ≤ c.cap then pack c (cur ++ [m]) ms
    else if cur.isEmpty then pack c [m] ms else cur :: pack c [m] ms

/-- number of further datagrams in-order greedy packing opens, starting from a datagram filled to `f` -/
def bins (cap : Nat) : Nat → List Nat → Nat
  | _, [] => 0
  | f, x :: xs => if f + x ≤ cap then bins cap (f + x) xs else 1 + bins cap x xs

end Mlw
