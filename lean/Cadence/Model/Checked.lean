import Cadence.Model.Format
/-
The arithmetic of the library that could panic when built with overflow checks (C20), modelled in
a `Checked` monad: `usize` addition / multiplication overflow at 2^64, `usize` subtraction underflow.

* `MetricFormatter::from_val` / `with_tag` / `with_tag_value` / `size_hint` (`builder.rs`)
* `MultiLineWriter::write`'s `capacity - written` is in `Cadence/Model/Writer.lean` (`mlwWrite`'s panic branch)
* the Duration conversions compare in u128 before narrowing (`Cadence/Model/Client.lean`)
* `WorkerStats::queued` is a guarded subtraction (`Queue.queuedOf`)
-/
namespace Fmt

inductive Checked (β : Type) where
  | ok (v : β) | panic
  deriving Repr, DecidableEq

def USIZE : Nat := 2 ^ 64

def cadd (a b : Nat) : Checked Nat := if a + b < USIZE then .ok (a + b) else .panic
def cmul (a b : Nat) : Checked Nat := if a * b < USIZE then .ok (a * b) else .panic
def csub (a b : Nat) : Checked Nat := if b ≤ a then .ok (a - b) else .panic

def Checked.bind {β γ} (x : Checked β) (f : β → Checked γ) : Checked γ :=
  match x with
  | .ok v => f v
  | .panic => .panic

instance : Monad Checked where
  pure := .ok
  bind := Checked.bind

def csum : List Nat → Checked Nat
  | [] => .ok 0
  | x :: xs => do
    let r ← csum xs
    cadd x r

/-- `base_size` as `from_val` computes it: prefix.len() + key.len() + 1 + 10 * value_count + 1 + 2 -/
def baseSize (f : MFmt) : Checked Nat := do
  let a ← cadd f.pfx.length f.key.length
  let b ← cadd a 1
  let c ← cmul 10 f.val.count
  let d ← cadd b c
  let e ← cadd d 1
  cadd e 2

/-- `kv_size` as accumulated by `with_tag` (key.len() + 1 + value.len()) / `with_tag_value` (value.len()) -/
def kvSize (tags : List Tag) : Checked Nat :=
  csum (tags.map fun t => match t.key with | some k => k.length + 1 + t.value.length | none => t.value.length)

/-- `tag_size_hint`: 0 without tags, else TAG_PREFIX.len() + kv_size + tags.len() - 1 -/
def tagSizeHint (tags : List Tag) : Checked Nat :=
  if tags.isEmpty then .ok 0 else do
    let kv ← kvSize tags
    let a ← cadd 2 kv
    let b ← cadd a tags.length
    csub b 1

/-- `size_hint` -/
def sizeHint (f : MFmt) : Checked Nat := do
  let b ← baseSize f
  let r ← cadd b (if f.rate.isSome then 19 else 0)
  let t ← tagSizeHint f.tags
  let rt ← cadd r t
  let ts ← cadd rt (if f.ts.isSome then 12 else 0)
  cadd ts (match f.cid with | some c => 2 + c.length | none => 0)

/-- total bytes of the strings a formatter refers to (each lives in memory, so the total is far below 2^63) -/
def inputBytes (f : MFmt) : Nat :=
  f.pfx.length + f.key.length + (f.tags.map fun t => (match t.key with | some k => k.length | none => 0) + t.value.length).sum
    + (match f.cid with | some c => c.length | none => 0)

end Fmt
