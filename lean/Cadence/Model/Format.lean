/-
Model of cadence's metric formatting (`/repo/cadence/src/builder.rs`: `MetricValue`, `MetricFormatter`)
and of the DogStatsD line grammar it is supposed to produce.

Text is a list of UTF-8 bytes (`Str`): every delimiter is ASCII and UTF-8 never encodes a non-ASCII
scalar with an ASCII byte, so concatenation, "contains no delimiter" and trimming trailing dots are
the same on bytes as on `str`.  Byte length is what `Ok(metric.len())` and the buffers count.
-/
namespace Fmt

abbrev Str := List UInt8

def ch (c : Char) : UInt8 := c.toNat.toUInt8

def COLON : UInt8 := 58   -- ':'
def PIPE : UInt8 := 124   -- '|'
def HASH : UInt8 := 35    -- '#'
def COMMA : UInt8 := 44   -- ','
def AT : UInt8 := 64      -- '@'
def NL : UInt8 := 10      -- '\n'
def DOT : UInt8 := 46     -- '.'
def MINUS : UInt8 := 45   -- '-'
def LC : UInt8 := 99      -- 'c'
def UT : UInt8 := 84      -- 'T'

/-! ## decimal numerals (what `impl Display` for the integer types prints) -/

/-- decimal digits of `n`, most significant first; fuel = an upper bound on the digit count -/
def natDigitsAux : Nat → Nat → List Nat → List Nat
  | 0, _, acc => acc
  | fuel + 1, n, acc => if n < 10 then n :: acc else natDigitsAux fuel (n / 10) (n % 10 :: acc)

def natDigits (n : Nat) : List Nat := natDigitsAux (n + 1) n []

def digitByte (d : Nat) : UInt8 := (48 + d).toUInt8

def renderNat (n : Nat) : Str := (natDigits n).map digitByte

def renderInt (i : Int) : Str :=
  if i < 0 then MINUS :: renderNat i.natAbs else renderNat i.natAbs

def digitVal? (b : UInt8) : Option Nat :=
  if 48 ≤ b.toNat ∧ b.toNat ≤ 57 then some (b.toNat - 48) else none

def parseNatAux : List UInt8 → Nat → Option Nat
  | [], acc => some acc
  | b :: bs, acc => match digitVal? b with
    | some d => parseNatAux bs (acc * 10 + d)
    | none => none

/-- parse a non-empty string of ASCII digits -/
def parseNat (s : Str) : Option Nat := if s.isEmpty then none else parseNatAux s 0

def parseInt (s : Str) : Option Int :=
  match s with
  | b :: rest => if b = MINUS then (parseNat rest).map (fun n => -(n : Int)) else (parseNat s).map (fun n => (n : Int))
  | [] => none

/-! ## values -/

/-- a float as the harness saw it: its 64 IEEE bits and the text `format!("{}", x)` printed (std) -/
structure FloatTok where
  bits : Nat
  text : Str
  deriving DecidableEq, Repr

inductive Val where
  | signed (v : Int)
  | psigned (l : List Int)
  | unsigned (v : Nat)
  | punsigned (l : List Nat)
  | float (t : FloatTok)
  | pfloat (l : List FloatTok)
  deriving DecidableEq, Repr

/-- `MetricValue::count` -/
def Val.count : Val → Nat
  | .psigned l => l.length
  | .punsigned l => l.length
  | .pfloat l => l.length
  | _ => 1

/-- the rendered numerals of a value, in order -/
def Val.tokens : Val → List Str
  | .signed v => [renderInt v]
  | .psigned l => l.map renderInt
  | .unsigned v => [renderNat v]
  | .punsigned l => l.map renderNat
  | .float t => [t.text]
  | .pfloat l => l.map (·.text)

/-- join with a one-byte separator (`write_value`, the tag loop) -/
def joinSep (sep : UInt8) : List Str → Str
  | [] => []
  | [l] => l
  | l :: l' :: ls => l ++ sep :: joinSep sep (l' :: ls)

def Val.render (v : Val) : Str := joinSep COLON v.tokens

inductive Kind where
  | counter | timer | gauge | meter | histogram | set | distribution
  deriving DecidableEq, Repr

def Kind.code : Kind → Str
  | .counter => [99]            -- c
  | .timer => [109, 115]        -- ms
  | .gauge => [103]             -- g
  | .meter => [109]             -- m
  | .histogram => [104]         -- h
  | .set => [115]               -- s
  | .distribution => [100]      -- d

def Kind.ofCode? (s : Str) : Option Kind :=
  if s = [99] then some .counter else if s = [109, 115] then some .timer
  else if s = [103] then some .gauge else if s = [109] then some .meter
  else if s = [104] then some .histogram else if s = [115] then some .set
  else if s = [100] then some .distribution else none

structure Tag where
  key : Option Str
  value : Str
  deriving DecidableEq, Repr

def Tag.render (t : Tag) : Str :=
  match t.key with
  | some k => k ++ COLON :: t.value
  | none => t.value

/-! ## `MetricFormatter` -/

structure MFmt where
  pfx : Str
  key : Str
  val : Val
  kind : Kind
  tags : List Tag := []
  ts : Option Nat := none
  rate : Option FloatTok := none
  cid : Option Str := none
  deriving Repr

/-- `MetricFormatter::format`: write_base_metric, write_sampling_rate, write_tags,
write_container_id, write_timestamp, in that order -/
def MFmt.format (f : MFmt) : Str :=
  f.pfx ++ f.key ++ COLON :: f.val.render ++ PIPE :: f.kind.code
  ++ (match f.rate with | some r => PIPE :: AT :: r.text | none => [])
  ++ (if f.tags.isEmpty then [] else PIPE :: HASH :: joinSep COMMA (f.tags.map Tag.render))
  ++ (match f.cid with | some c => PIPE :: LC :: COLON :: c | none => [])
  ++ (match f.ts with | some t => PIPE :: UT :: renderNat t | none => [])

/-! ## the line grammar and its parser -/

/-- `<name>:<v1>[:<v2>…]|<type>[|@<rate>][|#<tag>,…][|c:<container>][|T<timestamp>]` -/
structure Line where
  name : Str
  vals : List Str
  kind : Kind
  rate : Option Str
  tags : List Tag
  cid : Option Str
  ts : Option Str
  deriving DecidableEq, Repr

def Line.render (l : Line) : Str :=
  l.name ++ COLON :: joinSep COLON l.vals ++ PIPE :: l.kind.code
  ++ (match l.rate with | some r => PIPE :: AT :: r | none => [])
  ++ (if l.tags.isEmpty then [] else PIPE :: HASH :: joinSep COMMA (l.tags.map Tag.render))
  ++ (match l.cid with | some c => PIPE :: LC :: COLON :: c | none => [])
  ++ (match l.ts with | some t => PIPE :: UT :: t | none => [])

/-- split on a separator byte; the result is never empty -/
def splitOn (sep : UInt8) : Str → List Str
  | [] => [[]]
  | x :: xs =>
    if x = sep then [] :: splitOn sep xs
    else match splitOn sep xs with
      | [] => [[x]]
      | h :: t => (x :: h) :: t

def parseTag (s : Str) : Option Tag :=
  match splitOn COLON s with
  | [v] => some ⟨none, v⟩
  | [k, v] => some ⟨some k, v⟩
  | _ => none

/-- the optional sections, in their fixed order, each recognised by its leading byte(s) -/
def parseSections (fields : List Str) : Option (Option Str × List Tag × Option Str × Option Str) :=
  let (rate, r1) : Option Str × List Str := match fields with
    | (b :: t) :: r => if b = AT then (some t, r) else (none, fields)
    | _ => (none, fields)
  let tagsR : Option (List Tag × List Str) := match r1 with
    | (b :: t) :: r => if b = HASH then ((splitOn COMMA t).mapM parseTag).map (fun ts => (ts, r)) else some ([], r1)
    | _ => some ([], r1)
  match tagsR with
  | none => none
  | some (tags, r2) =>
    let (cid, r3) : Option Str × List Str := match r2 with
      | (b :: b' :: t) :: r => if b = LC ∧ b' = COLON then (some t, r) else (none, r2)
      | _ => (none, r2)
    let (ts, r4) : Option Str × List Str := match r3 with
      | (b :: t) :: r => if b = UT then (some t, r) else (none, r3)
      | _ => (none, r3)
    if r4.isEmpty then some (rate, tags, cid, ts) else none

def parseLine (s : Str) : Option Line :=
  match splitOn PIPE s with
  | base :: code :: rest =>
    match splitOn COLON base, Kind.ofCode? code, parseSections rest with
    | name :: v :: vs, some kind, some (rate, tags, cid, ts) => some ⟨name, v :: vs, kind, rate, tags, cid, ts⟩
    | _, _, _ => none
  | _ => none

/-- none of the delimiters `:` `|` `#` `,` `@` or a newline -/
def delimFree (s : Str) : Bool :=
  s.all fun b => b != COLON && b != PIPE && b != HASH && b != COMMA && b != AT && b != NL

def Tag.delimFree (t : Tag) : Bool :=
  (match t.key with | some k => Fmt.delimFree k | none => true) && Fmt.delimFree t.value

/-- the line a formatter denotes -/
def MFmt.toLine (f : MFmt) : Line :=
  ⟨f.pfx ++ f.key, f.val.tokens, f.kind, f.rate.map (·.text), f.tags, f.cid, f.ts.map renderNat⟩

end Fmt
