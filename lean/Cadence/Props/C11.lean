import Cadence.Proofs.QueueProps
/-!
# C11 — the queuing sink survives panics in the wrapped sink
-/
namespace C11
open Queue
variable {μ : Type}

/-- a panic consumes only the panicking metric: the queue, the accepted list, the handles and a
pending stop request are untouched, and the (respawned) worker is back at its loop head -/
theorem panic_consumes_only_the_metric (s s' : St μ) (o : Obs) (hs : step s (.wFinish .panic) = some (s', o)) :
    s'.chan = s.chan ∧ s'.accepted = s.accepted ∧ s'.phase = .check ∧ s'.handles = s.handles ∧
    s'.stopReq = s.stopReq ∧ s'.wrappedLog = s.wrappedLog :=
  panic_consumes_only_itself s s' o hs

/-- exactly-once, in-order delivery holds in every reachable state, and reachability includes every
pattern of `wFinish .panic` (consecutive panics, on the first or last queued metric, with a stop
pending): the other metrics — queued before or accepted after — are not lost, duplicated or reordered -/
theorem delivery_survives_panics {cap hh} (s : St μ) (h : Reachable cap hh s) :
    s.wrappedLog ++ inflight s.phase ++ somes s.chan = s.accepted := fifo_exactly_once s h

/-- the sink keeps accepting: producer steps stay enabled across panics (they never look at the worker) -/
theorem keeps_accepting (s : St μ) (h : Nat) (m : μ) (hh : h ∈ s.handles) :
    (step s (.emitTry h m)).isSome = true := by
  rw [emit_result s h m hh]; split <;> rfl

/-- the reported panic count equals the number of panics that occurred -/
theorem panic_count_exact {cap hh} (s : St μ) (h : Reachable cap hh s) :
    s.panics = s.finished.countP isPanic := panics_count s h

/-- a stop requested while a panicking metric is in flight is still honoured: after the last drop
the worker keeps stepping until it has exited and released, over every outcome script -/
theorem stop_honoured_after_panic {cap hh} (s : St μ) (h : Reachable cap hh s) (h0 : s.handles = [])
    (hc : s.cap ≠ some 0) (hr : s.released = false) : ∃ l, isSystem l = true ∧ (step s l).isSome = true :=
  progress s h h0 hc hr

-- non-vacuity: two consecutive panics, then a delivery; panics = 2, all three metrics handed over once
example : ((runLabels (init none false : St Nat)
    [.emitTry 0 1, .emitCount, .emitTry 0 2, .emitCount, .emitTry 0 3, .emitCount,
     .wCheck, .wRecv, .wCount, .wFinish .panic, .wCheck, .wRecv, .wCount, .wFinish .panic,
     .wCheck, .wRecv, .wCount, .wFinish .ok]).map (fun s => (s.wrappedLog, s.panics))) = some ([1, 2, 3], 2) := by decide

end C11
