import Cadence.Proofs.SinksProps
/-!
# C13 — socket sinks put exactly the metric bytes on the wire

The theorems are thin: the content of C13 is the tie to the real sockets (engine `sock`: loopback
UDP and Unix datagram sockets, blocking and non-blocking; what the peer socket actually reads is
compared byte for byte with the model's payloads).  **Partial**: kernel socket behaviour is outside
any model; "to the address given at construction" is observed (the peer is that address).
-/
namespace C13
open Mlw Sinks
variable {α : Type}

/-- an unbuffered sink's emit makes exactly one send, whose payload is exactly the metric's bytes,
and returns the number of bytes sent or the socket's error -/
theorem unbuffered_exact (m : List α) (orc : List Outcome) :
    ∃ e, (unbufferedEmit m orc).2.1 = [⟨m, e⟩] ∧
      (unbufferedEmit m orc).1 = (match e with | none => .ok m.length | some k => .err k) :=
  unbuffered_one_attempt m orc

/-- the buffered socket sinks are the line writer with a single newline as terminator and capacity
512 unless one is given -/
theorem buffered_configuration : bufferedCfg none = ⟨512, [10]⟩ ∧ ∀ c, bufferedCfg (some c) = ⟨c, [10]⟩ :=
  bufferedCfg_default

/-- so their datagrams have the form described in C05 … -/
theorem buffered_datagrams_framed (cap : Option Nat) (ops : List (Op UInt8)) (orc : List Outcome) :
    ∀ o ∈ runLife (bufferedCfg cap) ops orc, ∀ a ∈ o.atts, IsFrame (bufferedCfg cap) a.payload :=
  fun o ho => (life_framing (bufferedCfg cap) ops orc o ho).1

/-- … and what remains is sent when flushed or dropped (conservation with terminator "\n") -/
theorem buffered_sends_the_rest (cap : Option Nat) (ops : List (Op UInt8)) (orc : List Outcome) :
    deliveredLines (specOps (bufferedCfg cap) [] ops orc).1 ++ (specOps (bufferedCfg cap) [] ops orc).2.1 =
      acceptedBuffered (bufferedCfg cap) ops (specOps (bufferedCfg cap) [] ops orc).1 := by
  simpa using specOps_conservation (bufferedCfg cap) (bufferedCfg_ending_ne cap) ops [] orc

example : ((unbufferedEmit [1, 2, 3] [.err 7]).1, (unbufferedEmit [1, 2, 3] [.err 7]).2.1.map (·.payload)) =
    (.err 7, [[1, 2, 3]]) := by decide

end C13
