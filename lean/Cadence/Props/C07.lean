import Cadence.Proofs.WriterSpec
import Cadence.Proofs.WriterHistory
/-!
# C07 — a failed socket write loses only what was reported lost

Every statement quantifies over an arbitrary oracle: any assignment of accept / refuse (any error
kind) / Interrupted to each attempted underlying write, including failures on consecutive retries
and on the bypass path.  Writes are all-or-nothing (the property's own assumption).
-/
namespace C07
open Mlw
variable {α : Type}

/-- An emit returns Ok or the error of a write attempted during that very call (the last one);
it never panics. -/
theorem emit_result (c : Cfg α) (s : St α) (p : List (List α)) (m : List α) (orc : List Outcome)
    (hi : Inv c s p) :
    (mlwWrite c s m orc).1 ≠ .panic ∧
    ∀ k, (mlwWrite c s m orc).1 = .err k →
      ∃ a, (mlwWrite c s m orc).2.2.1.getLast? = some a ∧ a.err = some k := by
  obtain ⟨h1, _, h3, _⟩ := mlwWrite_refines c s p m orc hi
  refine ⟨by rw [h1]; exact specWrite_no_panic c p m orc, ?_⟩
  intro k hk
  rw [h1] at hk
  obtain ⟨a, hl, he⟩ := specWrite_err_attempt c p m orc k hk
  refine ⟨a.render c, by rw [h3, List.getLast?_map, hl]; rfl, ?_⟩
  cases a <;> simpa [SAtt.render, SAtt.err] using he

/-- A flush returns Ok or the error of its last attempted write, and keeps everything pending when
it fails. -/
theorem flush_result (c : Cfg α) (s : St α) (p : List (List α)) (orc : List Outcome) (hi : Inv c s p) :
    (mlwFlush s orc).1 ≠ .panic ∧
    ∀ k, (mlwFlush s orc).1 = .err k →
      (∃ a, (mlwFlush s orc).2.2.1.getLast? = some a ∧ a.err = some k) ∧
      Inv c (mlwFlush s orc).2.1 p := by
  obtain ⟨h1, h2, h3, _⟩ := mlwFlush_refines c s p orc hi
  refine ⟨by rw [h1]; exact specFlush_no_panic c p orc, ?_⟩
  intro k hk
  rw [h1] at hk
  obtain ⟨hp, _, a, hl, he⟩ := specFlush_err c p orc k hk
  refine ⟨⟨a.render c, by rw [h3, List.getLast?_map, hl]; rfl, ?_⟩, by rw [hp] at h2; exact h2⟩
  cases a <;> simpa [SAtt.render, SAtt.err] using he

/-- When an emit returns an error its own metric is not kept: the pending lines afterwards are the
old ones or none — it can never be written later. -/
theorem failed_emit_not_kept (c : Cfg α) (p : List (List α)) (m : List α) (orc : List Outcome) (k : Nat)
    (h : (specWrite c p m orc).1 = .err k) :
    (specWrite c p m orc).2.1 = p ∨ (specWrite c p m orc).2.1 = [] :=
  specWrite_err_pending c p m orc k h

/-- Conservation under every fault pattern: whatever fails, the lines the socket accepted (in
order) followed by those still pending are exactly the acknowledged fitting lines in emit order.
So nothing acknowledged is lost while the writer lives, nothing is written twice, nothing that was
reported failed is written, order is kept. -/
theorem conservation_under_faults (c : Cfg α) (hne : c.ending ≠ []) (ops : List (Op α)) (orc : List Outcome) :
    (runOps c ⟨0, []⟩ ops orc).1 = (specOps c [] ops orc).1.map (SOpObs.render c) ∧
    deliveredLines (specOps c [] ops orc).1 ++ (specOps c [] ops orc).2.1 =
      acceptedBuffered c ops (specOps c [] ops orc).1 := by
  refine ⟨(runOps_refines c ops ⟨0, []⟩ [] orc (inv_empty c)).1, ?_⟩
  simpa using specOps_conservation c hne ops [] orc

/-- Every write of a flush (explicit, during an emit, or on drop) carries *all* pending lines,
unsplit and in order; a refused one leaves them pending for the next attempt. -/
theorem flush_writes_all_pending (c : Cfg α) (p : List (List α)) (orc : List Outcome) :
    (∀ a ∈ (specFlush c p orc).2.2.1, (∃ e, a = .group p e) ∧ frame c p ≠ []) ∧
    (∀ a ∈ (specDrop c p orc).1, (∃ e, a = .group p e) ∧ frame c p ≠ []) :=
  ⟨specFlush_atts c p orc, specDrop_atts c p orc⟩

/-- Failures never corrupt framing and never panic: in every life, under every oracle, every
attempted write is a frame and no call panics. -/
theorem framing_survives_faults (c : Cfg α) (ops : List (Op α)) (orc : List Outcome) :
    ∀ o ∈ runLife c ops orc, (∀ a ∈ o.atts, IsFrame c a.payload) ∧ o.res ≠ .panic :=
  life_framing c ops orc

-- non-vacuity: the flush triggered by the 3rd emit fails twice (its metric is reported lost, once
-- refused, once after an Interrupted retry), the 4th succeeds and delivers both earlier lines whole
example : (specOps (⟨8, [10]⟩ : Cfg Nat) []
    [.emit [1,2], .emit [3,4], .emit [5,6,7], .emit [5,6,7], .emit [8,8,8]] [.err 8, .intr, .err 9]).1.map
      (fun o => (o.res, o.atts))
    = [(.ok 2, []), (.ok 2, []), (.err 8, [.group [[1,2],[3,4]] (some 8)]),
       (.err 9, [.group [[1,2],[3,4]] (some 4), .group [[1,2],[3,4]] (some 9)]),
       (.ok 3, [.group [[1,2],[3,4]] none])] := by decide

end C07
