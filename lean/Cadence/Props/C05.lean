import Cadence.Proofs.WriterHistory
import Cadence.Proofs.WriterRefine
import Cadence.Proofs.WriterCheck
/-!
# C05 — a buffered sink never splits or merges metrics across datagrams

Model: `Cadence/Model/Writer.lean` (`MultiLineWriter` over `BufWriter`), element type arbitrary.
The statements quantify over every capacity (0 and 1 included), every terminator (the empty one
included), every history of emits and flushes followed by the drop, and every oracle (pattern of
accepted / refused / interrupted underlying writes).
-/
namespace C05
open Mlw
variable {α : Type}

/-- Every write attempted on the underlying writer, in any operation of any life of a writer, is a
frame: a concatenation of one or more whole lines (metric ++ terminator) of total size ≤ capacity,
or a payload that cannot fit an empty buffer together with its terminator. -/
theorem framing (c : Cfg α) (ops : List (Op α)) (orc : List Outcome) :
    ∀ o ∈ runLife c ops orc, ∀ a ∈ o.atts, IsFrame c a.payload :=
  fun o ho => (life_framing c ops orc o ho).1

/-- The concrete writer's observable behaviour is exactly the rendering of the abstract
pending-lines specification: each attempt is `frame c ms` for a group `ms` of whole lines, or one
oversize metric alone and unmodified (`SAtt.render`). -/
theorem refines_spec (c : Cfg α) (ops : List (Op α)) (orc : List Outcome) :
    runLife c ops orc = (specLife c ops orc).map (SOpObs.render c) :=
  runLife_refines c ops orc

/-- the invariant that makes it work, for every reachable state: cadence's private fill counter
equals BufWriter's buffered length (or is the stale `cap` over an empty buffer after an exact-fill
pass-through), so BufWriter never flushes on its own in the middle of a line. -/
theorem invariant_reachable (c : Cfg α) (ops : List (Op α)) (orc : List Outcome) :
    ∃ p, Inv c (runOps c ⟨0, []⟩ ops orc).2.1 p :=
  (history_framing c ops orc ⟨0, []⟩ [] (inv_empty c)).2.2

/-- The executable predicate the driver evaluates on the *implementation's* observations for
C05 / C06 / C07 / C19 (`ckLife`, written against the properties) accepts every life of the model
(non-empty terminator): an implementation that behaves like the model is never flagged by it. -/
theorem predicate_accepts_every_model_life [DecidableEq α] (c : Cfg α) (hne : c.ending ≠ [])
    (ops : List (Op α)) (orc : List Outcome) : ckLife c [] ops (runLife c ops orc) = .ok () :=
  ckLife_accepts_model c hne ops orc

-- non-vacuity: exact fit, oversize bypass, failed flush, drop delivering what the failed flush kept
example : (runLife (⟨8, [10]⟩ : Cfg Nat)
    [.emit [1,2,3,4,5,6,7], .emit [1,2], .emit [1,2,3,4,5,6,7,8,9], .flush] [.ok, .ok, .err 5]).map
      (fun o => o.atts.map (·.payload))
    = [[], [[1,2,3,4,5,6,7,10]], [[1,2,3,4,5,6,7,8,9]], [[1,2,10]], [[1,2,10]]] := by decide

end C05
