import Cadence.Proofs.WriterSpec
/-!
# C06 — buffered sinks conserve metrics: accepted means written exactly once

The concrete writer's whole observable life is the rendering of the specification's
(`C05.refines_spec`), so conservation is stated on the structured trace `specOps` / `specLife`
and holds for the concrete trace through that equation (restated in `conservation`).  Line-level
statements assume a non-empty terminator (with an empty terminator "lines" are not delimited and
only the framing statements of C05 are meaningful).
-/
namespace C06
open Mlw
variable {α : Type}

/-- For every capacity, history and oracle: the concrete per-operation observations are the
rendering of the specification's, and on the latter the lines the socket accepted (in order)
followed by the lines still pending are exactly the acknowledged fitting lines in emit order —
each acknowledged line exactly once, in order, none invented. -/
theorem conservation (c : Cfg α) (hne : c.ending ≠ []) (ops : List (Op α)) (orc : List Outcome) :
    (runOps c ⟨0, []⟩ ops orc).1 = (specOps c [] ops orc).1.map (SOpObs.render c) ∧
    deliveredLines (specOps c [] ops orc).1 ++ (specOps c [] ops orc).2.1 =
      acceptedBuffered c ops (specOps c [] ops orc).1 := by
  refine ⟨(runOps_refines c ops ⟨0, []⟩ [] orc (inv_empty c)).1, ?_⟩
  simpa using specOps_conservation c hne ops [] orc

/-- A later flush that returns Ok: by then every line acknowledged so far has been accepted by the
socket exactly once, in emit order, and nothing remains buffered. -/
theorem flush_ok_all_written (c : Cfg α) (hne : c.ending ≠ []) (ops : List (Op α)) (orc : List Outcome) (n : Nat)
    (h : (specFlush c (specOps c [] ops orc).2.1 (specOps c [] ops orc).2.2).1 = .ok n) :
    deliveredLines (specOps c [] ops orc).1 ++
        (specFlush c (specOps c [] ops orc).2.1 (specOps c [] ops orc).2.2).2.2.1.flatMap SAtt.lines =
      acceptedBuffered c ops (specOps c [] ops orc).1 ∧
    (specFlush c (specOps c [] ops orc).2.1 (specOps c [] ops orc).2.2).2.1 = [] := by
  have hc := specOps_conservation c hne ops [] orc
  have hd := specFlush_delivers c hne (specOps c [] ops orc).2.1 (specOps c [] ops orc).2.2
  have hk := (specFlush_ok c _ _ n h).1
  rw [hk, List.append_nil] at hd
  refine ⟨?_, hk⟩
  rw [hd]; simpa using hc

/-- The drop writes what is still pending, once, if the socket accepts it. -/
theorem drop_all_written (c : Cfg α) (hne : c.ending ≠ []) (ops : List (Op α)) (orc : List Outcome)
    (h : ∀ a ∈ (specDrop c (specOps c [] ops orc).2.1 (specOps c [] ops orc).2.2).1, a.err = none) :
    deliveredLines (specOps c [] ops orc).1 ++
        (specDrop c (specOps c [] ops orc).2.1 (specOps c [] ops orc).2.2).1.flatMap SAtt.lines =
      acceptedBuffered c ops (specOps c [] ops orc).1 := by
  have hc := specOps_conservation c hne ops [] orc
  rw [specDrop_delivers c hne _ _ h]; simpa using hc

/-- After a successful flush nothing remains buffered, so flushing again writes nothing — for the
concrete writer, in any reachable state. -/
theorem flush_idempotent (c : Cfg α) (s : St α) (p : List (List α)) (orc orc' : List Outcome) (n : Nat)
    (hi : Inv c s p) (h : (mlwFlush s orc).1 = .ok n) :
    (mlwFlush (mlwFlush s orc).2.1 orc').2.2.1 = [] ∧ (mlwFlush (mlwFlush s orc).2.1 orc').1 = .ok 0 := by
  obtain ⟨h1, h2, _, _⟩ := mlwFlush_refines c s p orc hi
  rw [h1] at h
  have hk := (specFlush_ok c p orc n h).1
  rw [hk] at h2
  obtain ⟨g1, _, g3, _⟩ := mlwFlush_refines c (mlwFlush s orc).2.1 [] orc' h2
  rw [g1, g3, specFlush_nil]; simp

/-- `Ok(n)` from an emit carries the metric's byte length. -/
theorem emit_ok_len (c : Cfg α) (s : St α) (p : List (List α)) (m : List α) (orc : List Outcome) (n : Nat)
    (hi : Inv c s p) (h : (mlwWrite c s m orc).1 = .ok n) : n = m.length := by
  rw [(mlwWrite_refines c s p m orc hi).1] at h
  exact specWrite_ok_len c p m orc n h

/-- A metric too large for the buffer is written during its own emit: exactly one attempt, the
metric alone and unmodified, and the result says whether the socket took it. -/
theorem oversize_written_in_own_emit (c : Cfg α) (s : St α) (p : List (List α)) (m : List α)
    (orc : List Outcome) (hi : Inv c s p) (hbig : m.length + c.ending.length > c.cap) :
    ∃ e, (mlwWrite c s m orc).2.2.1 = [⟨m, e⟩] ∧
      (mlwWrite c s m orc).1 = (match e with | none => .ok m.length | some k => .err k) := by
  obtain ⟨h1, _, h3, _⟩ := mlwWrite_refines c s p m orc hi
  obtain ⟨e, ha, _, hr⟩ := specWrite_bypass c p m orc hbig
  exact ⟨e, by rw [h3, ha]; simp [SAtt.render], by rw [h1, hr]; cases e <;> rfl⟩

-- non-vacuity: three lines accepted, a flush in between, all delivered in order
example : deliveredLines (specOps (⟨8, [10]⟩ : Cfg Nat) []
    [.emit [1,2], .emit [3], .flush, .emit [4,5,6,7,8,9,9], .emit [5]] []).1 = [[1,2],[3],[4,5,6,7,8,9,9]] := by decide

end C06
