import Cadence.Model.Macros
import Cadence.Proofs.ClientProps
/-!
# C17 — macros are exactly the tagged quiet send on the global client

**Partial**: `macroTrace` is a hand-written model of the `macro_rules!` expansion; it is tied to
`macros.rs` by the correspondence (all seven macros × every value type × 0..4 tags, arguments wrapped
in counting blocks, one fresh child process per global configuration incl. the unset state), not by
translating the macro source.  The line sent is the `call` of C01/C03/C04 in quiet form.
-/
namespace C17
open Fmt

def evalIdx : MEv → Option Nat | .eval i => some i | _ => none
def emitOf : MEv → Option Str | .emit t => some t | _ => none
def handledOf : MEv → Option ErrRepr | .handled e => some e | _ => none

theorem filterMap_none {β γ : Type} (l : List β) : l.filterMap (fun _ => (none : Option γ)) = [] := by
  induction l with
  | nil => rfl
  | cons x xs ih => simp [List.filterMap_cons, ih]

/-- with no global client set the invocation panics and nothing is evaluated or emitted -/
theorem unset_panics_first (e : Entry) (key : Str) (a : Arg) (tags : List (Str × Str)) (sink : SinkOut) (tok : Nat) :
    macroTrace none e key a tags sink tok = some [.panic] := rfl

/-- it panics if and only if no global client has been set -/
theorem panics_iff_unset (g : Option ClientCfg) (e : Entry) (key : Str) (a : Arg) (tags : List (Str × Str))
    (sink : SinkOut) (tok : Nat) (tr : List MEv) (h : macroTrace g e key a tags sink tok = some tr) :
    MEv.panic ∈ tr ↔ g = none := by
  cases g with
  | none => simp [macroTrace] at h; subst h; simp
  | some cfg =>
    simp only [macroTrace] at h
    cases hc : call cfg e .send key a (tags.map fun kv => BOp.tag kv.1 kv.2) sink tok with
    | none => simp [hc] at h
    | some o =>
      simp [hc] at h; subst h
      simp

/-- every argument expression is evaluated exactly once, in source order: key, value, then each tag's
key and value in the order written — for every number of tags -/
theorem evaluates_each_argument_once_in_order (cfg : ClientCfg) (e : Entry) (key : Str) (a : Arg)
    (tags : List (Str × Str)) (sink : SinkOut) (tok : Nat) (tr : List MEv)
    (h : macroTrace (some cfg) e key a tags sink tok = some tr) :
    tr.filterMap evalIdx = List.range (2 + 2 * tags.length) := by
  simp only [macroTrace] at h
  cases hc : call cfg e .send key a (tags.map fun kv => BOp.tag kv.1 kv.2) sink tok with
  | none => simp [hc] at h
  | some o =>
    simp [hc] at h; subst h
    simp [List.filterMap_append, List.filterMap_map, Function.comp_def, evalIdx, filterMap_none]

/-- it sends what the tagged call on the global client, followed by adding the given tags in the order
written and a quiet send, sends: the same line in a single emit, failures only to that client's handler -/
theorem same_as_tagged_quiet_send (cfg : ClientCfg) (e : Entry) (key : Str) (a : Arg)
    (tags : List (Str × Str)) (sink : SinkOut) (tok : Nat) (tr : List MEv)
    (h : macroTrace (some cfg) e key a tags sink tok = some tr) :
    ∃ o, call cfg e .send key a (tags.map fun kv => BOp.tag kv.1 kv.2) sink tok = some o ∧
      tr.filterMap emitOf = o.emits ∧ tr.filterMap handledOf = o.handler ∧ o.emits.length ≤ 1 ∧ o.result = .unit := by
  simp only [macroTrace] at h
  cases hc : call cfg e .send key a (tags.map fun kv => BOp.tag kv.1 kv.2) sink tok with
  | none => simp [hc] at h
  | some o =>
    simp [hc] at h; subst h
    refine ⟨o, rfl, ?_, ?_, call_emits_le_one _ _ _ _ _ _ _ _ o hc, (call_send_unit _ _ _ _ _ _ _ o hc).1⟩
    · simp [List.filterMap_append, List.filterMap_map, Function.comp_def, emitOf, filterMap_none]
    · simp [List.filterMap_append, List.filterMap_map, Function.comp_def, handledOf, filterMap_none]

-- non-vacuity: statsd_count!("k", 3, "a" => "b") on a client with prefix "p"
example : macroTrace (some ⟨[112], [], none⟩) .count_i64 [107] (.i64 3) [([97], [98])] .accept 1
    = some [.eval 0, .eval 1, .eval 2, .eval 3, .emit [112, 46, 107, 58, 51, 124, 99, 124, 35, 97, 58, 98]] := by decide

end C17
