import Cadence.Proofs.QueueProps
/-!
# C16 — the queuing sink's error handler sees each wrapped-sink failure exactly once
-/
namespace C16
open Queue
variable {μ : Type}

/-- with a handler configured the handler has been invoked with exactly the errors the wrapped sink
returned, in order, each once; without one, never -/
theorem handler_sees_each_error_once {cap hh} (s : St μ) (h : Reachable cap hh s) :
    s.handlerLog = if hh then s.finished.filterMap errTok else [] := handler_log s h

/-- Real-time order: the unified event log is, call by call, `enter m` followed by `handled tok`
exactly when that call failed and a handler is configured — so each handler invocation lies between
the call it belongs to and the next metric, is never made for an accepted metric, and later metrics
are delivered as usual with or without a handler. -/
theorem handler_before_next_metric {cap hh} (s : St μ) (h : Reachable cap hh s) :
    s.trace = blocks s.wrappedLog s.finished hh ++ (if s.released then [.released] else []) := trace_blocks s h

/-- the handler runs on the background thread: only worker labels extend the handler log -/
theorem handler_on_worker (s s' : St μ) (l : Label μ) (o : Obs) (hs : step s l = some (s', o))
    (hl : isWorker l = false) : s'.handlerLog = s.handlerLog := (caller_isolation s s' l o hs hl).2.2.1

/-- delivery does not depend on the handler: exactly-once in-order hand-over holds either way -/
theorem delivery_independent_of_handler {cap hh} (s : St μ) (h : Reachable cap hh s) :
    s.wrappedLog ++ inflight s.phase ++ somes s.chan = s.accepted := fifo_exactly_once s h

-- non-vacuity: ok, err 5, err 6 with a handler: trace interleaves handler calls right after their metric
example : ((runLabels (init none true : St Nat)
    [.emitTry 0 1, .emitCount, .emitTry 0 2, .emitCount, .emitTry 0 3, .emitCount,
     .wCheck, .wRecv, .wCount, .wFinish .ok, .wCheck, .wRecv, .wCount, .wFinish (.err 5),
     .wCheck, .wRecv, .wCount, .wFinish (.err 6)]).map (·.trace))
    = some [.enter 1, .enter 2, .handled 5, .enter 3, .handled 6] := by decide

end C16
