import Cadence.Proofs.QueueProps
import Cadence.Proofs.QueueCheck
import Cadence.Proofs.Queue0Props
import Cadence.Proofs.Queue0Run
/-!
# C08 — queuing sink: every accepted metric reaches the wrapped sink once, in order

Model: `Cadence/Model/Queue.lean`, a labelled transition system whose reachable states cover every
interleaving of any number of producer handles, clones, drops, the worker thread's atomic steps and
every answer (Ok / Err / panic) of the wrapped sink, for bounded (capacity ≥ 1) and unbounded queues.
`accepted` is the ghost list of metrics whose `try_send` succeeded (= whose emit returned Ok), in
linearisation order; `wrappedLog` the ghost list of metrics the wrapped sink was called with.
-/
namespace C08
open Queue
variable {μ : Type}

/-- Safety, every reachable state: what the wrapped sink has been called with, then the metric the
worker holds, then what is still queued, is exactly the accepted sequence — so each accepted metric
is handed over at most once, nothing else is, and the order is the acceptance order. -/
theorem exactly_once_in_order {cap hh} (s : St μ) (h : Reachable cap hh s) :
    s.wrappedLog ++ inflight s.phase ++ somes s.chan = s.accepted :=
  fifo_exactly_once s h

/-- every producer's own order is preserved (take `f` = "was emitted by producer p") -/
theorem per_producer_order {cap hh} (s : St μ) (h : Reachable cap hh s) (f : μ → Bool) :
    (s.wrappedLog ++ inflight s.phase ++ somes s.chan).filter f = s.accepted.filter f :=
  Queue.per_producer_order s h f

/-- while any handle is alive the consumer exists: the worker has not exited -/
theorem worker_alive_while_handle_alive {cap hh} (s : St μ) (h : Reachable cap hh s) (hne : s.handles ≠ []) :
    s.phase ≠ .exited :=
  worker_alive s h hne

/-- Eventually: the worker is never stuck — unless it is inside the wrapped sink, or waiting on an
empty queue, or has exited and released, a system step (the worker's, or one of the two steps of
the `stop()` running in the last handle's destructor) is enabled; and any run of system steps
is finite (bounded by `measure`), so under any schedule that does not starve the worker and in
which every wrapped-sink call returns, every queued metric is handed over. -/
theorem worker_makes_progress {cap hh} (s : St μ) (h : Reachable cap hh s) :
    ((∃ m, s.phase = .running m) ∨ (s.phase = .recving ∧ s.chan = []) ∨
     (s.phase = .exited ∧ (s.handles ≠ [] ∨ s.released = true)) ∨
     ∃ l, isSystem l = true ∧ (step s l).isSome = true) ∧
    ∀ ls : List (Label μ), (∀ l ∈ ls, isSystem l = true) → (runLabels s ls).isSome = true → ls.length ≤ measure s :=
  ⟨worker_not_stuck s h, fun ls hw hr => worker_runs_bounded s ls hw hr⟩

/-- the deterministic schedule the correspondence runs the model in is a run of this system -/
theorem quiescent_schedule_is_a_run {cap hh} (n : Nat) (s : St μ) (h : Reachable cap hh s) :
    Reachable cap hh (settle n s) := settle_reachable n s h

/-- The executable predicates the correspondence evaluates on the implementation's observations
(`Cadence.Check.Queue`: the per-operation clauses of C08–C11, C15, C16 and the flush delegation of C06)
accept every history of harness operations as the model runs it, for every capacity (0 included),
with or without a handler: a predicate failure is never an artefact of the predicates. -/
theorem predicate_accepts_every_model_history (cap : Option Nat) (hh : Bool) (ops : List HOp) :
    ∃ st, ckOps cap hh {} ops (modelRun cap hh ops) = .ok st :=
  ckOps_accepts_model cap hh ops

/-- … and on *closed* histories (no handle left, the worker not parked inside the wrapped sink: what the
harness's closing drops and gate openings establish) the whole predicate accepts the model, including the
closing clauses "every accepted metric was handed over" and "the wrapped sink was dropped" — for every
capacity other than 0 (rendezvous channel: outside the liveness claims, see C09). -/
theorem predicate_accepts_every_closed_model_history (cap : Option Nat) (hh : Bool) (ops : List HOp)
    (hcap : cap ≠ some 0) (hclosed : closedAfter cap hh ops) :
    ckHistory cap hh {} ops (modelRun cap hh ops) = .ok () :=
  ckHistory_accepts_closed_model cap hh ops hcap hclosed

-- non-vacuity of `closedAfter`: two metrics (one failing, with a handler), a clone, both handles dropped
example : closedAfter (some 1) true
    [.emit 0 "aa" 1, .emit 0 "bb" 1, .fin (.err 0) 3, .clone 0, .drop 0, .fin .ok 0, .drop 1] := by
  refine ⟨rfl, ?_⟩
  have h : (modelFinal (some 1) true
    [.emit 0 "aa" 1, .emit 0 "bb" 1, .fin (.err 0) 3, .clone 0, .drop 0, .fin .ok 0, .drop 1]).phase = .exited := rfl
  intro m hm
  rw [h] at hm
  cases hm

/-- the fuel of the quiescent schedule always suffices: after `settleAll` the worker is blocked
(inside the wrapped sink, in `recv()` on an empty queue, or exited) -/
theorem quiescent_schedule_settles (s : St M) : workerStep (settleAll s) = none :=
  settleAll_quiescent s

-- non-vacuity: clone, drop the clone, emit on the original: the metric is delivered
example : ((runLabels (init (some 2) false : St Nat)
    [.clone 0, .drop 1, .emitTry 0 7, .emitCount, .wCheck, .wRecv, .wCount]).map (·.wrappedLog)) = some [7] := by decide

/-! ## capacity 0 (rendezvous channel, model `Cadence.Model.Queue0`) -/

/-- capacity 0: in every reachable state (either worker loop, every interleaving of producers, clones,
drops, the stopper and the worker, every answer of the wrapped sink) the metrics accepted so far are
exactly those handed to the wrapped sink, in the same order, plus at most the one in the worker's hand:
none is lost, duplicated or reordered -/
theorem rendezvous_fifo_exactly_once {poll hh} {μ : Type} (s : Queue0.St μ) (h : Queue0.Reachable poll hh s) :
    s.accepted = s.wrappedLog ++ Queue0.inflight s.phase ∧ (Queue0.inflight s.phase).length ≤ 1 :=
  ⟨(Queue0.reachable_inv s h).deliv, by cases hp : s.phase <;> simp [Queue0.inflight]; split <;> simp⟩

/-- capacity 0: the metric in the worker's hand is handed to the wrapped sink by the worker's next step -/
theorem rendezvous_in_hand_is_delivered {μ : Type} (s : Queue0.St μ) (m : μ) (hp : s.phase = .got (some m)) :
    ∃ s', Queue0.step s .wTake = some (s', .none) ∧ s'.wrappedLog = s.wrappedLog ++ [m] := by
  simp [Queue0.step, hp]

/-- capacity 0: every state the correspondence's model run passes through (`Queue0.modelOp` in the
quiescent schedule, refusals taken from the implementation) is a reachable state of the LTS, so the
theorems about reachable states apply to what the driver computes for a `queue0` case -/
theorem rendezvous_model_run_is_lts_run (hh : Bool) (ops : List (Queue.HOp × Bool)) :
    Queue0.Reachable true hh (Queue0.modelFinal hh ops) := Queue0.modelFinal_reachable hh ops

end C08
