import Cadence.Proofs.QueueProps
import Cadence.Proofs.Queue0Run
/-!
# C15 — queuing sink counters are consistent with what happened

`emitTry`/`emitCount` and `wRecv`/`wCount` are separate labels, so the window in which `drained`
has overtaken `submitted` is inside the model.
-/
namespace C15
open Queue
variable {μ : Type}

/-- in every reachable state: submitted (+ emits between their try_send and their count) is the
number of accepted emits; drained is the number of metrics handed to the wrapped sink -/
theorem counters_track_history {cap hh} (s : St μ) (h : Reachable cap hh s) :
    s.submitted + s.pendingIncr = s.accepted.length ∧ s.drained = s.wrappedLog.length := counters s h

/-- refused emits are counted nowhere: the state does not change at all -/
theorem refused_not_counted (s s' : St μ) (h : Nat) (m : μ) (hs : step s (.emitTry h m) = some (s', .emitErr)) :
    s' = s := refused_counts_nothing s s' h m hs

/-- at a quiescent moment submitted = #Ok emits and queued = what is waiting = submitted - drained -/
theorem quiescent_values {cap hh} (s : St μ) (h : Reachable cap hh s) (hq : s.pendingIncr = 0) :
    s.submitted = s.accepted.length ∧
    queuedOf s.submitted s.drained = (inflight s.phase ++ somes s.chan).length := quiescent_queued s h hq

/-- at every moment, for any two counter values read (in any order, at any times): the value
`queued()` computes lies between zero and the submitted value read, and never wraps -/
theorem queued_never_wraps (a b : Nat) : queuedOf a b ≤ a ∧ (a < 2 ^ 64 → queuedOf a b < 2 ^ 64) :=
  queued_bounds a b

-- non-vacuity: drained momentarily ahead of submitted (try_send done, count not yet) still gives 0
example : ((runLabels (init none false : St Nat) [.emitTry 0 1, .wCheck, .wRecv, .wCount]).map
    (fun s => (s.submitted, s.drained, queuedOf s.submitted s.drained))) = some (0, 1, 0) := by decide

/-- capacity 0 (model `Queue0`, where `submitted` is counted with the successful `try_send`): the
counters are the numbers of accepted and of handed-over metrics, and a rendezvous queue never holds
more than the one metric in the worker's hand -/
theorem rendezvous_counters {poll hh} (s : Queue0.St μ) (h : Queue0.Reachable poll hh s) :
    s.submitted = s.accepted.length ∧ s.drained = s.wrappedLog.length ∧
    s.drained ≤ s.submitted ∧ s.submitted ≤ s.drained + 1 := by
  have hc := Queue0.counters s h
  have hd := congrArg List.length (Queue0.reachable_inv s h).deliv
  have hl : (Queue0.inflight s.phase).length ≤ 1 := by
    cases hp : s.phase <;> simp [Queue0.inflight]; split <;> simp
  simp only [List.length_append] at hd
  refine ⟨hc.1, hc.2, ?_, ?_⟩ <;> omega

end C15
