import Cadence.Proofs.SinksProps
/-!
# C12 — concurrent emitters through a shared buffered sink stay line-atomic

Every buffered sink runs a whole `emit` / `flush` under its `Mutex` (`udp.rs`, `unix.rs`, `spy.rs`);
mutual exclusion of `std::sync::Mutex` is trusted, and that the code holds the lock across the
whole operation is what the correspondence validates (free-running threads whose datagram stream
must be the model's for the observed linearisation, plus a deterministic lock-contention scenario).
Under that assumption a concurrent execution *is* some interleaving `l` of the threads' operations,
i.e. a list of operations tagged with their thread — and the writer theorems hold for every list.
**Partial**: real schedules are sampled, not enumerated.
-/
namespace C12
open Mlw Sinks
variable {α : Type}

/-- framing (C05) for every interleaving of any number of threads' emits and flushes -/
theorem interleaving_framing (c : Cfg α) (l : List (Nat × Op α)) (orc : List Outcome) :
    ∀ o ∈ runLife c (l.map (·.2)) orc, (∀ a ∈ o.atts, IsFrame c a.payload) ∧ o.res ≠ .panic :=
  life_framing c (l.map (·.2)) orc

/-- conservation (C06) for every interleaving: every acknowledged line exactly once, whole -/
theorem interleaving_conservation (c : Cfg α) (hne : c.ending ≠ []) (l : List (Nat × Op α)) (orc : List Outcome) :
    deliveredLines (specOps c [] (l.map (·.2)) orc).1 ++ (specOps c [] (l.map (·.2)) orc).2.1 =
      acceptedBuffered c (l.map (·.2)) (specOps c [] (l.map (·.2)) orc).1 := by
  simpa using specOps_conservation c hne (l.map (·.2)) [] orc

/-- each thread's buffered metrics leave in that thread's program order: restricted to thread `t`'s
lines, what was written followed by what is pending is exactly `t`'s acknowledged lines, a
subsequence of `t`'s own program -/
theorem per_thread_program_order (c : Cfg α) (hne : c.ending ≠ []) (l : List (Nat × Op α)) (orc : List Outcome)
    (th : List α → Nat) (t : Nat) (htag : ∀ x ∈ l, ∀ m, x.2 = .emit m → th m = x.1) :
    let so := specOps c [] (l.map (·.2)) orc
    (deliveredLines so.1 ++ so.2.1).filter (fun m => th m == t) =
      (acceptedBuffered c (l.map (·.2)) so.1).filter (fun m => th m == t) ∧
    ((acceptedBuffered c (l.map (·.2)) so.1).filter (fun m => th m == t)).Sublist (emitLines (proj t l)) :=
  per_thread_order c hne l orc th t htag

-- non-vacuity: two threads (lines tagged by their first element), interleaved 0,1,0,1, capacity 6
example :
    deliveredLines (specLife (⟨6, [10]⟩ : Cfg Nat) ([(0, .emit [0, 1]), (1, .emit [1, 1]), (0, .emit [0, 2]), (1, .emit [1, 2])].map (·.2)) []) =
      [[0, 1], [1, 1], [0, 2], [1, 2]] := by decide

end C12
