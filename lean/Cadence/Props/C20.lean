import Cadence.Proofs.CheckedProps
import Cadence.Proofs.WriterHistory
import Cadence.Proofs.QueueProps
import Cadence.Proofs.ClientProps
/-!
# C20 — no input makes the library panic

What can panic in the library when built with overflow checks and debug assertions is its checked
arithmetic and its `unwrap`s; each is modelled with an explicit panic outcome and shown unreachable.
**Limits**: allocation failure / capacity overflow for absurd sizes (`with_capacity(usize::MAX)`,
`bounded(usize::MAX)`), thread-spawn failure and stack exhaustion are resource exhaustion, excluded by
hypothesis (`Fits`) and not exercised; `get_global_default().unwrap()` in the macros panics exactly
when no global client is set, which C17 states.  The correspondence runs every engine's hostile
stream under `catch_unwind` with overflow checks and debug assertions on.
-/
namespace C20
open Fmt

/-- `MultiLineWriter::write`'s `capacity - written` never underflows, and no emit / flush / drop of
any life of a writer panics — for every capacity (0 included), terminator, history and oracle.
Hence the sinks' `lock().unwrap()` can only meet a poisoned lock if the user's own `Write` panics. -/
theorem writer_never_panics {α : Type} (c : Mlw.Cfg α) (ops : List (Mlw.Op α)) (orc : List Mlw.Outcome) :
    ∀ o ∈ Mlw.runLife c ops orc, o.res ≠ .panic :=
  fun o ho => (Mlw.life_framing c ops orc o ho).2

/-- the formatter's size arithmetic (`from_val`, `with_tag`, `tag_size_hint`'s `len() - 1`, `size_hint`)
neither overflows nor underflows for inputs that exist in memory -/
theorem size_hint_never_panics (f : MFmt) (h : Fits f) : ∃ n, sizeHint f = .ok n ∧ n < 2 ^ 63 :=
  sizeHint_no_panic f h

/-- Duration conversions: the u128 arithmetic cannot overflow and the `as u64` happens only under
the guard that makes it exact; invalid values are reported as errors, not panics -/
theorem duration_conversions_safe (s n : Nat) (hs : s < 2 ^ 64) (hn : n < 1000000000) :
    (toMillis s n < 2 ^ 128 ∧ toNanos s n < 2 ^ 128) ∧
    (convert .time_dur (.dur s n) = some (.error .inv) ∨ convert .time_dur (.dur s n) = some (.ok (.unsigned (toMillis s n)))) ∧
    (convert .hist_dur (.dur s n) = some (.error .inv) ∨ convert .hist_dur (.dur s n) = some (.ok (.unsigned (toNanos s n)))) := by
  refine ⟨duration_u128 s n hs hn, ?_, ?_⟩
  · by_cases h : toMillis s n > U64MAX
    · exact Or.inl (timer_reject s n h)
    · exact Or.inr (timer_exact s n (by omega))
  · by_cases h : toNanos s n > U64MAX
    · exact Or.inl (hist_reject s n h)
    · exact Or.inr (hist_exact s n (by omega))

/-- `queued()` is a guarded subtraction: it never wraps for any two counter values -/
theorem queued_never_panics (a b : Nat) : Queue.queuedOf a b ≤ a ∧ (a < 2 ^ 64 → Queue.queuedOf a b < 2 ^ 64) :=
  Queue.queued_bounds a b

/-- every metric call of the client model returns (Ok, an error, or unit): invalid values are
reported as errors and everything else is sent — there is no panic outcome in any branch -/
theorem calls_total (cfg e form key a bops sink tok) (v : Val) (hv : convert e a = some (.ok v)) :
    ∃ o, call cfg e form key a bops sink tok = some o := by
  simp [call, hv]

-- non-vacuity: a formatter with tags and a container id fits, and its size hint is computed
example : sizeHint ({ pfx := [112, 46], key := [107], val := Val.punsigned [1, 2, 3], kind := Kind.timer, tags := [⟨some [97], [98]⟩, ⟨none, [99]⟩], cid := some [100] } : MFmt) = .ok 47 := by decide

end C20
