import Cadence.Proofs.FormatText
import Cadence.Proofs.ClientProps
import Cadence.Proofs.FormatCheck
/-!
# C01 — every emitted line is a well-formed, faithful DogStatsD metric line

Model: `Cadence/Model/Format.lean` (`MetricFormatter::format`, the line grammar and its parser) and
`Cadence/Model/Client.lean` (the 24 entry points, the three call forms, the builder operations).
The macro form shares `call` with the quiet form (C17 ties the expansion to it).
-/
namespace C01
open Fmt

/-- The text a formatter produces is exactly the grammar's rendering
`<name>:<v1>[:<v2>…]|<type>[|@<rate>][|#<tag>,…][|c:<container>][|T<timestamp>]` of its fields:
section order, separators, and each optional section present exactly when supplied. -/
theorem format_is_line (f : MFmt) : f.format = f.toLine.render := format_is_render f

/-- What any metric call hands the sink: for every configuration, entry point, call form, key,
value and builder-call sequence, every emitted string is the rendering of the line whose name is
the normalised prefix followed by the key, whose values are the numerals of the converted value
(at least one), whose type code is that of the kind called, and whose optional sections are exactly
the supplied ones (last rate / container / timestamp, default tags then call tags). -/
theorem call_emits_line (cfg : ClientCfg) (e : Entry) (form : Form) (key : Str) (a : Arg) (bops : List BOp)
    (sink : SinkOut) (tok : Nat) (o : CallObs) (t : Str)
    (h : call cfg e form key a bops sink tok = some o) (ht : t ∈ o.emits) :
    ∃ v, convert e a = some (.ok v) ∧ v.tokens ≠ [] ∧
      let b := if form = .plain then [] else bops
      t = Line.render ⟨normPrefix cfg.pfx ++ key, v.tokens, e.kind, (bopRate b).map (·.text),
            cfg.tags ++ bopTags b, (match bopCid b with | some c => some c | none => cfg.cid),
            (bopTs b).map renderNat⟩ := by
  obtain ⟨v, hv, hc, rfl⟩ := call_text cfg e form key a bops sink tok o t h ht
  refine ⟨v, hv, ?_, ?_⟩
  · intro hnil
    have := val_tokens_length v
    rw [hnil] at this
    exact hc this.symm
  · simp only
    rw [format_is_render]
    simp only [MFmt.toLine]
    obtain ⟨h1, h2, h3, h4⟩ := base_of_call cfg e key v (if form = .plain then [] else bops)
    rw [h1, h2, h3, h4, tags_of_call, cid_of_call, ts_of_call, rate_of_call]
    rfl

/-- the name: the key alone for an empty prefix, otherwise the prefix with its trailing dots
removed, one dot, then the key -/
theorem name_of_prefix (p key : Str) :
    normPrefix p ++ key = if p.isEmpty then key else trimDots p ++ DOT :: key := by
  unfold normPrefix
  split <;> simp

/-- Parsing a rendered line back yields exactly the supplied name, value list, kind, rate, tag
sequence, container id and timestamp, whenever no supplied piece contains a delimiter. -/
theorem parse_back (l : Line) (h : l.WF = true) : parseLine l.render = some l := parse_render l h

/-- integer numerals never contain a delimiter, so lines carrying integer values of
delimiter-free names and tags are always well formed (floats: the std-printed text, see C02) -/
theorem numerals_delimFree (n : Nat) (i : Int) :
    delimFree (renderNat n) = true ∧ delimFree (renderInt i) = true :=
  ⟨renderNat_delimFree n, renderInt_delimFree i⟩

/-- The standalone metric constructors produce the same text as a client without defaults does for
the same full name and value. -/
theorem standalone_same_text (c : Ctor) (cfg : ClientCfg) (e : Entry) (key : Str) (v : Val)
    (hk : e.kind = c.kind) (ht : cfg.tags = []) (hc : cfg.cid = none) :
    (buildFmt cfg e key v []).format = standalone c (normPrefix cfg.pfx) key v :=
  standalone_eq_client c cfg e key v hk ht hc

/-- The executable predicate the driver evaluates on the *implementation's* observation of every
call for C01 / C02 / C03 / C04 (`ckCall`: parse the emitted text back, compare field by field with
what was supplied, check results and handler calls) accepts every observation of the model, provided
the float tokens are what a correct `Display` prints (delimiter-free, round-tripping): an
implementation that behaves like the model is never flagged by it. -/
theorem predicate_accepts_every_model_call (cfg : ClientCfg) (e : Entry) (form : Form) (key : Str) (a : Arg)
    (bops : List BOp) (sink : SinkOut) (tok : Nat) (o : CallObs)
    (h : call cfg e form key a bops sink tok = some o)
    (ha : a.floatsWF) (hb : ∀ b ∈ bops, BOp.floatsWF b) :
    ckCall cfg e form key a bops sink tok o = .ok () :=
  ckCall_accepts_model cfg e form key a bops sink tok o h ha hb

-- non-vacuity: a histogram of a packed list with rate, tags, container and timestamp round-trips
example :
    let l : Line := ⟨[112, 46, 107], [[49], [50, 51]], .histogram, some [48, 46, 53],
      [⟨some [97], [98]⟩, ⟨none, [122]⟩], some [120, 121], some [55]⟩
    l.WF = true ∧ parseLine l.render = some l := by decide

end C01
