import Cadence.Proofs.FormatText
import Cadence.Proofs.ClientProps
/-!
# C02 — numeric values and durations reach the wire without loss

Integers, durations and lists: proved for the whole range.  Floats: the model carries a float as
the token `(bits, text)` where `text` is what std's `Display` printed; cadence's code is shown to
pass that text through unchanged (`float_text_passthrough`), and each sampled float's text is
decided exactly by `RoundTrips` (Check/Float.lean, integer arithmetic) to lie in the rounding interval of the supplied bits — the universal
claim "for all finite f64" rests on std's shortest-round-trip printing, which is in the trusted
base, not proved (this clause is **partial**).
-/
namespace C02
open Fmt

/-- unsigned values are rendered as a numeral that parses back to exactly the value -/
theorem unsigned_roundtrip (n : Nat) : parseNat (renderNat n) = some n := parseNat_renderNat n

/-- signed values likewise, over all of `Int` (hence all of i64 / i32) -/
theorem signed_roundtrip (i : Int) : parseInt (renderInt i) = some i := parseInt_renderInt i

/-- canonical decimal form: digits only, no leading zero except `0` itself; a sign only for negatives -/
theorem canonical (n : Nat) (i : Int) :
    (renderNat n ≠ [] ∧ (renderNat n).all (fun b => 48 ≤ b.toNat ∧ b.toNat ≤ 57) = true ∧
      ((renderNat n).head? = some 48 → n = 0) ∧ renderNat 0 = [48]) ∧
    (0 ≤ i → renderInt i = renderNat i.toNat) ∧ (i < 0 → renderInt i = MINUS :: renderNat i.natAbs) :=
  ⟨renderNat_canonical n, renderInt_sign i⟩

/-- every integer entry point passes the supplied value through unchanged, over its whole range -/
theorem integers_exact :
    (∀ v, convert .count_i64 (.i64 v) = some (.ok (.signed v))) ∧
    (∀ v, convert .count_i32 (.i32 v) = some (.ok (.signed v))) ∧
    (∀ v, convert .count_u64 (.u64 v) = some (.ok (.unsigned v))) ∧
    (∀ v, convert .count_u32 (.u32 v) = some (.ok (.unsigned v))) ∧
    (∀ v, convert .set_i64 (.i64 v) = some (.ok (.signed v))) ∧
    (∀ v, convert .time_u64 (.u64 v) = some (.ok (.unsigned v))) ∧
    (∀ v, convert .gauge_u64 (.u64 v) = some (.ok (.unsigned v))) ∧
    (∀ v, convert .meter_u64 (.u64 v) = some (.ok (.unsigned v))) ∧
    (∀ v, convert .hist_u64 (.u64 v) = some (.ok (.unsigned v))) ∧
    (∀ v, convert .dist_u64 (.u64 v) = some (.ok (.unsigned v))) := convert_int_exact

/-- a timer sends whole milliseconds, rounded down, whenever the count fits 64 bits … -/
theorem timer_millis (s n : Nat) (hn : n < 1000000000) (h : (s * 1000000000 + n) / 1000000 ≤ U64MAX) :
    convert .time_dur (.dur s n) = some (.ok (.unsigned ((s * 1000000000 + n) / 1000000))) := by
  rw [← toMillis_floor s n hn] at h ⊢
  exact timer_exact s n h

/-- … and otherwise reports invalid input and sends nothing, in every call form -/
theorem timer_overflow (cfg : ClientCfg) (form : Form) (key : Str) (s n : Nat) (bops : List BOp)
    (sink : SinkOut) (tok : Nat) (o : CallObs) (h : toMillis s n > U64MAX)
    (hc : call cfg .time_dur form key (.dur s n) bops sink tok = some o) :
    o.emits = [] ∧ (form ≠ .send → o.result = .err .inv) ∧ (form = .send → o.handler = [.inv]) := by
  have hv : ¬ ∃ v, convert .time_dur (.dur s n) = some (.ok v) ∧ v.count ≠ 0 := by
    rw [timer_reject s n h]; simp
  obtain ⟨h1, h2, h3⟩ := call_invalid cfg .time_dur form key (.dur s n) bops sink tok o hc hv
  exact ⟨h1, fun hf => (h2 hf).1, fun hf => (h3 hf).2⟩

/-- a histogram sends whole nanoseconds … -/
theorem histogram_nanos (s n : Nat) (h : toNanos s n ≤ U64MAX) :
    convert .hist_dur (.dur s n) = some (.ok (.unsigned (s * 1000000000 + n))) :=
  hist_exact s n h

theorem histogram_overflow (cfg : ClientCfg) (form : Form) (key : Str) (s n : Nat) (bops : List BOp)
    (sink : SinkOut) (tok : Nat) (o : CallObs) (h : toNanos s n > U64MAX)
    (hc : call cfg .hist_dur form key (.dur s n) bops sink tok = some o) :
    o.emits = [] ∧ (form ≠ .send → o.result = .err .inv) ∧ (form = .send → o.handler = [.inv]) := by
  have hv : ¬ ∃ v, convert .hist_dur (.dur s n) = some (.ok v) ∧ v.count ≠ 0 := by
    rw [hist_reject s n h]; simp
  obtain ⟨h1, h2, h3⟩ := call_invalid cfg .hist_dur form key (.dur s n) bops sink tok o hc hv
  exact ⟨h1, fun hf => (h2 hf).1, fun hf => (h3 hf).2⟩

/-- packed lists of durations: rejected iff some element, at any position, overflows; otherwise
converted element-wise, keeping length and order -/
theorem duration_lists (l : List (Nat × Nat)) :
    (convert .time_vdur (.vdur l) = some (.error .inv) ↔ ∃ d ∈ l, toMillis d.1 d.2 > U64MAX) ∧
    ((∀ d ∈ l, toMillis d.1 d.2 ≤ U64MAX) →
      convert .time_vdur (.vdur l) = some (.ok (.punsigned (l.map fun d => toMillis d.1 d.2)))) ∧
    (convert .hist_vdur (.vdur l) = some (.error .inv) ↔ ∃ d ∈ l, toNanos d.1 d.2 > U64MAX) ∧
    ((∀ d ∈ l, toNanos d.1 d.2 ≤ U64MAX) →
      convert .hist_vdur (.vdur l) = some (.ok (.punsigned (l.map fun d => toNanos d.1 d.2)))) :=
  ⟨timer_list_reject_iff l, timer_list_exact l, hist_list_reject_iff l, hist_list_exact l⟩

/-- packed values keep their length and order on the wire: splitting the value section on `:`
returns exactly the numerals, one per element -/
theorem packed_keeps_length_and_order (v : Val) (hne : v.tokens ≠ []) (h : ∀ t ∈ v.tokens, COLON ∉ t) :
    splitOn COLON v.render = v.tokens ∧ v.tokens.length = v.count :=
  ⟨val_tokens_roundtrip v hne h, val_tokens_length v⟩

/-- floats (values and sampling rates): cadence adds nothing to and removes nothing from the text
std printed for the number -/
theorem float_text_passthrough (t : FloatTok) (l : List FloatTok) :
    (Val.float t).tokens = [t.text] ∧ (Val.pfloat l).tokens = l.map (·.text) := ⟨rfl, rfl⟩

-- non-vacuity: the largest accepted and the smallest rejected timer durations
example : convert .time_dur (.dur 18446744073709551 615999999) = some (.ok (.unsigned 18446744073709551615)) ∧
    convert .time_dur (.dur 18446744073709551 616000000) = some (.error .inv) := by
  constructor <;> simp [convert, toMillis, U64MAX]

end C02
