import Cadence.Proofs.ClientProps
/-!
# C04 — client-wide tags and container id decorate every metric, in order

The model builds the formatter of every entry point with the one function `buildFmt`, so
uniformity over the seven kinds and the value types is by construction *in the model*; that the
seven separately written `*_with_tags` implementations in `client.rs` all behave like it is what
the correspondence establishes (every entry point × every form is enumerated for every sampled
configuration).
-/
namespace C04
open Fmt

/-- all default tags first, in configuration order, then the call's own tags in the order added -/
theorem defaults_then_call_tags (cfg : ClientCfg) (e : Entry) (key : Str) (v : Val) (bops : List BOp) :
    (buildFmt cfg e key v bops).tags = cfg.tags ++ bopTags bops := tags_of_call cfg e key v bops

/-- the container id is the last per-call one if any, else the default -/
theorem container_override (cfg : ClientCfg) (e : Entry) (key : Str) (v : Val) (bops : List BOp) :
    (buildFmt cfg e key v bops).cid = (match bopCid bops with | some c => some c | none => cfg.cid) :=
  cid_of_call cfg e key v bops

/-- … for that call only: the next call on the same client (a value, not mutated) sees the default again -/
theorem override_does_not_persist (cfg : ClientCfg) (e e' : Entry) (key key' : Str) (v v' : Val) (c : Str) :
    (buildFmt cfg e key v [.cid c]).cid = some c ∧ (buildFmt cfg e' key' v' []).cid = cfg.cid := by
  constructor
  · rw [cid_of_call]; rfl
  · rw [cid_of_call]; rfl

/-- a client built without defaults adds nothing of its own -/
theorem no_defaults_adds_nothing (cfg : ClientCfg) (e : Entry) (key : Str) (v : Val) (bops : List BOp)
    (ht : cfg.tags = []) (hc : cfg.cid = none) :
    (buildFmt cfg e key v bops).tags = bopTags bops ∧ (buildFmt cfg e key v bops).cid = bopCid bops :=
  no_defaults cfg e key v bops ht hc

/-- what reaches the wire: the emitted text of any call carries exactly these tags and container -/
theorem emitted_decoration (cfg e form key a bops sink tok) (o : CallObs) (t : Str)
    (h : call cfg e form key a bops sink tok = some o) (ht : t ∈ o.emits) :
    ∃ f : MFmt, t = f.format ∧
      f.tags = cfg.tags ++ bopTags (if form = .plain then [] else bops) ∧
      f.cid = (match bopCid (if form = .plain then [] else bops) with | some c => some c | none => cfg.cid) := by
  obtain ⟨v, _, _, rfl⟩ := call_text cfg e form key a bops sink tok o t h ht
  exact ⟨_, rfl, tags_of_call .., cid_of_call ..⟩

-- non-vacuity
example : (buildFmt ⟨[112], [⟨some [97], [98]⟩, ⟨none, [99]⟩], some [100]⟩ .set_i64 [107] (.signed 1)
    [.tag [120] [121], .cid [101], .tagv [122], .cid [102]]).tags
      = [⟨some [97], [98]⟩, ⟨none, [99]⟩, ⟨some [120], [121]⟩, ⟨none, [122]⟩] := by decide

end C04
