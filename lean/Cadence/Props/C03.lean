import Cadence.Proofs.ClientProps
/-!
# C03 — one call, at most one emit; results and the error handler tell the truth

`call` is a pure function of the client configuration: the client holds no mutable state, so a
sequence of calls with any script of sink outcomes is the list of the individual calls' results
(`calls`), and every per-call statement below holds at every position of every sequence.
-/
namespace C03
open Fmt

/-- exactly one string is handed to the sink when the value is valid, none when it is rejected -/
theorem one_emit_iff_valid (cfg e form key a bops sink tok) (o : CallObs)
    (h : call cfg e form key a bops sink tok = some o) :
    o.emits.length ≤ 1 ∧ (o.emits.length = 1 ↔ ∃ v, convert e a = some (.ok v) ∧ v.count ≠ 0) :=
  ⟨call_emits_le_one cfg e form key a bops sink tok o h, call_emits_iff_valid cfg e form key a bops sink tok o h⟩

/-- `Ok(metric)` only if the sink accepted exactly that metric's text during that call -/
theorem ok_means_accepted (cfg e form key a bops sink tok) (o : CallObs) (t : Str)
    (h : call cfg e form key a bops sink tok = some o) (hr : o.result = .ok t) :
    o.emits = [t] ∧ sink = .accept ∧ form ≠ .send := call_ok cfg e form key a bops sink tok o t h hr

/-- when the sink refuses, the call returns an I/O-kind error carrying the sink's own error
(same kind, same error object); the quiet form hands exactly that error to the handler, once -/
theorem refused_means_sink_error (cfg e form key a bops tok) (k : Nat) (o : CallObs) (v : Val)
    (h : call cfg e form key a bops (.refuse k) tok = some o)
    (hv : convert e a = some (.ok v)) (hc : v.count ≠ 0) :
    (form ≠ .send → o.result = .err (.io k tok) ∧ o.handler = []) ∧
    (form = .send → o.result = .unit ∧ o.handler = [.io k tok]) :=
  call_refused cfg e form key a bops tok k o v h hv hc

/-- a rejected value gives an invalid-input error (to the caller, or once to the handler) and no emit -/
theorem rejected_means_invalid_input (cfg e form key a bops sink tok) (o : CallObs)
    (h : call cfg e form key a bops sink tok = some o)
    (hv : ¬ ∃ v, convert e a = some (.ok v) ∧ v.count ≠ 0) :
    o.emits = [] ∧ (form ≠ .send → o.result = .err .inv ∧ o.handler = []) ∧
    (form = .send → o.result = .unit ∧ o.handler = [.inv]) :=
  call_invalid cfg e form key a bops sink tok o h hv

/-- success never reaches the handler -/
theorem handler_silent_on_success (cfg e form key a bops tok) (o : CallObs) (v : Val)
    (h : call cfg e form key a bops .accept tok = some o)
    (hv : convert e a = some (.ok v)) (hc : v.count ≠ 0) :
    o.handler = [] ∧ (form ≠ .send → ∃ t, o.result = .ok t ∧ o.emits = [t]) ∧ (form = .send → o.result = .unit) :=
  call_accepted cfg e form key a bops tok o v h hv hc

/-- the quiet form never returns an error and invokes the handler at most once -/
theorem quiet_never_errors (cfg e key a bops sink tok) (o : CallObs)
    (h : call cfg e .send key a bops sink tok = some o) : o.result = .unit ∧ o.handler.length ≤ 1 :=
  call_send_unit cfg e key a bops sink tok o h

/-- a request in a sequence: entry point, form, key, value, builder calls, and what the sink will do -/
structure Req where
  e : Entry
  form : Form
  key : Str
  a : Arg
  bops : List BOp
  sink : SinkOut

/-- consecutive calls on one client under a script of sink outcomes; the i-th call's error token is i -/
def calls (cfg : ClientCfg) : Nat → List Req → List (Option CallObs)
  | _, [] => []
  | i, r :: rs => call cfg r.e r.form r.key r.a r.bops r.sink i :: calls cfg (i + 1) rs

/-- every per-call guarantee holds at every position of every sequence, whatever happened before -/
theorem sequence_pointwise (cfg : ClientCfg) (rs : List Req) (i : Nat) (j : Nat) (hj : j < rs.length) :
    (calls cfg i rs)[j]? = some (call cfg rs[j].e rs[j].form rs[j].key rs[j].a rs[j].bops rs[j].sink (i + j)) := by
  induction rs generalizing i j with
  | nil => simp at hj
  | cons r rs ih =>
    cases j with
    | zero => simp [calls]
    | succ j =>
      simp only [calls, List.getElem?_cons_succ, List.getElem_cons_succ]
      have := ih (i + 1) j (by simpa using hj)
      rw [this]; congr 2; omega

-- non-vacuity: a refused tagged try_send returns the sink's error; the same call in quiet form hands it to the handler
example : call ⟨[112], [], none⟩ .count_i64 .trySend [107] (.i64 3) [] (.refuse 8) 7
      = some ⟨.err (.io 8 7), [[112, 46, 107, 58, 51, 124, 99]], []⟩ ∧
    call ⟨[112], [], none⟩ .count_i64 .send [107] (.i64 3) [] (.refuse 8) 7
      = some ⟨.unit, [[112, 46, 107, 58, 51, 124, 99]], [.io 8 7]⟩ := by decide

end C03
