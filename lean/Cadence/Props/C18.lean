import Cadence.Proofs.HolderStep2
/-!
# C18 — the global default client is set once and read race-free

Model: `Cadence/Model/Holder.lean`, an operational release/acquire semantics for one atomic location
(`state`: messages in modification order, each optionally carrying the happens-before view its
writer published) and one non-atomic location (the `UnsafeCell`): loads may read any
coherence-permitted message, a successful compare-exchange reads the latest, acquire loads join the
message's view, release stores attach theirs, and a non-atomic access is a **data race** unless every
earlier conflicting access happens-before it.  The programs `set` / `get` / `is_set` are
parameterised by the four `Ordering`s, so the orderings written in `state.rs` are data
(`Ords.source`); the hook traces the orderings the code actually passes and the correspondence
compares them.  This formalisation *is* the meaning of "data race" here and is trusted.
-/
namespace C18
open Holder

/-- For any number of threads, any per-thread sequence of set / get / is_set, and every execution
(every interleaving, every coherence-permitted message each load reads) under the orderings
written in the source: no data race on the cell, and every `get` that returns a value returns the
one winning writer's. -/
theorem race_free_and_single_winner (progs : Nat → List Call) (sched : List (Nat × Nat)) :
    (run Ords.source (init progs) sched).raced = false ∧
    ∀ t w', Result.some w' ∈ ((run Ords.source (init progs) sched).thrs t).results →
      (run Ords.source (init progs) sched).cellVal = some w' :=
  holder_race_free progs sched

/-- The protocol's shape in every reachable state: the modification order of `state` is a prefix of
UNSET, LOADING, COMPLETE — so at most one compare-exchange ever succeeds (the first set wins, later
sets are ignored and never touch the cell) — and a read that reports "set" implies the winner's
final store is in modification order. -/
theorem protocol_invariant (progs : Nat → List Call) (sched : List (Nat × Nat)) :
    Inv (run Ords.source (init progs) sched) :=
  run_inv (init progs) sched (init_inv progs)

/-- until a set has completed, reads report that none is set -/
theorem reports_set_only_after_complete (progs : Nat → List Call) (sched : List (Nat × Nat)) (t : Nat)
    (h : Result.flag true ∈ ((run Ords.source (init progs) sched).thrs t).results) :
    (run Ords.source (init progs) sched).msgs.length = 3 :=
  (protocol_invariant progs sched).2.2.2 t h

/-- the ordering hypotheses are needed: with the final store weakened to Relaxed, or the load
weakened to Relaxed, the same model admits a racy execution of `set ‖ get` -/
theorem orderings_are_needed :
    (run ⟨.acqRel, .relaxed, .relaxed, .acquire⟩
      (init fun t => if t = 0 then [.set] else if t = 1 then [.get] else [])
      [(0, 0), (0, 0), (0, 0), (1, 2), (1, 0)]).raced = true ∧
    (run ⟨.acqRel, .relaxed, .release, .relaxed⟩
      (init fun t => if t = 0 then [.set] else if t = 1 then [.get] else [])
      [(0, 0), (0, 0), (0, 0), (1, 2), (1, 0)]).raced = true :=
  ⟨weak_store_races, weak_load_races⟩

-- non-vacuity: two racing setters and a reader overlapping the initialisation window
example : ((run Ords.source (init fun t => if t = 0 then [.set] else if t = 1 then [.set] else if t = 2 then [.get, .get] else [])
    [(0, 0), (1, 1), (2, 1), (0, 0), (0, 0), (2, 2), (2, 0)]).thrs 2).results = [.none, .some 0] := by decide

end C18
