import Cadence.Proofs.QueueProps
import Cadence.Proofs.Queue0Props
/-!
# C10 — the queuing sink isolates callers from the wrapped sink

"Promptly" is **partial**: that emit never waits is a theorem of the model (the emit labels are
enabled in every state and never depend on the worker) and of crossbeam's `try_send` contract
(trusted); wall-clock latency is a runtime observation made by the harness (2 s watchdog).
-/
namespace C10
open Queue
variable {μ : Type}

/-- The result of an emit depends only on queue room: Ok iff the queue is unbounded or holds fewer
than its capacity — whatever the worker is doing (blocked forever inside the wrapped sink included)
and whatever the wrapped sink answered before.  The step is enabled in every state: emit never waits. -/
theorem emit_depends_only_on_room (s : St μ) (h : Nat) (m : μ) (hh : h ∈ s.handles) :
    step s (.emitTry h m) =
      if room s then
        some ({ s with chan := s.chan ++ [some m], accepted := s.accepted ++ [m], pendingIncr := s.pendingIncr + 1 }, .emitOk)
      else some (s, .emitErr) := emit_result s h m hh

/-- the capacity of a bounded queue is never exceeded -/
theorem capacity_never_exceeded {cap hh} (s : St μ) (h : Reachable cap hh s) (c : Nat) (hc : s.cap = some c) :
    s.chan.length ≤ c := cap_never_exceeded s h c hc

/-- an unbounded queue accepts every metric -/
theorem unbounded_accepts_all (s : St μ) (h : Nat) (m : μ) (hh : h ∈ s.handles) (hc : s.cap = none) :
    ∃ s', step s (.emitTry h m) = some (s', .emitOk) := unbounded_accepts s h m hh hc

/-- Nothing a caller does runs the wrapped sink, sees its errors or its panics: every step that
changes what the wrapped sink, the handler or the panic counter have seen is a worker step. -/
theorem callers_never_run_the_sink (s s' : St μ) (l : Label μ) (o : Obs) (hs : step s l = some (s', o))
    (hl : isWorker l = false) :
    s'.wrappedLog = s.wrappedLog ∧ s'.finished = s.finished ∧ s'.handlerLog = s.handlerLog ∧
    s'.panics = s.panics ∧ s'.trace = s.trace ∧ s'.phase = s.phase :=
  caller_isolation s s' l o hs hl

-- non-vacuity: capacity 2, worker blocked inside the sink: two more emits accepted, the third refused
example : ((runLabels (init (some 2) false : St Nat)
    [.emitTry 0 1, .emitCount, .wCheck, .wRecv, .wCount, .emitTry 0 2, .emitCount, .emitTry 0 3, .emitCount]).bind
      (fun s => (step s (.emitTry 0 4)).map (·.2))) = some .emitErr := by decide

/-! ## capacity 0 (rendezvous channel, model `Cadence.Model.Queue0`) -/

/-- capacity 0: an emit on a live handle is a single step enabled in every state; it is accepted exactly
when the worker waits for a metric — never while the worker is inside the wrapped sink — and a refusal
changes nothing -/
theorem rendezvous_emit_never_waits {μ : Type} (s : Queue0.St μ) (h : Nat) (m : μ) (hh : h ∈ s.handles) :
    ∃ s' o, Queue0.step s (.emitTry h m) = some (s', o) ∧
      (o = .emitOk ↔ s.phase = .waiting) ∧ (o ≠ .emitOk → s' = s) := by
  cases hp : s.phase
  case waiting => exact ⟨{ s with phase := .got (some m), accepted := s.accepted ++ [m], submitted := s.submitted + 1 }, .emitOk,
    by simp [Queue0.step, hh, hp], by simp [hp], by simp⟩
  all_goals exact ⟨s, .emitErr, by simp [Queue0.step, hh, hp], by simp, fun _ => rfl⟩

end C10
