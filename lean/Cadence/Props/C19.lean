import Cadence.Proofs.WriterSpec
import Cadence.Proofs.WriterGreedy
/-!
# C19 — buffered sinks pack datagrams greedily
-/
namespace C19
open Mlw
variable {α : Type}

/-- The concrete writer writes during an emit only when it must: the metric is oversize (bypass),
or the line does not fit next to what is pending (flush first), or the line exactly fills the empty
buffer (BufWriter passes it through). -/
theorem write_only_when_needed (c : Cfg α) (s : St α) (p : List (List α)) (m : List α) (orc : List Outcome)
    (hi : Inv c s p) (h : (mlwWrite c s m orc).2.2.1 ≠ []) :
    m.length + c.ending.length > c.cap ∨
    (frame c p).length + (m.length + c.ending.length) > c.cap ∨
    isCorner c p m = true := by
  apply specWrite_needed c p m orc
  intro hs
  apply h
  rw [(mlwWrite_refines c s p m orc hi).2.2.1, hs]; rfl

/-- An explicit flush or the drop writes only if something is pending. -/
theorem flush_writes_only_pending (c : Cfg α) (s : St α) (p : List (List α)) (orc : List Outcome)
    (hi : Inv c s p) :
    ((mlwFlush s orc).2.2.1 ≠ [] → frame c p ≠ []) ∧ ((mlwDrop s orc).1 ≠ [] → frame c p ≠ []) := by
  constructor
  · intro h
    rw [(mlwFlush_refines c s p orc hi).2.2.1] at h
    cases ha : (specFlush c p orc).2.2.1 with
    | nil => rw [ha] at h; exact absurd rfl h
    | cons a as => exact (specFlush_atts c p orc a (by rw [ha]; simp)).2
  · intro h
    rw [(mlwDrop_refines c s p orc hi).1] at h
    cases ha : (specDrop c p orc).1 with
    | nil => rw [ha] at h; exact absurd rfl h
    | cons a as => exact (specDrop_atts c p orc a (by rw [ha]; simp)).2

/-- With an accepting socket, a run of emits of lines that fit produces exactly the in-order greedy
packing: the groups the socket accepted followed by the group still pending. -/
theorem emits_are_greedy (c : Cfg α) (hne : c.ending ≠ []) (ms : List (List α))
    (hfit : ∀ m ∈ ms, lineSize c m ≤ c.cap) :
    deliveredGroups (specOps c [] (ms.map Op.emit) []).1 ++
      (if (specOps c [] (ms.map Op.emit) []).2.1.isEmpty then [] else [(specOps c [] (ms.map Op.emit) []).2.1])
      = pack c [] ms :=
  specOps_emits_greedy c hne ms [] (by simp [frame]) hfit

/-- Greedy in-order packing uses as few datagrams as any in-order packing into the capacity. -/
theorem greedy_is_minimal (c : Cfg α) (hne : c.ending ≠ []) (ms : List (List α))
    (hfit : ∀ m ∈ ms, lineSize c m ≤ c.cap)
    (segs : List (List (List α))) (hflat : segs.flatten = ms)
    (hseg : ∀ g ∈ segs, (frame c g).length ≤ c.cap ∧ g ≠ []) :
    (pack c [] ms).length ≤ segs.length :=
  pack_minimal c hne ms hfit segs hflat hseg

/-- every group of the greedy packing fits, and the groups are the input, in order -/
theorem greedy_groups_fit (c : Cfg α) (ms : List (List α)) (hfit : ∀ m ∈ ms, lineSize c m ≤ c.cap) :
    (pack c [] ms).flatten = ms ∧ ∀ g ∈ pack c [] ms, (frame c g).length ≤ c.cap ∧ g ≠ [] := by
  have := pack_spec c [] ms (by simp [frame]) hfit
  simpa using this

-- non-vacuity: capacity 8, terminator "\n": lines of 3,3,2(+1) bytes → [3+1,3+1] [2+1 …]
example : pack (⟨8, [10]⟩ : Cfg Nat) [] [[1,2,3],[4,5,6],[7,8],[9]] = [[[1,2,3],[4,5,6]], [[7,8],[9]]] := by decide

end C19
