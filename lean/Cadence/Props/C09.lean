import Cadence.Proofs.QueueProps
import Cadence.Proofs.Queue0Props
/-!
# C09 — the last drop drains, then stops and releases the wrapped sink
-/
namespace C09
open Queue
variable {μ : Type}

/-- dropping a handle is a single non-blocking step, enabled in every state, with no failing outcome -/
theorem drop_never_blocks (s : St μ) (h : Nat) (hh : h ∈ s.handles) : (step s (.drop h)).isSome = true :=
  drop_enabled s h hh

/-- the stop request is never lost: once no handle is left the stopper is running or has run, and
once `stop()` has run the request is recorded, whatever the queue's occupancy when the pill was
tried (a full bounded queue included) -/
theorem stop_request_survives {cap hh} (s : St μ) (h : Reachable cap hh s) (h0 : s.handles = []) :
    s.stopStage ≠ .idle ∧ (s.stopStage = .done → s.stopReq = true) := stop_not_lost s h h0

/-- After the last drop the worker can always step until it has exited and released (for every
capacity ≥ 1 or unbounded, every occupancy, every outcome script), every such run is finite … -/
theorem last_drop_terminates {cap hh} (s : St μ) (h : Reachable cap hh s) (h0 : s.handles = [])
    (hc : s.cap ≠ some 0) :
    (s.released = false → ∃ l, isSystem l = true ∧ (step s l).isSome = true) ∧
    ∀ ls : List (Label μ), (∀ l ∈ ls, isSystem l = true) → (runLabels s ls).isSome = true → ls.length ≤ measure s :=
  ⟨fun hr => progress s h h0 hc hr, fun ls hw hr => worker_runs_bounded s ls hw hr⟩

/-- … and it ends with everything delivered: the worker exits only when every accepted metric has
been handed to the wrapped sink, and the wrapped sink is released only after that, with no handle left. -/
theorem drains_before_release {cap hh} (s : St μ) (h : Reachable cap hh s) :
    (s.phase = .exited → s.wrappedLog = s.accepted) ∧
    (s.released = true → s.phase = .exited ∧ s.handles = [] ∧ s.stopStage = .done ∧ s.wrappedLog = s.accepted) :=
  ⟨exited_all_delivered s h, released_after_all s h⟩

-- non-vacuity: capacity 1, worker inside the sink on m1, m2 queued (queue full), last handle dropped:
-- the stop marker does not fit, yet both metrics are delivered, the worker exits and releases
example : ((runLabels (init (some 1) false : St Nat)
    [.emitTry 0 1, .emitCount, .wCheck, .wRecv, .wCount, .emitTry 0 2, .emitCount, .drop 0,
     .stopFlag, .stopPill, .wFinish .panic, .wCheck, .wRecv, .wCount, .wFinish (.err 3), .wCheck, .release]).map
      (fun s => (s.wrappedLog, s.released))) = some ([1, 2], true) := by decide

/-! ## capacity 0 (rendezvous channel): the model `Cadence.Model.Queue0`

The theorems above carry `cap ≠ some 0`; these cover the remaining capacity, on the model of the
polling worker loop (`recv_timeout` + re-test of the stop flag, repair cea8c71). -/

/-- capacity 0: dropping a handle is a single enabled step -/
theorem rendezvous_drop_never_blocks (s : Queue0.St μ) (h : Nat) (hh : h ∈ s.handles) :
    (Queue0.step s (.drop h)).isSome = true := by
  simp only [Queue0.step, hh, if_true]; split <;> rfl

/-- capacity 0: the stop request survives even though the marker can never be queued -/
theorem rendezvous_stop_request_survives {hh} (s : Queue0.St μ) (h : Queue0.Reachable true hh s) (h0 : s.handles = []) :
    s.stopStage ≠ .idle ∧ (s.stopStage = .done → s.stopReq = true) :=
  ⟨(Queue0.reachable_inv s h).stopIdle h0, fun hd => (Queue0.reachable_inv s h).stopSet (Or.inr hd)⟩

/-- capacity 0, polling worker: after the last drop some system step is enabled until the wrapped sink
is released, and once `stop()` has set the flag every run of system steps is finite (bounded by
`Queue0.measure`), whatever the worker was doing when the handle went and whatever the wrapped sink answers -/
theorem rendezvous_last_drop_terminates {hh} (s : Queue0.St μ) (h : Queue0.Reachable true hh s) (h0 : s.handles = []) :
    (s.released = false → ∃ l, Queue0.isSystem l = true ∧ (Queue0.step s l).isSome = true) ∧
    (s.stopReq = true → ∀ ls : List (Queue0.Label μ), (∀ l ∈ ls, Queue0.isSystem l = true) →
      (Queue0.runLabels s ls).isSome = true → ls.length ≤ Queue0.measure s) :=
  ⟨fun hr => Queue0.progress s h h0 hr, fun hr ls hw hrun => Queue0.system_runs_bounded s ls hr hw hrun⟩

/-- capacity 0: the worker exits, and the wrapped sink is released, only after every accepted metric
has been handed over (with either worker loop) -/
theorem rendezvous_drains_before_release {poll hh} (s : Queue0.St μ) (h : Queue0.Reachable poll hh s) :
    (s.phase = .exited → s.wrappedLog = s.accepted) ∧
    (s.released = true → s.phase = .exited ∧ s.handles = [] ∧ s.stopStage = .done ∧ s.wrappedLog = s.accepted) := by
  have hi := Queue0.reachable_inv s h
  have hex : s.phase = .exited → s.wrappedLog = s.accepted := fun hp => by
    have := hi.deliv; rw [hp] at this; simpa [Queue0.inflight] using this.symm
  exact ⟨hex, fun hr => ⟨(hi.rel hr).1, (hi.rel hr).2.1, (hi.rel hr).2.2, hex (hi.rel hr).1⟩⟩

/-- Finding 4 as a theorem about the model: with a *blocking* `recv()` (the loop before cea8c71) a
capacity-0 sink reaches a state in which no handle is left, `stop()` has finished, the wrapped sink is
not released and no step of the worker or the stopper is enabled — the worker waits forever.  The
history: the worker passes the flag test, the last handle is dropped and `stop()` runs (the marker
finds no waiting receiver), then the worker blocks. -/
theorem rendezvous_blocking_recv_loses_stop :
    ∃ s : Queue0.St Nat, Queue0.Reachable false false s ∧ s.handles = [] ∧ s.stopStage = .done ∧ s.released = false ∧
      ∀ l, Queue0.isSystem l = true → Queue0.step s l = none := by
  refine ⟨{ (Queue0.init false false : Queue0.St Nat) with handles := [], stopReq := true, stopStage := .done, phase := .waiting },
    ?_, rfl, rfl, rfl, ?_⟩
  · exact Queue0.runLabels_reachable _ Queue0.Reachable.init [.wCheck, .drop 0, .stopFlag, .stopPill, .wEnter] _ rfl
  · intro l hl
    cases l <;> first | rfl | simp [Queue0.isSystem] at hl

-- non-vacuity: capacity 0, the same history with the polling loop: the time-out brings the worker back
-- to the flag test, it exits and the wrapped sink is released; a metric handed over before is delivered
example : ((Queue0.runLabels (Queue0.init true false : Queue0.St Nat)
    [.wCheck, .wEnter, .emitTry 0 7, .wTake, .wFinish .panic, .wCheck, .drop 0, .stopFlag, .stopPill, .wEnter,
     .wTimeout, .wCheck, .release]).map (fun s => (s.wrappedLog, s.released))) = some ([7], true) := by decide

end C09
