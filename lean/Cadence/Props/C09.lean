import Cadence.Proofs.QueueProps
/-!
# C09 — the last drop drains, then stops and releases the wrapped sink
-/
namespace C09
open Queue
variable {μ : Type}

/-- dropping a handle is a single non-blocking step, enabled in every state, with no failing outcome -/
theorem drop_never_blocks (s : St μ) (h : Nat) (hh : h ∈ s.handles) : (step s (.drop h)).isSome = true :=
  drop_enabled s h hh

/-- the stop request is never lost: once no handle is left the stopper is running or has run, and
once `stop()` has run the request is recorded, whatever the queue's occupancy when the pill was
tried (a full bounded queue included) -/
theorem stop_request_survives {cap hh} (s : St μ) (h : Reachable cap hh s) (h0 : s.handles = []) :
    s.stopStage ≠ .idle ∧ (s.stopStage = .done → s.stopReq = true) := stop_not_lost s h h0

/-- After the last drop the worker can always step until it has exited and released (for every
capacity ≥ 1 or unbounded, every occupancy, every outcome script), every such run is finite … -/
theorem last_drop_terminates {cap hh} (s : St μ) (h : Reachable cap hh s) (h0 : s.handles = [])
    (hc : s.cap ≠ some 0) :
    (s.released = false → ∃ l, isSystem l = true ∧ (step s l).isSome = true) ∧
    ∀ ls : List (Label μ), (∀ l ∈ ls, isSystem l = true) → (runLabels s ls).isSome = true → ls.length ≤ measure s :=
  ⟨fun hr => progress s h h0 hc hr, fun ls hw hr => worker_runs_bounded s ls hw hr⟩

/-- … and it ends with everything delivered: the worker exits only when every accepted metric has
been handed to the wrapped sink, and the wrapped sink is released only after that, with no handle left. -/
theorem drains_before_release {cap hh} (s : St μ) (h : Reachable cap hh s) :
    (s.phase = .exited → s.wrappedLog = s.accepted) ∧
    (s.released = true → s.phase = .exited ∧ s.handles = [] ∧ s.stopStage = .done ∧ s.wrappedLog = s.accepted) :=
  ⟨exited_all_delivered s h, released_after_all s h⟩

-- non-vacuity: capacity 1, worker inside the sink on m1, m2 queued (queue full), last handle dropped:
-- the stop marker does not fit, yet both metrics are delivered, the worker exits and releases
example : ((runLabels (init (some 1) false : St Nat)
    [.emitTry 0 1, .emitCount, .wCheck, .wRecv, .wCount, .emitTry 0 2, .emitCount, .drop 0,
     .stopFlag, .stopPill, .wFinish .panic, .wCheck, .wRecv, .wCount, .wFinish (.err 3), .wCheck, .release]).map
      (fun s => (s.wrappedLog, s.released))) = some ([1, 2], true) := by decide

end C09
