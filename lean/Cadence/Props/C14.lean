import Cadence.Proofs.SinksProps
/-!
# C14 — sink I/O telemetry adds up

Counters are `Nat`; wrap-around at 2^64 datagrams / bytes is out of physical reach.  That a
wrapping queuing sink reports the wrapped sink's figures unchanged (`QueuingMetricSink::stats`
delegates) is covered by the correspondence (`q` reads).
-/
namespace C14
open Mlw Sinks
variable {α : Type}

/-- after any sequence of send attempts `(len, accepted?)`: packets_sent + packets_dropped = the
number of attempts; bytes_sent / bytes_dropped = the total size of the accepted / refused datagrams -/
theorem counters_add_up (s : Stats) (as : List (Nat × Bool)) :
    (s.updateAll as).packetsSent = s.packetsSent + (as.filter (·.2 == true)).length ∧
    (s.updateAll as).packetsDropped = s.packetsDropped + (as.filter (·.2 == false)).length ∧
    (s.updateAll as).bytesSent = s.bytesSent + sumLens as true ∧
    (s.updateAll as).bytesDropped = s.bytesDropped + sumLens as false ∧
    (s.updateAll as).packetsSent + (s.updateAll as).packetsDropped = s.packetsSent + s.packetsDropped + as.length :=
  totals s as

/-- for the unbuffered sinks the attempts are the emits: one per emit, of the metric's byte length,
counted as sent exactly when the emit returned Ok -/
theorem unbuffered_attempts_are_emits (m : List α) (orc : List Outcome) :
    attemptStats (unbufferedEmit m orc).2.1 =
      [(m.length, match (unbufferedEmit m orc).1 with | .ok _ => true | _ => false)] :=
  unbuffered_attempt_stats m orc

/-- exact under concurrent emitters: an update is two `fetch_add`s, and the individual
`fetch_add`s of any number of threads commute — every interleaving gives the same totals -/
theorem exact_under_concurrency (s : Stats) (as : List (Nat × Bool)) (xs : List (Field × Nat))
    (h : xs.Perm (as.flatMap incsOf)) : xs.foldl Stats.inc s = s.updateAll as := by
  rw [updateAll_eq_incs]; exact incs_order_independent s xs _ h

/-- the figures only ever grow: no sequence of send attempts makes any of them smaller (there is no
"taking back" of a dropped datagram that a retry later delivers) -/
theorem counters_never_decrease (s : Stats) (as : List (Nat × Bool)) :
    s.bytesSent ≤ (s.updateAll as).bytesSent ∧ s.packetsSent ≤ (s.updateAll as).packetsSent ∧
    s.bytesDropped ≤ (s.updateAll as).bytesDropped ∧ s.packetsDropped ≤ (s.updateAll as).packetsDropped := by
  have h := counters_add_up s as
  omega

example : ({} : Stats).updateAll [(7, true), (70000, false), (3, true)] = ⟨10, 2, 70000, 1⟩ := by decide

end C14
