import Cadence.Proofs.Queue0Props
/-!
The executable side of the `queue0` correspondence stays inside the LTS: every state the driver
computes with `Queue0.modelRun` (quiescent schedule, refusals taken from the implementation) is
`Reachable`, so the theorems of `Cadence.Proofs.Queue0Props` apply to it.
-/
namespace Queue0
open Queue (Outcome StopStage Ev Obs HOp HObs)

theorem settle_reachable {poll hh} (n : Nat) (s : St M) (h : Reachable poll hh s) : Reachable poll hh (settle n s) := by
  induction n generalizing s with
  | zero => exact h
  | succ n ih =>
    cases hw : workerStep s with
    | none => simp only [settle, hw]; exact h
    | some l =>
      cases hs : step s l with
      | none => simp only [settle, hw, hs]; exact h
      | some p =>
        obtain ⟨s', o⟩ := p
        simp only [settle, hw, hs]
        exact ih s' (Reachable.step h hs)

theorem modelOp_reachable {poll hh} (s : St M) (fins : Nat) (op : HOp) (r : Bool) (h : Reachable poll hh s) :
    Reachable poll hh (modelOp s fins op r).1 := by
  cases op with
  | emit hd m len =>
    simp only [modelOp]
    split
    · split <;> exact h
    · cases hs : step s (.emitTry hd m) with
      | none => exact h
      | some p =>
        obtain ⟨s1, o⟩ := p
        cases o <;> first
          | exact settle_reachable _ _ (Reachable.step h hs)
          | exact Reachable.step h hs
  | clone hd =>
    simp only [modelOp]
    cases hs : step s (.clone hd) with
    | none => exact h
    | some p => exact Reachable.step h hs
  | drop hd =>
    simp only [modelOp]
    cases hs : step s (.drop hd) with
    | none => exact h
    | some p => exact settle_reachable _ _ (Reachable.step h hs)
  | flush hd => simp only [modelOp]; split <;> exact h
  | stats hd => simp only [modelOp]; split <;> exact h
  | sinkStats hd => simp only [modelOp]; split <;> exact h
  | fin oc kind =>
    simp only [modelOp]
    split
    · exact h
    · rename_i hs; exact settle_reachable _ _ (Reachable.step h hs)

/-- the model state after a history, in the schedule of `modelRun` -/
def modelFinal (hh : Bool) (ops : List (HOp × Bool)) : St M :=
  (ops.foldl (fun (p : St M × Nat) op => let r := modelOp p.1 p.2 op.1 op.2; (r.1, r.2.1)) (settleAll (init true hh), 0)).1

theorem modelFinal_reachable (hh : Bool) (ops : List (HOp × Bool)) : Reachable true hh (modelFinal hh ops) := by
  unfold modelFinal
  suffices ∀ (p : St M × Nat), Reachable true hh p.1 →
      Reachable true hh (ops.foldl (fun (p : St M × Nat) op => let r := modelOp p.1 p.2 op.1 op.2; (r.1, r.2.1)) p).1 from
    this _ (settle_reachable _ _ Reachable.init)
  induction ops with
  | nil => intro p hp; exact hp
  | cons op ops ih => intro p hp; exact ih _ (modelOp_reachable p.1 p.2 op.1 op.2 hp)

/-- the counters are the lengths of the ghost logs (`submitted` is bumped with the successful
`try_send` here: the window between the two is in the model of the other capacities) -/
theorem counters {poll hh} {μ : Type} (s : St μ) (h : Reachable poll hh s) :
    s.submitted = s.accepted.length ∧ s.drained = s.wrappedLog.length := by
  induction h with
  | init => simp [init]
  | @step s s' l o _ hs ih =>
    cases l <;> simp only [step] at hs <;> (repeat' split at hs) <;> simp at hs <;>
      (try obtain ⟨rfl, -⟩ := hs) <;> (try obtain ⟨-, rfl, -⟩ := hs) <;> simp_all

end Queue0
