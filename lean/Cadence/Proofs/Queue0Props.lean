import Cadence.Model.Queue0
/-!
Invariants, termination measure and the lost-stop witness for the capacity-0 (rendezvous) model.
-/
namespace Queue0
open Queue (Outcome StopStage Ev Obs)
variable {μ : Type}

/-- the safety invariant: the accepted metrics are those delivered plus the one in hand; the stop
request is recorded as soon as `stop()` has passed its first step; `exited` and `released` are final -/
structure Inv (s : St μ) : Prop where
  deliv : s.accepted = s.wrappedLog ++ inflight s.phase
  stopIdle : s.handles = [] → s.stopStage ≠ .idle
  stopSet : s.stopStage = .pill ∨ s.stopStage = .done → s.stopReq = true
  rel : s.released = true → s.phase = .exited ∧ s.handles = [] ∧ s.stopStage = .done
  idleLive : s.stopStage ≠ .idle → s.handles = []

theorem inv_init (poll hh : Bool) : Inv (init poll hh : St μ) := by
  refine ⟨by simp [init, inflight], by simp [init], by simp [init], by simp [init], by simp [init]⟩

theorem step_inv (s s' : St μ) (l : Label μ) (o : Obs) (hi : Inv s) (hs : step s l = some (s', o)) : Inv s' := by
  obtain ⟨h1, h2, h3, h4, h5⟩ := hi
  cases l with
  | emitTry h m =>
    simp only [step] at hs
    split at hs
    · cases hp : s.phase <;> simp only [hp] at hs <;> simp at hs <;> obtain ⟨rfl, -⟩ := hs <;>
        first
        | exact ⟨h1, h2, h3, h4, h5⟩
        | (refine ⟨?_, h2, h3, ?_, h5⟩
           · simp [inflight, h1, hp]
           · intro hr; have := (h4 hr).1; simp [hp] at this)
    · simp at hs
  | clone h =>
    simp only [step] at hs
    split at hs
    · simp at hs; obtain ⟨rfl, -⟩ := hs
      rename_i hm
      have hne : s.handles ≠ [] := by intro h0; simp [h0] at hm
      refine ⟨h1, by simp, h3, ?_, ?_⟩
      · intro hr; exact absurd (h4 hr).2.1 hne
      · intro hst; exact absurd (h5 hst) hne
    · simp at hs
  | drop h =>
    simp only [step] at hs
    split at hs
    · rename_i hm
      have hne : s.handles ≠ [] := by intro h0; simp [h0] at hm
      have hidle : s.stopStage = .idle := by
        cases hst : s.stopStage <;> first | rfl | exact absurd (h5 (by simp [hst])) hne
      have hnr : s.released = false := by
        cases hr : s.released
        · rfl
        · exact absurd (h4 hr).2.1 hne
      split at hs
      · simp at hs; obtain ⟨rfl, -⟩ := hs
        rename_i he
        refine ⟨h1, by simp, by simp, by simp [hnr], by simp [he]⟩
      · simp at hs; obtain ⟨rfl, -⟩ := hs
        rename_i he
        refine ⟨h1, fun h0 => absurd h0 he, h3, by simp [hnr], by simp [hidle]⟩
    · simp at hs
  | stopFlag =>
    simp only [step] at hs
    cases hst : s.stopStage <;> simp [hst] at hs
    obtain ⟨rfl, -⟩ := hs
    have h0 := h5 (by simp [hst])
    refine ⟨h1, by simp, by simp, ?_, by simp [h0]⟩
    intro hr; have := (h4 hr).2.2; simp [hst] at this
  | stopPill =>
    simp only [step] at hs
    cases hst : s.stopStage <;> simp [hst] at hs
    have h0 := h5 (by simp [hst])
    have hreq := h3 (Or.inl hst)
    have hnr : s.released = false := by
      cases hr : s.released
      · rfl
      · have := (h4 hr).2.2; simp [hst] at this
    cases hp : s.phase <;> simp [hp] at hs <;> obtain ⟨rfl, -⟩ := hs <;>
      refine ⟨?_, by simp, by simp [hreq], ?_, by simp [h0]⟩ <;>
      first
      | (simpa [inflight, hp] using h1)
      | (simp [hnr])
  | wCheck =>
    simp only [step] at hs
    cases hp : s.phase <;> simp [hp] at hs
    have hnr : s.released = false := by
      cases hr : s.released
      · rfl
      · have := (h4 hr).1; simp [hp] at this
    split at hs <;> simp at hs <;> obtain ⟨rfl, -⟩ := hs <;>
      exact ⟨by simpa [inflight, hp] using h1, h2, h3, by simp [hnr], h5⟩
  | wEnter =>
    simp only [step] at hs
    cases hp : s.phase <;> simp [hp] at hs
    have hnr : s.released = false := by
      cases hr : s.released
      · rfl
      · have := (h4 hr).1; simp [hp] at this
    obtain ⟨rfl, -⟩ := hs
    exact ⟨by simpa [inflight, hp] using h1, h2, h3, by simp [hnr], h5⟩
  | wTimeout =>
    simp only [step] at hs
    cases hp : s.phase <;> simp [hp] at hs
    have hnr : s.released = false := by
      cases hr : s.released
      · rfl
      · have := (h4 hr).1; simp [hp] at this
    obtain ⟨-, rfl, -⟩ := hs
    exact ⟨by simpa [inflight, hp] using h1, h2, h3, by simp [hnr], h5⟩
  | wTake =>
    simp only [step] at hs
    have hnr : s.phase ≠ .exited → s.released = false := by
      intro hne
      cases hr : s.released
      · rfl
      · exact absurd (h4 hr).1 hne
    cases hp : s.phase <;> simp [hp] at hs
    rename_i x
    cases x <;> simp at hs <;> obtain ⟨rfl, -⟩ := hs
    · exact ⟨by simpa [inflight, hp] using h1, h2, h3, fun hr => by
        have := hnr (by simp [hp]); simp_all, h5⟩
    · refine ⟨by simpa [inflight, hp] using h1, h2, h3, fun hr => ?_, h5⟩
      have := hnr (by simp [hp]); simp_all
  | wFinish oc =>
    simp only [step] at hs
    cases hp : s.phase <;> simp [hp] at hs
    have hnr : s.released = false := by
      cases hr : s.released
      · rfl
      · have := (h4 hr).1; simp [hp] at this
    cases oc <;> simp at hs <;> obtain ⟨rfl, -⟩ := hs <;>
      exact ⟨by simpa [inflight, hp] using h1, h2, h3, by simp [hnr], h5⟩
  | release =>
    simp only [step] at hs
    cases hp : s.phase <;> simp [hp] at hs
    obtain ⟨⟨⟨h0, hd⟩, -⟩, rfl, -⟩ := hs
    exact ⟨by simpa [inflight, hp] using h1, h2, h3, fun _ => by simp [h0, hd], h5⟩

theorem reachable_inv {poll hh} (s : St μ) (h : Reachable poll hh s) : Inv s := by
  induction h with
  | init => exact inv_init _ _
  | step _ hs ih => exact step_inv _ _ _ _ ih hs

theorem poll_const {poll hh} (s : St μ) (h : Reachable poll hh s) : s.poll = poll := by
  induction h with
  | init => rfl
  | @step s s' l o _ hs ih =>
    cases l <;> simp only [step] at hs <;> (repeat' split at hs) <;> simp at hs <;>
      (try obtain ⟨rfl, -⟩ := hs) <;> (try obtain ⟨-, rfl, -⟩ := hs) <;> first | exact ih | simp_all

/-- once the flag is set every system step keeps it set and strictly decreases the measure -/
theorem system_step_decreases (s s' : St μ) (l : Label μ) (o : Obs) (hl : isSystem l = true)
    (hr : s.stopReq = true) (hs : step s l = some (s', o)) : s'.stopReq = true ∧ measure s' < measure s := by
  cases l <;> simp [isSystem] at hl <;> simp only [step] at hs
  case stopFlag =>
    cases hst : s.stopStage <;> simp [hst] at hs
    obtain ⟨rfl, -⟩ := hs
    simp [measure, stageM, hst]
  case stopPill =>
    cases hst : s.stopStage <;> simp [hst] at hs
    cases hp : s.phase <;> simp [hp] at hs <;> obtain ⟨rfl, -⟩ := hs <;> simp [measure, stageM, phaseM, hst, hp, hr]
  case wCheck =>
    cases hp : s.phase <;> simp [hp, hr] at hs
    obtain ⟨rfl, -⟩ := hs
    simp [measure, phaseM, hp, hr]
  case wEnter =>
    cases hp : s.phase <;> simp [hp] at hs
    obtain ⟨rfl, -⟩ := hs
    simp [measure, phaseM, hp, hr]
  case wTimeout =>
    cases hp : s.phase <;> simp [hp] at hs
    obtain ⟨-, rfl, -⟩ := hs
    simp [measure, phaseM, hp, hr]
  case wTake =>
    cases hp : s.phase <;> simp [hp] at hs
    rename_i x
    cases x <;> simp at hs <;> obtain ⟨rfl, -⟩ := hs <;> simp [measure, phaseM, hp, hr]
  case wFinish oc =>
    cases hp : s.phase <;> simp [hp] at hs
    cases oc <;> simp at hs <;> obtain ⟨rfl, -⟩ := hs <;> simp [measure, phaseM, hp, hr]
  case release =>
    cases hp : s.phase <;> simp [hp] at hs
    obtain ⟨⟨-, hnr⟩, rfl, -⟩ := hs
    simp [measure, phaseM, hp, hr, hnr]

theorem system_runs_bounded (s : St μ) (ls : List (Label μ)) (hr : s.stopReq = true)
    (hw : ∀ l ∈ ls, isSystem l = true) (hrun : (runLabels s ls).isSome = true) : ls.length ≤ measure s := by
  induction ls generalizing s with
  | nil => simp
  | cons l ls ih =>
    simp only [runLabels] at hrun
    cases hs : step s l with
    | none => simp [hs] at hrun
    | some p =>
      obtain ⟨s', o⟩ := p
      simp only [hs] at hrun
      have hd := system_step_decreases s s' l o (hw l (by simp)) hr hs
      have := ih s' hd.1 (fun l hl => hw l (by simp [hl])) hrun
      simp only [List.length_cons]
      omega

/-- with the polling loop a system step is always enabled until the wrapped sink is released -/
theorem progress {hh} (s : St μ) (h : Reachable true hh s) (h0 : s.handles = []) (hr : s.released = false) :
    ∃ l, isSystem l = true ∧ (step s l).isSome = true := by
  have hi := reachable_inv s h
  have hpoll := poll_const s h
  have hne := hi.stopIdle h0
  cases hst : s.stopStage with
  | idle => exact absurd hst hne
  | flag => exact ⟨.stopFlag, rfl, by simp [step, hst]⟩
  | pill => exact ⟨.stopPill, rfl, by cases hp : s.phase <;> simp [step, hst, hp]⟩
  | done =>
    cases hp : s.phase with
    | check => exact ⟨.wCheck, rfl, by simp only [step, hp]; split <;> simp⟩
    | entering => exact ⟨.wEnter, rfl, by simp [step, hp]⟩
    | waiting => exact ⟨.wTimeout, rfl, by simp [step, hp, hpoll]⟩
    | got x => exact ⟨.wTake, rfl, by cases x <;> simp [step, hp]⟩
    | running m => exact ⟨.wFinish .ok, rfl, by simp [step, hp]⟩
    | exited => exact ⟨.release, rfl, by simp [step, hp, h0, hst, hr]⟩

theorem runLabels_reachable {poll hh} (s : St μ) (h : Reachable poll hh s) (ls : List (Label μ)) (s' : St μ)
    (hrun : runLabels s ls = some s') : Reachable poll hh s' := by
  induction ls generalizing s with
  | nil => simp [runLabels] at hrun; exact hrun ▸ h
  | cons l ls ih =>
    simp only [runLabels] at hrun
    cases hs : step s l with
    | none => simp [hs] at hrun
    | some p =>
      obtain ⟨s1, o⟩ := p
      simp only [hs] at hrun
      exact ih s1 (Reachable.step h hs) hrun

end Queue0
