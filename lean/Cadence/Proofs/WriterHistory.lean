import Cadence.Proofs.WriterFraming
namespace Mlw
variable {α : Type}

theorem mlwFlush_inv (c : Cfg α) (s : St α) (pending) (orc) (h : Inv c s pending) :
    ∃ p', Inv c (mlwFlush s orc).2.1 p' := by
  rcases (mlwFlush_spec c s pending orc h).2 with ⟨k, _, hs⟩ | ⟨_, hs⟩
  · exact ⟨pending, by rw [hs]; exact h⟩
  · exact ⟨[], by rw [hs]; exact inv_empty c⟩

/-- C05 for whole histories: for every capacity, every terminator, every sequence of emits and
flushes of metrics of any lengths, every pattern of write failures: every write attempted on the
underlying writer during any operation is a frame, no call panics. -/
theorem history_framing (c : Cfg α) (ops : List (Op α)) (orc : List Outcome) (s : St α) (pending)
    (h : Inv c s pending) :
    (∀ o ∈ (runOps c s ops orc).1, ∀ a ∈ o.atts, IsFrame c a.payload) ∧
    (∀ o ∈ (runOps c s ops orc).1, o.res ≠ .panic) ∧
    (∃ p', Inv c (runOps c s ops orc).2.1 p') := by
  induction ops generalizing s pending orc with
  | nil => exact ⟨by simp [runOps], by simp [runOps], ⟨pending, h⟩⟩
  | cons op ops ih =>
    cases op with
    | emit m =>
      obtain ⟨hnp, ⟨p', hinv⟩, hfr⟩ := mlwWrite_spec c s m orc pending h
      obtain ⟨ih1, ih2, ih3⟩ := ih (mlwWrite c s m orc).2.2.2 (mlwWrite c s m orc).2.1 p' hinv
      refine ⟨?_, ?_, ih3⟩
      · intro o ho; simp only [runOps, List.mem_cons] at ho; rcases ho with rfl | ho
        · exact hfr
        · exact ih1 o ho
      · intro o ho; simp only [runOps, List.mem_cons] at ho; rcases ho with rfl | ho
        · exact hnp
        · exact ih2 o ho
    | flush =>
      obtain ⟨p', hinv⟩ := mlwFlush_inv c s pending orc h
      have hsp := mlwFlush_spec c s pending orc h
      obtain ⟨ih1, ih2, ih3⟩ := ih (mlwFlush s orc).2.2.2 (mlwFlush s orc).2.1 p' hinv
      refine ⟨?_, ?_, ih3⟩
      · intro o ho; simp only [runOps, List.mem_cons] at ho; rcases ho with rfl | ho
        · exact hsp.1
        · exact ih1 o ho
      · intro o ho; simp only [runOps, List.mem_cons] at ho; rcases ho with rfl | ho
        · rcases hsp.2 with ⟨k, hk, _⟩ | ⟨hk, _⟩ <;> simp [hk]
        · exact ih2 o ho

theorem drop_framing (c : Cfg α) (s : St α) (pending) (orc) (h : Inv c s pending) :
    ∀ a ∈ (mlwDrop s orc).1, IsFrame c a.payload := by
  intro a ha
  obtain ⟨hp, hne⟩ := (flushBuf_spec s.buf orc).1 a ha
  obtain ⟨_, _, hbuf, hlen⟩ := h
  left
  refine ⟨pending, ?_, by rw [hp, hbuf], by rw [hp]; exact hlen⟩
  intro hnil; rw [hnil] at hbuf; exact hne hbuf

/-- C05 for a whole life (any history from the fresh writer, then the drop): every observation,
including the drop's, contains only frames and no call panics. -/
theorem life_framing (c : Cfg α) (ops : List (Op α)) (orc : List Outcome) :
    ∀ o ∈ runLife c ops orc, (∀ a ∈ o.atts, IsFrame c a.payload) ∧ o.res ≠ .panic := by
  intro o ho
  obtain ⟨h1, h2, ⟨p', hinv⟩⟩ := history_framing c ops orc ⟨0, []⟩ [] (inv_empty c)
  simp only [runLife, List.mem_append, List.mem_singleton] at ho
  rcases ho with ho | rfl
  · exact ⟨h1 o ho, h2 o ho⟩
  · exact ⟨drop_framing c _ p' _ hinv, by simp⟩

-- non-vacuity: a concrete history with an exact fit, an oversize metric and a failed flush
example : (runOps (⟨8, [10]⟩ : Cfg Nat) ⟨0, []⟩
    [.emit [1,2,3,4,5,6,7], .emit [1,2], .emit [1,2,3,4,5,6,7,8,9], .flush, .flush]
    [.ok, .ok, .err 5]).1.map (fun o => (o.res, o.atts))
    = [(.ok 7, []), (.ok 2, [⟨[1,2,3,4,5,6,7,10], none⟩]), (.ok 9, [⟨[1,2,3,4,5,6,7,8,9], none⟩]),
       (.err 5, [⟨[1,2,10], some 5⟩]), (.ok 0, [⟨[1,2,10], none⟩])] := by decide

-- a whole life: the failed flush keeps the line, the drop sends both lines as one frame
example : (runLife (⟨8, [10]⟩ : Cfg Nat) [.emit [1,2,3], .flush, .emit [4]] [.err 5]).map
      (fun o => (o.res, o.atts))
    = [(.ok 3, []), (.err 5, [⟨[1,2,3,10], some 5⟩]), (.ok 1, []),
       (.ok 0, [⟨[1,2,3,10,4,10], none⟩])] := by decide

end Mlw
