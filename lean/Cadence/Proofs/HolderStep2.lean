import Cadence.Proofs.HolderStep1
namespace Holder

theorem step_inv2 (s s' : St) (t i w e : Nat) (h : Inv s) (h2 : Stage2 s w e)
    (hs : step Ords.source s t i = some s') : Inv s' := by
  obtain ⟨hr, -, hres, -⟩ := h
  obtain ⟨⟨m0, m1, m2, v, hm, hv0, hv1, hv2, hview, hev⟩, hcell, hwr, hpc⟩ := h2
  have keep : ∀ (th' : Thr) (ms : List Msg) (acc : List Access) (rc : Bool) (cv : Option Nat), cv = some w → ms = [m0, m1, m2] →
      (th'.pc = .idle ∨ (th'.pc = .read ∧ e ∈ th'.seen)) →
      (∀ a ∈ acc, a.isWrite = true → a.eid = e) →
      Stage2 { msgs := ms, accesses := acc, cellVal := cv, nextId := s.nextId + 1,
               thrs := upd s.thrs t th', raced := rc } w e := by
    intro th' ms acc rc cv hcv hms hth hacc
    refine ⟨⟨m0, m1, m2, v, hms, hv0, hv1, hv2, hview, hev⟩, hcv, hacc, ?_⟩
    intro u
    by_cases hut : u = t
    · subst hut; simpa using hth
    · simpa [upd_other _ _ _ _ hut] using hpc u
  have len3 : ∀ (ms : List Msg), ms = [m0, m1, m2] → ms.length = 3 := by intro ms h; simp [h]
  rcases hpc t with hpct | ⟨hpct, het⟩
  · unfold step at hs
    simp only [hpct] at hs
    split at hs
    · simp at hs
    · -- set: CAS fails
      split at hs
      · rename_i hi
        have hi' : i = 0 ∨ i = 1 ∨ i = 2 := by simp [hm] at hi; omega
        rcases hi' with rfl | rfl | rfl
        · simp [hm, hv0] at hs
        · simp [hm, hv1, LOADING, UNSET] at hs
          subst hs
          refine ⟨hr, Or.inr (Or.inr ⟨w, e, keep _ _ _ _ _ hcell rfl (Or.inl (by simp [hpct])) hwr⟩), ?_, ?_⟩
          · apply results_part s t _ _ [] hres (by simp) (fun _ h => h) (by simp)
          · intro _ _; rfl
        · simp [hm, hv2, COMPLETE, UNSET] at hs
          subst hs
          refine ⟨hr, Or.inr (Or.inr ⟨w, e, keep _ _ _ _ _ hcell rfl (Or.inl (by simp [hpct])) hwr⟩), ?_, ?_⟩
          · apply results_part s t _ _ [] hres (by simp) (fun _ h => h) (by simp)
          · intro _ _; rfl
      · simp at hs
    · -- get
      split at hs
      · rename_i hi
        have hi' : i = 0 ∨ i = 1 ∨ i = 2 := by simp [hm] at hi; omega
        rcases hi' with rfl | rfl | rfl
        · simp [hm, hv0, UNSET, COMPLETE] at hs
          subst hs
          refine ⟨hr, Or.inr (Or.inr ⟨w, e, keep _ _ _ _ _ hcell rfl (Or.inl (by simp [hpct])) hwr⟩), ?_, ?_⟩
          · apply results_part s t _ _ [.none] hres (by simp) (fun _ h => h) (by simp)
          · intro _ _; rfl
        · simp [hm, hv1, LOADING, COMPLETE] at hs
          subst hs
          refine ⟨hr, Or.inr (Or.inr ⟨w, e, keep _ _ _ _ _ hcell rfl (Or.inl (by simp [hpct])) hwr⟩), ?_, ?_⟩
          · apply results_part s t _ _ [.none] hres (by simp) (fun _ h => h) (by simp)
          · intro _ _; rfl
        · -- reads COMPLETE with Acquire: joins the released view, which contains the cell write
          simp [hm, hv2, Ords.source, Ord.acq, hview] at hs
          subst hs
          refine ⟨hr, Or.inr (Or.inr ⟨w, e, keep _ _ _ _ _ hcell rfl (Or.inr ⟨by simp, ?_⟩) hwr⟩), ?_, ?_⟩
          · simp [joinView, hev]
          · apply results_part s t _ _ [] hres (by simp) (fun _ h => h) (by simp)
          · intro _ _; rfl
      · simp at hs
    · -- isSet
      split at hs
      · rename_i hi
        simp at hs
        subst hs
        refine ⟨hr, Or.inr (Or.inr ⟨w, e, keep _ _ _ _ _ hcell hm (Or.inl (by simp [hpct])) hwr⟩), ?_, ?_⟩
        · apply results_part s t _ _ [.flag (decide ((s.msgs[i]'hi.2).val = COMPLETE))] hres (by simp) (fun _ h => h) (by simp)
        · intro _ _; simp [hm]
      · simp at hs
  · -- cell read: every earlier write is `e`, which this thread has seen
    unfold step at hs
    simp only [hpct] at hs
    simp [hcell] at hs
    subst hs
    refine ⟨?_, Or.inr (Or.inr ⟨w, e, keep _ _ _ _ _ rfl hm (Or.inl rfl) ?_⟩), ?_, ?_⟩
    · simp [hr]
      intro a ha hw'
      rw [hwr a ha hw']; exact het
    · intro a ha hw'
      simp at ha
      rcases ha with ha | ha
      · exact hwr a ha hw'
      · subst ha; simp at hw'
    · apply results_part s t _ (some w) [.some w] hres (by simp) (fun w' h => by rw [← hcell]; exact h)
      intro w' hw'; simp at hw'; subst hw'; rfl
    · intro _ _; simp [hm]

theorem step_inv (s s' : St) (t i : Nat) (h : Inv s) (hs : step Ords.source s t i = some s') : Inv s' := by
  rcases h.2.1 with h0 | ⟨w, h1⟩ | ⟨w, e, h2⟩
  · exact step_inv0 s s' t i h h0 hs
  · exact step_inv1 s s' t i w h h1 hs
  · exact step_inv2 s s' t i w e h h2 hs

theorem run_inv (s : St) (sched : List (Nat × Nat)) (h : Inv s) : Inv (run Ords.source s sched) := by
  induction sched generalizing s with
  | nil => exact h
  | cons p rest ih =>
    obtain ⟨t, i⟩ := p
    unfold run
    split
    · rename_i s' hs; exact ih s' (step_inv s s' t i h hs)
    · exact ih s h

/-- C18, race-freedom half: for any number of threads, any programs and any schedule (including
any choice of which coherence-permitted message each load reads), no execution under the
source's orderings contains a data race on the cell, and every `get` result is the unique writer. -/
theorem holder_race_free (progs : Nat → List Call) (sched : List (Nat × Nat)) :
    (run Ords.source (init progs) sched).raced = false ∧
    ∀ t w', Result.some w' ∈ ((run Ords.source (init progs) sched).thrs t).results →
      (run Ords.source (init progs) sched).cellVal = some w' := by
  have := run_inv (init progs) sched (init_inv progs)
  exact ⟨this.1, this.2.2.1⟩

/-- weakening the final store to Relaxed admits a racy execution: set ‖ get -/
theorem weak_store_races :
    (run ⟨.acqRel, .relaxed, .relaxed, .acquire⟩
      (init fun t => if t = 0 then [.set] else if t = 1 then [.get] else [])
      [(0, 0), (0, 0), (0, 0), (1, 2), (1, 0)]).raced = true := by
  decide

theorem weak_load_races :
    (run ⟨.acqRel, .relaxed, .release, .relaxed⟩
      (init fun t => if t = 0 then [.set] else if t = 1 then [.get] else [])
      [(0, 0), (0, 0), (0, 0), (1, 2), (1, 0)]).raced = true := by
  decide

end Holder
