import Cadence.Model.Client
import Cadence.Check.Format
/-!
Properties of the client model: conversions (C02), decoration (C04), one call / one emit and
truthful results (C03), what line a call denotes (C01).
-/
namespace Fmt

/-! ### C02: durations -/

/-- whole milliseconds, rounded down -/
theorem toMillis_floor (s n : Nat) (hn : n < 1000000000) :
    toMillis s n = (s * 1000000000 + n) / 1000000 := by
  have _ := hn
  unfold toMillis; omega

theorem U64MAX_eq : U64MAX = 2 ^ 64 - 1 := rfl

theorem timer_exact (s n : Nat) (h : toMillis s n ≤ U64MAX) :
    convert .time_dur (.dur s n) = some (.ok (.unsigned (toMillis s n))) := by
  have h' : toMillis s n < 2 ^ 64 := by rw [U64MAX_eq] at h; omega
  simp only [convert]
  rw [if_neg (by omega), Nat.mod_eq_of_lt h']

theorem timer_reject (s n : Nat) (h : toMillis s n > U64MAX) :
    convert .time_dur (.dur s n) = some (.error .inv) := by
  simp only [convert]
  rw [if_pos h]

theorem hist_exact (s n : Nat) (h : toNanos s n ≤ U64MAX) :
    convert .hist_dur (.dur s n) = some (.ok (.unsigned (toNanos s n))) := by
  have h' : toNanos s n < 2 ^ 64 := by rw [U64MAX_eq] at h; omega
  simp only [convert]
  rw [if_neg (by omega), Nat.mod_eq_of_lt h']

theorem hist_reject (s n : Nat) (h : toNanos s n > U64MAX) :
    convert .hist_dur (.dur s n) = some (.error .inv) := by
  simp only [convert]
  rw [if_pos h]

/-- a packed list of durations is rejected iff some element overflows, at any position -/
theorem timer_list_reject_iff (l : List (Nat × Nat)) :
    convert .time_vdur (.vdur l) = some (.error .inv) ↔ ∃ d ∈ l, toMillis d.1 d.2 > U64MAX := by
  simp only [convert]
  split <;> simp_all [List.any_eq_true]

/-- otherwise every element is converted exactly, length and order kept -/
theorem timer_list_exact (l : List (Nat × Nat)) (h : ∀ d ∈ l, toMillis d.1 d.2 ≤ U64MAX) :
    convert .time_vdur (.vdur l) = some (.ok (.punsigned (l.map fun d => toMillis d.1 d.2))) := by
  simp only [convert]
  rw [if_neg]
  · congr 3
    apply List.map_congr_left
    intro d hd
    have := h d hd
    rw [U64MAX_eq] at this
    exact Nat.mod_eq_of_lt (by omega)
  · simp only [List.any_eq_true, decide_eq_true_eq, not_exists, not_and]
    intro d hd
    have := h d hd
    omega

theorem hist_list_reject_iff (l : List (Nat × Nat)) :
    convert .hist_vdur (.vdur l) = some (.error .inv) ↔ ∃ d ∈ l, toNanos d.1 d.2 > U64MAX := by
  simp only [convert]
  split <;> simp_all [List.any_eq_true]

theorem hist_list_exact (l : List (Nat × Nat)) (h : ∀ d ∈ l, toNanos d.1 d.2 ≤ U64MAX) :
    convert .hist_vdur (.vdur l) = some (.ok (.punsigned (l.map fun d => toNanos d.1 d.2))) := by
  simp only [convert]
  rw [if_neg]
  · congr 3
    apply List.map_congr_left
    intro d hd
    have := h d hd
    rw [U64MAX_eq] at this
    exact Nat.mod_eq_of_lt (by omega)
  · simp only [List.any_eq_true, decide_eq_true_eq, not_exists, not_and]
    intro d hd
    have := h d hd
    omega

/-- integer entry points pass the supplied value through unchanged (whole range) -/
theorem convert_int_exact :
    (∀ v, convert .count_i64 (.i64 v) = some (.ok (.signed v))) ∧
    (∀ v, convert .count_i32 (.i32 v) = some (.ok (.signed v))) ∧
    (∀ v, convert .count_u64 (.u64 v) = some (.ok (.unsigned v))) ∧
    (∀ v, convert .count_u32 (.u32 v) = some (.ok (.unsigned v))) ∧
    (∀ v, convert .set_i64 (.i64 v) = some (.ok (.signed v))) ∧
    (∀ v, convert .time_u64 (.u64 v) = some (.ok (.unsigned v))) ∧
    (∀ v, convert .gauge_u64 (.u64 v) = some (.ok (.unsigned v))) ∧
    (∀ v, convert .meter_u64 (.u64 v) = some (.ok (.unsigned v))) ∧
    (∀ v, convert .hist_u64 (.u64 v) = some (.ok (.unsigned v))) ∧
    (∀ v, convert .dist_u64 (.u64 v) = some (.ok (.unsigned v))) := by
  refine ⟨?_, ?_, ?_, ?_, ?_, ?_, ?_, ?_, ?_, ?_⟩ <;> intro v <;> rfl

/-- a conversion error is always invalid-input -/
theorem convert_error_inv (e : Entry) (a : Arg) (er : ErrRepr)
    (h : convert e a = some (.error er)) : er = .inv := by
  cases e <;> cases a <;> simp [convert] at h <;> (try (split at h <;> simp_all))

/-! ### C04 / C01: what a call's formatter holds -/

def bopTags (bops : List BOp) : List Tag :=
  bops.filterMap fun | .tag k v => some ⟨some k, v⟩ | .tagv v => some ⟨none, v⟩ | _ => none

def bopCid (bops : List BOp) : Option Str := lastSome (bops.map fun | .cid c => some c | _ => none)
def bopTs (bops : List BOp) : Option Nat := lastSome (bops.map fun | .ts t => some t | _ => none)
def bopRate (bops : List BOp) : Option FloatTok := lastSome (bops.map fun | .rate r => some r | _ => none)

theorem lastSome_cons {β} (x : Option β) (xs : List (Option β)) :
    lastSome (x :: xs) = (match lastSome xs with | some y => some y | none => x) := rfl

/-- what folding the builder operations over a formatter does to each field -/
theorem foldl_apply_spec (bops : List BOp) (f : MFmt) :
    (bops.foldl MFmt.apply f).tags = f.tags ++ bopTags bops ∧
    (bops.foldl MFmt.apply f).cid = (match bopCid bops with | some c => some c | none => f.cid) ∧
    (bops.foldl MFmt.apply f).ts = (match bopTs bops with | some c => some c | none => f.ts) ∧
    (bops.foldl MFmt.apply f).rate = (match bopRate bops with | some c => some c | none => f.rate) ∧
    (bops.foldl MFmt.apply f).pfx = f.pfx ∧ (bops.foldl MFmt.apply f).key = f.key ∧
    (bops.foldl MFmt.apply f).val = f.val ∧ (bops.foldl MFmt.apply f).kind = f.kind := by
  induction bops generalizing f with
  | nil => simp [bopTags, bopCid, bopTs, bopRate, lastSome]
  | cons b bops ih =>
    obtain ⟨h1, h2, h3, h4, h5, h6, h7, h8⟩ := ih (f.apply b)
    simp only [List.foldl_cons, h1, h2, h3, h4, h5, h6, h7, h8]
    simp only [bopTags, bopCid, bopTs, bopRate, List.map_cons, lastSome_cons, List.filterMap_cons]
    cases b <;> simp only [MFmt.apply] <;>
      refine ⟨?_, ?_, ?_, ?_, ?_, ?_, ?_, ?_⟩ <;> (try rfl) <;> (try simp) <;> (split <;> simp_all)

theorem buildFmt_spec (cfg : ClientCfg) (e : Entry) (key : Str) (v : Val) (bops : List BOp) :
    (buildFmt cfg e key v bops).tags = cfg.tags ++ bopTags bops ∧
    (buildFmt cfg e key v bops).cid = (match bopCid bops with | some c => some c | none => cfg.cid) ∧
    (buildFmt cfg e key v bops).ts = (match bopTs bops with | some c => some c | none => none) ∧
    (buildFmt cfg e key v bops).rate = (match bopRate bops with | some c => some c | none => none) ∧
    (buildFmt cfg e key v bops).pfx = normPrefix cfg.pfx ∧ (buildFmt cfg e key v bops).key = key ∧
    (buildFmt cfg e key v bops).val = v ∧ (buildFmt cfg e key v bops).kind = e.kind :=
  foldl_apply_spec bops _

theorem lastSome_rate_text (bops : List BOp) :
    lastSome (bops.map fun | .rate r => some r.text | _ => none) = (bopRate bops).map (·.text) := by
  induction bops with
  | nil => rfl
  | cons b bops ih =>
    simp only [bopRate] at ih
    simp only [bopRate, List.map_cons, lastSome_cons, ih]
    cases lastSome (bops.map fun | .rate r => some r | _ => none) <;> cases b <;> rfl

/-- all default tags first, in configuration order, then the call's own tags in the order added -/
theorem tags_of_call (cfg : ClientCfg) (e : Entry) (key : Str) (v : Val) (bops : List BOp) :
    (buildFmt cfg e key v bops).tags = cfg.tags ++ bopTags bops := by
  exact (buildFmt_spec cfg e key v bops).1

/-- the last per-call container id replaces the default, for that call only (the client is a value) -/
theorem cid_of_call (cfg : ClientCfg) (e : Entry) (key : Str) (v : Val) (bops : List BOp) :
    (buildFmt cfg e key v bops).cid = (match bopCid bops with | some c => some c | none => cfg.cid) := by
  exact (buildFmt_spec cfg e key v bops).2.1

theorem ts_of_call (cfg : ClientCfg) (e : Entry) (key : Str) (v : Val) (bops : List BOp) :
    (buildFmt cfg e key v bops).ts = bopTs bops := by
  rw [(buildFmt_spec cfg e key v bops).2.2.1]
  cases bopTs bops <;> rfl

theorem rate_of_call (cfg : ClientCfg) (e : Entry) (key : Str) (v : Val) (bops : List BOp) :
    (buildFmt cfg e key v bops).rate = bopRate bops := by
  rw [(buildFmt_spec cfg e key v bops).2.2.2.1]
  cases bopRate bops <;> rfl

theorem base_of_call (cfg : ClientCfg) (e : Entry) (key : Str) (v : Val) (bops : List BOp) :
    (buildFmt cfg e key v bops).pfx = normPrefix cfg.pfx ∧ (buildFmt cfg e key v bops).key = key ∧
    (buildFmt cfg e key v bops).val = v ∧ (buildFmt cfg e key v bops).kind = e.kind := by
  exact (buildFmt_spec cfg e key v bops).2.2.2.2

/-- a client built without defaults adds nothing of its own -/
theorem no_defaults (cfg : ClientCfg) (e : Entry) (key : Str) (v : Val) (bops : List BOp)
    (ht : cfg.tags = []) (hc : cfg.cid = none) :
    (buildFmt cfg e key v bops).tags = bopTags bops ∧ (buildFmt cfg e key v bops).cid = bopCid bops := by
  rw [tags_of_call, cid_of_call, ht, hc]
  refine ⟨by simp, ?_⟩
  cases bopCid bops <;> rfl

/-- the predicate's notion of "what was supplied" agrees with the formatter the model builds -/
theorem supplied_agrees (cfg : ClientCfg) (e : Entry) (key : Str) (v : Val) (bops : List BOp) :
    let s := supplied cfg e key bops
    let f := buildFmt cfg e key v bops
    s.name = f.pfx ++ f.key ∧ s.kind = f.kind ∧ s.rate = f.rate.map (·.text) ∧ s.tags = f.tags ∧
    s.cid = f.cid ∧ s.ts = f.ts := by
  intro s f
  obtain ⟨hp, hk, _, hkd⟩ := base_of_call cfg e key v bops
  refine ⟨?_, ?_, ?_, ?_, ?_, ?_⟩
  · show _ = f.pfx ++ f.key
    rw [hp, hk]; rfl
  · show _ = f.kind
    rw [hkd]; rfl
  · show _ = f.rate.map (·.text)
    rw [rate_of_call]; exact lastSome_rate_text bops
  · exact (tags_of_call cfg e key v bops).symm
  · exact (cid_of_call cfg e key v bops).symm
  · exact (ts_of_call cfg e key v bops).symm

/-- standalone constructors give the client's text for the same full name and value -/
theorem standalone_eq_client (c : Ctor) (cfg : ClientCfg) (e : Entry) (key : Str) (v : Val)
    (hk : e.kind = c.kind) (ht : cfg.tags = []) (hc : cfg.cid = none) :
    (buildFmt cfg e key v []).format = standalone c (normPrefix cfg.pfx) key v := by
  simp only [buildFmt, List.foldl_nil, standalone, ht, hc, hk]

/-! ### C03: one call, at most one emit; truthful results -/

theorem buildFmt_count (cfg : ClientCfg) (e : Entry) (key : Str) (v : Val) (bops : List BOp) :
    (buildFmt cfg e key v bops).val.count = v.count := by
  rw [(base_of_call cfg e key v bops).2.2.1]

theorem call_emits_le_one (cfg e form key a bops sink tok) (o : CallObs)
    (h : call cfg e form key a bops sink tok = some o) : o.emits.length ≤ 1 := by
  unfold call at h
  cases hcv : convert e a with
  | none => simp [hcv] at h
  | some r =>
    cases r with
    | error er =>
      cases form <;> simp [hcv] at h <;> subst h <;> simp
    | ok v =>
      by_cases hz : v.count = 0 <;> cases form <;> cases sink <;>
        simp [hcv, trySend, buildFmt_count, hz] at h <;> subst h <;> simp

/-- exactly one string iff the value is valid (converted and non-empty) -/
theorem call_emits_iff_valid (cfg e form key a bops sink tok) (o : CallObs)
    (h : call cfg e form key a bops sink tok = some o) :
    (o.emits.length = 1 ↔ ∃ v, convert e a = some (.ok v) ∧ v.count ≠ 0) := by
  unfold call at h
  cases hcv : convert e a with
  | none => simp [hcv] at h
  | some r =>
    cases r with
    | error er =>
      cases form <;> simp [hcv] at h <;> subst h <;> simp
    | ok v =>
      by_cases hz : v.count = 0 <;> cases form <;> cases sink <;>
        simp [hcv, trySend, buildFmt_count, hz] at h <;> subst h <;> simp [hz]

/-- `Ok(metric)` only if the sink accepted exactly that metric's text during the call -/
theorem call_ok (cfg e form key a bops sink tok) (o : CallObs) (t : Str)
    (h : call cfg e form key a bops sink tok = some o) (hr : o.result = .ok t) :
    o.emits = [t] ∧ sink = .accept ∧ form ≠ .send := by
  unfold call at h
  cases hcv : convert e a with
  | none => simp [hcv] at h
  | some r =>
    cases r with
    | error er =>
      cases form <;> simp [hcv] at h <;> subst h <;> simp at hr
    | ok v =>
      by_cases hz : v.count = 0 <;> cases form <;> cases sink <;>
        simp [hcv, trySend, buildFmt_count, hz] at h <;> subst h <;> simp_all

/-- the sink's own error comes back (kind and identity) when the sink refused -/
theorem call_refused (cfg e form key a bops tok) (k : Nat) (o : CallObs) (v : Val)
    (h : call cfg e form key a bops (.refuse k) tok = some o)
    (hv : convert e a = some (.ok v)) (hc : v.count ≠ 0) :
    (form ≠ .send → o.result = .err (.io k tok) ∧ o.handler = []) ∧
    (form = .send → o.result = .unit ∧ o.handler = [.io k tok]) := by
  unfold call at h
  rw [hv] at h
  cases form <;> simp [trySend, buildFmt_count, hc] at h <;> subst h <;> simp

theorem call_invalid (cfg e form key a bops sink tok) (o : CallObs)
    (h : call cfg e form key a bops sink tok = some o)
    (hv : ¬ ∃ v, convert e a = some (.ok v) ∧ v.count ≠ 0) :
    o.emits = [] ∧
    (form ≠ .send → o.result = .err .inv ∧ o.handler = []) ∧
    (form = .send → o.result = .unit ∧ o.handler = [.inv]) := by
  unfold call at h
  cases hcv : convert e a with
  | none => simp [hcv] at h
  | some r =>
    cases r with
    | error er =>
      cases form <;> simp [hcv] at h <;> subst h <;> (have := convert_error_inv e a er hcv; subst this; simp)
    | ok v =>
      by_cases hz : v.count = 0 <;> cases form <;> cases sink <;>
        simp [hcv, trySend, buildFmt_count, hz] at h <;> subst h <;> simp_all

theorem call_accepted (cfg e form key a bops tok) (o : CallObs) (v : Val)
    (h : call cfg e form key a bops .accept tok = some o)
    (hv : convert e a = some (.ok v)) (hc : v.count ≠ 0) :
    o.handler = [] ∧ (form ≠ .send → ∃ t, o.result = .ok t ∧ o.emits = [t]) ∧ (form = .send → o.result = .unit) := by
  unfold call at h
  rw [hv] at h
  cases form <;> simp [trySend, buildFmt_count, hc] at h <;> subst h <;> simp

/-- the quiet form never returns an error -/
theorem call_send_unit (cfg e key a bops sink tok) (o : CallObs)
    (h : call cfg e .send key a bops sink tok = some o) : o.result = .unit ∧ o.handler.length ≤ 1 := by
  unfold call at h
  cases hcv : convert e a with
  | none => simp [hcv] at h
  | some r =>
    cases r with
    | error er => simp [hcv] at h; subst h; simp
    | ok v =>
      by_cases hz : v.count = 0 <;> cases sink <;>
        simp [hcv, trySend, buildFmt_count, hz] at h <;> subst h <;> simp

/-- the text of a valid call is the formatter's text -/
theorem call_text (cfg e form key a bops sink tok) (o : CallObs) (t : Str)
    (h : call cfg e form key a bops sink tok = some o) (ht : t ∈ o.emits) :
    ∃ v, convert e a = some (.ok v) ∧ v.count ≠ 0 ∧
      t = (buildFmt cfg e key v (if form = .plain then [] else bops)).format := by
  unfold call at h
  cases hcv : convert e a with
  | none => simp [hcv] at h
  | some r =>
    cases r with
    | error er =>
      cases form <;> simp [hcv] at h <;> subst h <;> simp at ht
    | ok v =>
      by_cases hz : v.count = 0 <;> cases form <;> cases sink <;>
        simp [hcv, trySend, buildFmt_count, hz] at h <;> subst h <;> simp_all

end Fmt
