import Cadence.Proofs.HolderInv
namespace Holder

theorem mem_joinView_right {x : Nat} {seen : List Nat} {v : Option (List Nat)} (h : x ∈ seen) : x ∈ joinView seen v := by
  cases v <;> simp [joinView, h]

theorem mem_joinView_view {x : Nat} {seen : List Nat} {v : List Nat} (h : x ∈ v) : x ∈ joinView seen (some v) := by
  simp [joinView, h]

theorem step_inv0 (s s' : St) (t i : Nat) (h : Inv s) (h0 : Stage0 s)
    (hs : step Ords.source s t i = some s') : Inv s' := by
  obtain ⟨hr, -, hres, hflag⟩ := h
  obtain ⟨⟨m0, hm, hv⟩, hacc, hcell, hpc⟩ := h0
  have hpct := hpc t
  unfold step at hs
  simp only [hpct] at hs
  split at hs
  · simp at hs
  · -- set
    rename_i rest hcalls
    split at hs
    · rename_i hi
      have hi0 : i = 0 := by simp [hm] at hi; omega
      subst hi0
      simp [hm, hv, Ords.source, Ord.acq, Ord.rel] at hs
      subst hs
      refine ⟨hr, Or.inr (Or.inl ⟨t, ⟨_, _, rfl, hv, rfl⟩, ?_, Or.inl ⟨by simp, hacc, hcell⟩⟩), ?_, ?_⟩
      · intro u hu; simp [upd_other _ _ _ _ hu, hpc u]
      · intro u w' hw
        by_cases hu : u = t
        · subst hu; simp at hw; exact hres _ _ hw
        · simp [upd_other _ _ _ _ hu] at hw; exact hres _ _ hw
      · intro u hf
        exfalso
        by_cases hu : u = t
        · subst hu; simp at hf
          have := hflag _ hf
          simp [hm] at this
        · simp [upd_other _ _ _ _ hu] at hf
          have := hflag _ hf
          simp [hm] at this
    · simp at hs
  · -- get
    rename_i rest hcalls
    split at hs
    · rename_i hi
      have hi0 : i = 0 := by simp [hm] at hi; omega
      subst hi0
      simp [hm, hv, UNSET, COMPLETE] at hs
      subst hs
      refine ⟨hr, Or.inl ⟨⟨m0, rfl, hv⟩, hacc, hcell, ?_⟩, ?_, ?_⟩
      · intro u
        by_cases hu : u = t
        · subst hu; simp [hpct]
        · simp [upd_other _ _ _ _ hu, hpc u]
      · intro u w' hw
        by_cases hu : u = t
        · subst hu; simp at hw; exact hres _ _ hw
        · simp [upd_other _ _ _ _ hu] at hw; exact hres _ _ hw
      · intro u hf
        exfalso
        by_cases hu : u = t
        · subst hu; simp at hf
          have := hflag _ hf
          simp [hm] at this
        · simp [upd_other _ _ _ _ hu] at hf
          have := hflag _ hf
          simp [hm] at this
    · simp at hs
  · -- isSet
    rename_i rest hcalls
    split at hs
    · rename_i hi
      have hi0 : i = 0 := by simp [hm] at hi; omega
      subst hi0
      simp [hm, hv, UNSET, COMPLETE] at hs
      subst hs
      refine ⟨hr, Or.inl ⟨⟨m0, rfl, hv⟩, hacc, hcell, ?_⟩, ?_, ?_⟩
      · intro u
        by_cases hu : u = t
        · subst hu; simp [hpct]
        · simp [upd_other _ _ _ _ hu, hpc u]
      · intro u w' hw
        by_cases hu : u = t
        · subst hu; simp at hw; exact hres _ _ hw
        · simp [upd_other _ _ _ _ hu] at hw; exact hres _ _ hw
      · intro u hf
        exfalso
        by_cases hu : u = t
        · subst hu; simp at hf
          have := hflag _ hf
          simp [hm] at this
        · simp [upd_other _ _ _ _ hu] at hf
          have := hflag _ hf
          simp [hm] at this
    · simp at hs

end Holder
