import Cadence.Model.Checked
import Cadence.Model.Client
/-!
C20: the checked arithmetic of the formatter cannot overflow or underflow under the resource
hypotheses Rust itself imposes (every string and vector the call refers to exists in memory).
-/
namespace Fmt

/-! ## helper lemmas on the `Checked` monad -/

theorem USIZE_eq : USIZE = 18446744073709551616 := by decide

theorem bind_ok {β γ} (v : β) (f : β → Checked γ) : (Checked.ok v >>= f) = f v := rfl

theorem cadd_ok {a b : Nat} (h : a + b < USIZE) : cadd a b = .ok (a + b) := by
  simp [cadd, h]

theorem cmul_ok {a b : Nat} (h : a * b < USIZE) : cmul a b = .ok (a * b) := by
  simp [cmul, h]

theorem csub_ok {a b : Nat} (h : b ≤ a) : csub a b = .ok (a - b) := by
  simp [csub, h]

/-- the per-tag summand of `inputBytes` -/
abbrev tagBytes (tags : List Tag) : Nat :=
  (tags.map fun t => (match t.key with | some k => k.length | none => 0) + t.value.length).sum

theorem tagSizeHint_ok (tags : List Tag) (kv : Nat) (h : kvSize tags = .ok kv)
    (hb : 2 + kv + tags.length < USIZE) :
    tagSizeHint tags = .ok (if tags.isEmpty then 0 else 2 + kv + tags.length - 1) := by
  unfold tagSizeHint
  cases htags : tags with
  | nil => simp
  | cons t ts =>
    subst htags
    have hlen : (t :: ts).length = ts.length + 1 := rfl
    have h1 : 2 + kv < USIZE := by omega
    simp only [List.isEmpty_cons, Bool.false_eq_true, if_false, h, bind_ok]
    rw [cadd_ok h1, bind_ok, cadd_ok hb, bind_ok, csub_ok (by omega)]

/-- the subtraction in `tag_size_hint` is guarded by `tags.is_empty()`: it never underflows -/
theorem tagSizeHint_no_underflow (tags : List Tag) (kv : Nat) (h : kvSize tags = .ok kv)
    (hb : 2 + kv + tags.length < USIZE) : tagSizeHint tags ≠ .panic := by
  rw [tagSizeHint_ok tags kv h hb]
  intro hc
  cases hc

/-- resource hypothesis: the strings and the value list the call refers to occupy less than 2^59
bytes / elements in total (they all exist in memory at once) -/
def Fits (f : MFmt) : Prop := inputBytes f + f.tags.length + f.val.count < 2 ^ 59

theorem kvSize_ok (tags : List Tag)
    (h : (tags.map fun t => (match t.key with | some k => k.length | none => 0) + t.value.length).sum + tags.length < 2 ^ 62) :
    ∃ kv, kvSize tags = .ok kv ∧
      kv ≤ (tags.map fun t => (match t.key with | some k => k.length | none => 0) + t.value.length).sum + tags.length := by
  have hU := USIZE_eq
  have h62 : (2 : Nat) ^ 62 = 4611686018427387904 := by decide
  induction tags with
  | nil => exact ⟨0, rfl, Nat.zero_le _⟩
  | cons t ts ih =>
    simp only [List.map_cons, List.sum_cons, List.length_cons] at h ⊢
    obtain ⟨kv, hkv, hle⟩ := ih (by omega)
    unfold kvSize at hkv ⊢
    simp only [List.map_cons, csum, hkv, bind_ok]
    cases hk : t.key with
    | none =>
      simp only [hk] at h ⊢
      refine ⟨t.value.length + kv, cadd_ok (by omega), by omega⟩
    | some k =>
      simp only [hk] at h ⊢
      refine ⟨k.length + 1 + t.value.length + kv, cadd_ok (by omega), by omega⟩

theorem baseSize_ok (f : MFmt)
    (h : f.pfx.length + f.key.length + 1 + 10 * f.val.count + 1 + 2 < USIZE) :
    baseSize f = .ok (f.pfx.length + f.key.length + 1 + 10 * f.val.count + 1 + 2) := by
  unfold baseSize
  rw [cadd_ok (by omega), bind_ok, cadd_ok (by omega), bind_ok, cmul_ok (by omega), bind_ok,
    cadd_ok (by omega), bind_ok, cadd_ok (by omega), bind_ok, cadd_ok (by omega)]

/-- `size_hint` (and so `format`'s `String::with_capacity`) never overflows or underflows -/
theorem sizeHint_no_panic (f : MFmt) (h : Fits f) : ∃ n, sizeHint f = .ok n ∧ n < 2 ^ 63 := by
  have hU := USIZE_eq
  have h59 : (2 : Nat) ^ 59 = 576460752303423488 := by decide
  have h62 : (2 : Nat) ^ 62 = 4611686018427387904 := by decide
  have h63 : (2 : Nat) ^ 63 = 9223372036854775808 := by decide
  unfold Fits inputBytes at h
  generalize hT : (f.tags.map fun t => (match t.key with | some k => k.length | none => 0) + t.value.length).sum = T at h
  obtain ⟨kv, hkv, hle⟩ := kvSize_ok f.tags (by rw [hT]; omega)
  rw [hT] at hle
  have hbase := baseSize_ok f (by omega)
  have htag := tagSizeHint_ok f.tags kv hkv (by omega)
  generalize hr : (if f.rate.isSome = true then 19 else 0) = rB
  have hrB : rB ≤ 19 := by subst hr; split <;> omega
  generalize hts : (if f.ts.isSome = true then 12 else 0) = tsB
  have htsB : tsB ≤ 12 := by subst hts; split <;> omega
  generalize htg : (if f.tags.isEmpty = true then 0 else 2 + kv + f.tags.length - 1) = tg at htag
  have htgB : tg ≤ 2 + kv + f.tags.length := by subst htg; split <;> omega
  unfold sizeHint
  rw [hbase, bind_ok, hr, cadd_ok (by omega), bind_ok, htag, bind_ok, cadd_ok (by omega), bind_ok,
    hts, cadd_ok (by omega), bind_ok]
  cases hcid : f.cid with
  | none =>
    simp only [hcid] at h ⊢
    rw [cadd_ok (by omega)]
    exact ⟨_, rfl, by omega⟩
  | some c =>
    simp only [hcid] at h ⊢
    rw [cadd_ok (by omega)]
    exact ⟨_, rfl, by omega⟩

/-- Duration arithmetic stays inside u128: the comparison happens before the narrowing cast -/
theorem duration_u128 (s n : Nat) (hs : s < 2 ^ 64) (hn : n < 1000000000) :
    toMillis s n < 2 ^ 128 ∧ toNanos s n < 2 ^ 128 := by
  have h64 : (2 : Nat) ^ 64 = 18446744073709551616 := by decide
  have h128 : (2 : Nat) ^ 128 = 340282366920938463463374607431768211456 := by decide
  unfold toMillis toNanos
  omega

/-- the narrowing `as u64` is the identity exactly when the guard lets the value through -/
theorem narrowing_exact (x : Nat) (h : ¬ x > U64MAX) : x % 2 ^ 64 = x := by
  have h64 : (2 : Nat) ^ 64 = 18446744073709551616 := by decide
  unfold U64MAX at h
  exact Nat.mod_eq_of_lt (by omega)

end Fmt
