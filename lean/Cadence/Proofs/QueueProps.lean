import Cadence.Proofs.QueueInv
/-!
Consequences of the invariant: the statements the queuing-sink properties C08–C11, C15, C16 need.
-/
namespace Queue
variable {μ : Type}

/-! ### C08 -/

theorem fifo_exactly_once {cap hh} (s : St μ) (h : Reachable cap hh s) :
    s.wrappedLog ++ inflight s.phase ++ somes s.chan = s.accepted := by
  exact (reachable_inv s h).fifo

theorem per_producer_order {cap hh} (s : St μ) (h : Reachable cap hh s) (f : μ → Bool) :
    (s.wrappedLog ++ inflight s.phase ++ somes s.chan).filter f = s.accepted.filter f := by
  rw [(reachable_inv s h).fifo]

theorem worker_alive {cap hh} (s : St μ) (h : Reachable cap hh s) (hne : s.handles ≠ []) : s.phase ≠ .exited := by
  exact ((reachable_inv s h).alive hne).2.2.2

/-- the worker is never stuck: unless it is inside the wrapped sink, or waiting on an empty queue,
or has exited and released, a system step (the worker's, or one of the two steps of the `stop()`
running inside the last handle's destructor) is enabled -/
theorem worker_not_stuck {cap hh} (s : St μ) (h : Reachable cap hh s) :
    (∃ m, s.phase = .running m) ∨ (s.phase = .recving ∧ s.chan = []) ∨
    (s.phase = .exited ∧ (s.handles ≠ [] ∨ s.released = true)) ∨
    ∃ l, isSystem l = true ∧ (step s l).isSome = true := by
  have inv := reachable_inv s h
  cases hp : s.phase with
  | check => exact .inr (.inr (.inr ⟨.wCheck, rfl, by simp only [step, hp]; split <;> simp⟩))
  | recving =>
    cases hch : s.chan with
    | nil => exact .inr (.inl ⟨rfl, rfl⟩)
    | cons x r =>
      refine .inr (.inr (.inr ⟨.wRecv, rfl, ?_⟩))
      simp only [step, hp, hch]
      cases x <;> simp
  | got m => exact .inr (.inr (.inr ⟨.wCount, rfl, by simp [step, hp]⟩))
  | running m => exact .inl ⟨m, rfl⟩
  | exited =>
    by_cases h0 : s.handles = []
    · cases hr : s.released with
      | true => exact .inr (.inr (.inl ⟨rfl, .inr rfl⟩))
      | false =>
        cases hst : s.stopStage with
        | idle => exact absurd hst (inv.stopped h0)
        | flag => exact .inr (.inr (.inr ⟨.stopFlag, rfl, by simp [step, hst]⟩))
        | pill => exact .inr (.inr (.inr ⟨.stopPill, rfl, by simp [step, hst]⟩))
        | done => exact .inr (.inr (.inr ⟨.release, rfl, by simp [step, hp, h0, hr, hst]⟩))
    · exact .inr (.inr (.inl ⟨rfl, .inl h0⟩))

/-! ### C09 -/

theorem drop_enabled (s : St μ) (h : Nat) (hh : h ∈ s.handles) : (step s (.drop h)).isSome = true := by
  simp only [step, hh, if_true]
  split <;> simp

/-- once no handle is left the stopper is running or has run, and once it has run the request is
recorded — whatever the queue's occupancy was when the pill was tried -/
theorem stop_not_lost {cap hh} (s : St μ) (h : Reachable cap hh s) (h0 : s.handles = []) :
    s.stopStage ≠ .idle ∧ (s.stopStage = .done → s.stopReq = true) := by
  have inv := reachable_inv s h
  exact ⟨inv.stopped h0, fun hd => inv.flagSet.2 (.inr hd)⟩

def rank : Phase μ → Nat
  | .check => 1 | .recving => 0 | .got _ => 3 | .running _ => 2 | .exited => 0

def stopRank : StopStage → Nat
  | .idle => 0 | .flag => 10 | .pill => 5 | .done => 0

/-- termination measure of the system steps once no producer can act (`stopPill` may append the
pill, which costs 4, and pays 5) -/
def measure (s : St μ) : Nat := 4 * s.chan.length + rank s.phase + 2 + (if s.released then 0 else 1) +
  (match s.phase with | .exited => 0 | _ => 1) + stopRank s.stopStage

/-- after the last drop a system step is enabled until the worker has exited and the wrapped sink is
released (the wrapped sink is assumed to return from each call: `wFinish`) -/
theorem progress {cap hh} (s : St μ) (h : Reachable cap hh s) (h0 : s.handles = []) (hc : s.cap ≠ some 0)
    (hnot : s.released = false) : ∃ l, isSystem l = true ∧ (step s l).isSome = true := by
  have inv := reachable_inv s h
  cases hst : s.stopStage with
  | idle => exact absurd hst (inv.stopped h0)
  | flag => exact ⟨.stopFlag, rfl, by simp [step, hst]⟩
  | pill => exact ⟨.stopPill, rfl, by simp [step, hst]⟩
  | done =>
    cases hp : s.phase with
    | check => exact ⟨.wCheck, rfl, by simp only [step, hp]; split <;> simp⟩
    | recving =>
      have hne := inv.noDeadlock hc hst hp
      refine ⟨.wRecv, rfl, ?_⟩
      simp only [step, hp]
      cases hch : s.chan with
      | nil => exact absurd hch hne
      | cons x r => cases x <;> simp
    | got m => exact ⟨.wCount, rfl, by simp [step, hp]⟩
    | running m => exact ⟨.wFinish .ok, rfl, by simp [step, hp]⟩
    | exited => exact ⟨.release, rfl, by simp [step, hp, h0, hnot, hst]⟩

theorem worker_step_decreases (s s' : St μ) (l : Label μ) (o : Obs) (hl : isSystem l = true)
    (hs : step s l = some (s', o)) : measure s' < measure s := by
  cases l with
  | stopFlag =>
    simp only [step] at hs
    split at hs
    · rename_i hst
      simp at hs; obtain ⟨rfl, -⟩ := hs; simp [measure, stopRank, hst]
    · simp at hs
  | stopPill =>
    simp only [step] at hs
    split at hs
    · rename_i hst
      simp at hs; obtain ⟨rfl, -⟩ := hs
      simp only [measure, stopRank, hst]
      split <;> simp <;> omega
    · simp at hs
  | wCheck =>
    simp only [step] at hs
    split at hs
    · rename_i hp
      split at hs
      · simp at hs; obtain ⟨rfl, -⟩ := hs; simp [measure, rank, hp]; omega
      · simp at hs; obtain ⟨rfl, -⟩ := hs; simp [measure, rank, hp]
    · simp at hs
  | wRecv =>
    simp only [step] at hs
    split at hs
    · rename_i hp
      split at hs
      · simp at hs
      · rename_i rest hch
        simp at hs; obtain ⟨rfl, -⟩ := hs; simp [measure, rank, hp, hch]; omega
      · rename_i m rest hch
        simp at hs; obtain ⟨rfl, -⟩ := hs; simp [measure, rank, hp, hch]; omega
    · simp at hs
  | wCount =>
    simp only [step] at hs
    split at hs
    · rename_i m hp
      simp at hs; obtain ⟨rfl, -⟩ := hs; simp [measure, rank, hp]
    · simp at hs
  | wFinish oc =>
    simp only [step] at hs
    split at hs
    · rename_i m hp
      cases oc <;> (simp at hs; obtain ⟨rfl, -⟩ := hs; simp [measure, rank, hp])
    · simp at hs
  | release =>
    simp only [step] at hs
    split at hs
    · rename_i hp
      split at hs
      · rename_i hcond
        simp at hcond
        simp at hs; obtain ⟨rfl, -⟩ := hs; simp [measure, rank, hp, hcond.2]
      · simp at hs
    · simp at hs
  | _ => simp [isSystem, isWorker] at hl

/-- every run made of system steps only is finite, with a bound fixed by the state -/
theorem worker_runs_bounded (s : St μ) (ls : List (Label μ)) (hw : ∀ l ∈ ls, isSystem l = true)
    (hr : (runLabels s ls).isSome = true) : ls.length ≤ measure s := by
  induction ls generalizing s with
  | nil => simp
  | cons l ls ih =>
    have hl : isSystem l = true := hw l (by simp)
    simp only [runLabels] at hr
    cases hst : step s l with
    | none => simp [hst] at hr
    | some p =>
      obtain ⟨s', o⟩ := p
      simp only [hst] at hr
      have hdec := worker_step_decreases s s' l o hl hst
      have := ih s' (fun l' hl' => hw l' (by simp [hl'])) hr
      simp only [List.length_cons]
      omega

theorem exited_all_delivered {cap hh} (s : St μ) (h : Reachable cap hh s) (hex : s.phase = .exited) :
    s.wrappedLog = s.accepted := by
  have inv := reachable_inv s h
  have := inv.fifo
  simpa [hex, inflight, inv.exitedDone hex] using this

theorem released_after_all {cap hh} (s : St μ) (h : Reachable cap hh s) (hr : s.released = true) :
    s.phase = .exited ∧ s.handles = [] ∧ s.stopStage = .done ∧ s.wrappedLog = s.accepted := by
  have inv := reachable_inv s h
  have := inv.rel hr
  exact ⟨this.1, this.2.1, this.2.2, exited_all_delivered s h this.1⟩

/-! ### C10 -/

theorem emit_result (s : St μ) (h : Nat) (m : μ) (hh : h ∈ s.handles) :
    step s (.emitTry h m) =
      if room s then
        some ({ s with chan := s.chan ++ [some m], accepted := s.accepted ++ [m], pendingIncr := s.pendingIncr + 1 }, .emitOk)
      else some (s, .emitErr) := by
  simp [step, hh]

theorem cap_never_exceeded {cap hh} (s : St μ) (h : Reachable cap hh s) (c : Nat) (hc : s.cap = some c) :
    s.chan.length ≤ c := by
  exact (reachable_inv s h).capOk c hc

theorem unbounded_accepts (s : St μ) (h : Nat) (m : μ) (hh : h ∈ s.handles) (hc : s.cap = none) :
    ∃ s', step s (.emitTry h m) = some (s', .emitOk) := by
  have hroom : room s = true := by simp [room, hc]
  rw [emit_result s h m hh, if_pos hroom]
  exact ⟨_, rfl⟩

/-- nothing a producer does runs, fails or panics the wrapped sink: only worker labels touch what
the wrapped sink, the handler and the panic counter see -/
theorem caller_isolation (s s' : St μ) (l : Label μ) (o : Obs) (hs : step s l = some (s', o))
    (hl : isWorker l = false) :
    s'.wrappedLog = s.wrappedLog ∧ s'.finished = s.finished ∧ s'.handlerLog = s.handlerLog ∧
    s'.panics = s.panics ∧ s'.trace = s.trace ∧ s'.phase = s.phase := by
  cases l with
  | emitTry hd m =>
    simp only [step] at hs
    split at hs
    · split at hs <;> (simp at hs; obtain ⟨rfl, -⟩ := hs; exact ⟨rfl, rfl, rfl, rfl, rfl, rfl⟩)
    · simp at hs
  | emitCount =>
    simp only [step] at hs
    split at hs
    · simp at hs; obtain ⟨rfl, -⟩ := hs; exact ⟨rfl, rfl, rfl, rfl, rfl, rfl⟩
    · simp at hs
  | clone hd =>
    simp only [step] at hs
    split at hs
    · simp at hs; obtain ⟨rfl, -⟩ := hs; exact ⟨rfl, rfl, rfl, rfl, rfl, rfl⟩
    · simp at hs
  | drop hd =>
    simp only [step] at hs
    split at hs
    · split at hs <;> (simp at hs; obtain ⟨rfl, -⟩ := hs; exact ⟨rfl, rfl, rfl, rfl, rfl, rfl⟩)
    · simp at hs
  | stopFlag =>
    simp only [step] at hs
    split at hs
    · simp at hs; obtain ⟨rfl, -⟩ := hs; exact ⟨rfl, rfl, rfl, rfl, rfl, rfl⟩
    · simp at hs
  | stopPill =>
    simp only [step] at hs
    split at hs
    · simp at hs; obtain ⟨rfl, -⟩ := hs; exact ⟨rfl, rfl, rfl, rfl, rfl, rfl⟩
    · simp at hs
  | _ => simp [isWorker] at hl

/-! ### C11 -/

theorem panics_count {cap hh} (s : St μ) (h : Reachable cap hh s) : s.panics = s.finished.countP isPanic := by
  exact (reachable_inv s h).pan

theorem panic_consumes_only_itself (s s' : St μ) (o : Obs) (hs : step s (.wFinish .panic) = some (s', o)) :
    s'.chan = s.chan ∧ s'.accepted = s.accepted ∧ s'.phase = .check ∧ s'.handles = s.handles ∧
    s'.stopReq = s.stopReq ∧ s'.wrappedLog = s.wrappedLog := by
  simp only [step] at hs
  split at hs
  · simp at hs; obtain ⟨rfl, -⟩ := hs; exact ⟨rfl, rfl, rfl, rfl, rfl, rfl⟩
  · simp at hs

/-! ### C15 -/

theorem counters {cap hh} (s : St μ) (h : Reachable cap hh s) :
    s.submitted + s.pendingIncr = s.accepted.length ∧ s.drained = s.wrappedLog.length := by
  exact ⟨(reachable_inv s h).subm, (reachable_inv s h).drn⟩

theorem refused_counts_nothing (s s' : St μ) (h : Nat) (m : μ) (hs : step s (.emitTry h m) = some (s', .emitErr)) :
    s' = s := by
  simp only [step] at hs
  split at hs
  · split at hs
    · simp at hs
    · simp at hs; exact hs.symm
  · simp at hs

theorem queued_bounds (a b : Nat) : queuedOf a b ≤ a ∧ (a < 2 ^ 64 → queuedOf a b < 2 ^ 64) := by
  unfold queuedOf
  split
  · exact ⟨by omega, fun h => by omega⟩
  · exact ⟨by omega, fun _ => Nat.two_pow_pos 64⟩

/-- at a quiescent moment (no emit between its try_send and its count) `queued` is what is waiting -/
theorem quiescent_queued {cap hh} (s : St μ) (h : Reachable cap hh s) (hq : s.pendingIncr = 0) :
    s.submitted = s.accepted.length ∧
    queuedOf s.submitted s.drained = (inflight s.phase ++ somes s.chan).length := by
  have inv := reachable_inv s h
  have hsub : s.submitted = s.accepted.length := by have := inv.subm; omega
  refine ⟨hsub, ?_⟩
  have hlen : s.accepted.length = s.wrappedLog.length + (inflight s.phase ++ somes s.chan).length := by
    rw [← inv.fifo]; simp
  unfold queuedOf
  rw [hsub, inv.drn]
  split <;> omega

/-! ### C16 -/

theorem handler_log {cap hh} (s : St μ) (h : Reachable cap hh s) :
    s.handlerLog = if hh then s.finished.filterMap errTok else [] := by
  have := (reachable_inv s h).hlog
  rwa [(reachable_cfg s h).2] at this

theorem trace_blocks {cap hh} (s : St μ) (h : Reachable cap hh s) :
    s.trace = blocks s.wrappedLog s.finished hh ++ (if s.released then [.released] else []) := by
  have := (reachable_inv s h).tr
  rwa [(reachable_cfg s h).2] at this

/-! ### the quiescent schedule is a run of the transition system -/

theorem settle_reachable {cap hh} (n : Nat) (s : St μ) (h : Reachable cap hh s) : Reachable cap hh (settle n s) := by
  induction n generalizing s with
  | zero => exact h
  | succ n ih =>
    simp only [settle]
    split
    · exact h
    · split
      · rename_i hst; exact ih _ (Reachable.step h hst)
      · exact h

end Queue
