import Cadence.Model.Client
import Cadence.Check.Format
/-!
Numerals and the line grammar: rendering / parsing round trips (C01, C02).
-/
namespace Fmt

/-! ### decimal numerals -/

theorem natDigitsAux_acc : ∀ (fuel n : Nat) (acc : List Nat),
    natDigitsAux fuel n acc = natDigitsAux fuel n [] ++ acc := by
  intro fuel
  induction fuel with
  | zero => intro n acc; simp [natDigitsAux]
  | succ f ih =>
    intro n acc
    simp only [natDigitsAux]
    split
    · simp
    · rw [ih (n/10) (n % 10 :: acc), ih (n/10) [n % 10]]; simp

theorem natDigitsAux_fuel : ∀ (f1 f2 n : Nat) (acc : List Nat), n < f1 → n < f2 →
    natDigitsAux f1 n acc = natDigitsAux f2 n acc := by
  intro f1
  induction f1 with
  | zero => intro f2 n acc h; omega
  | succ f ih =>
    intro f2 n acc h1 h2
    cases f2 with
    | zero => omega
    | succ g =>
      simp only [natDigitsAux]
      split
      · rfl
      · exact ih g (n/10) _ (by omega) (by omega)

theorem natDigits_lt {n : Nat} (h : n < 10) : natDigits n = [n] := by
  simp [natDigits, natDigitsAux, h]

theorem natDigits_ge {n : Nat} (h : 10 ≤ n) : natDigits n = natDigits (n / 10) ++ [n % 10] := by
  have h' : ¬ n < 10 := by omega
  have e : natDigitsAux (n + 1) n [] = natDigitsAux n (n / 10) [n % 10] := by
    simp only [natDigitsAux, h', if_false]
  unfold natDigits
  rw [e, natDigitsAux_acc, natDigitsAux_fuel n (n/10+1) (n/10) [] (by omega) (by omega)]

theorem renderNat_lt {n : Nat} (h : n < 10) : renderNat n = [digitByte n] := by
  simp [renderNat, natDigits_lt h]

theorem renderNat_ge {n : Nat} (h : 10 ≤ n) :
    renderNat n = renderNat (n / 10) ++ [digitByte (n % 10)] := by
  simp [renderNat, natDigits_ge h]

theorem natDigits_digit (n : Nat) : ∀ d ∈ natDigits n, d < 10 := by
  induction n using Nat.strongRecOn with
  | _ n ih =>
    by_cases h : n < 10
    · simp [natDigits_lt h, h]
    · rw [natDigits_ge (by omega)]
      intro d hd
      rcases List.mem_append.mp hd with hd | hd
      · exact ih (n/10) (by omega) d hd
      · simp at hd; omega

theorem natDigits_ne_nil (n : Nat) : natDigits n ≠ [] := by
  by_cases h : n < 10
  · simp [natDigits_lt h]
  · simp [natDigits_ge (show 10 ≤ n by omega)]

theorem renderNat_ne_nil (n : Nat) : renderNat n ≠ [] := by
  simp [renderNat, natDigits_ne_nil]

theorem renderNat_bytes (n : Nat) : ∀ b ∈ renderNat n, ∃ d, d < 10 ∧ b = digitByte d := by
  intro b hb
  simp only [renderNat, List.mem_map] at hb
  obtain ⟨d, hd, rfl⟩ := hb
  exact ⟨d, natDigits_digit n d hd, rfl⟩

theorem digit_cases {d : Nat} (h : d < 10) :
    d = 0 ∨ d = 1 ∨ d = 2 ∨ d = 3 ∨ d = 4 ∨ d = 5 ∨ d = 6 ∨ d = 7 ∨ d = 8 ∨ d = 9 := by omega

theorem digitVal_digitByte {d : Nat} (h : d < 10) : digitVal? (digitByte d) = some d := by
  rcases digit_cases h with rfl|rfl|rfl|rfl|rfl|rfl|rfl|rfl|rfl|rfl <;> decide

theorem digitByte_toNat {d : Nat} (h : d < 10) : (digitByte d).toNat = 48 + d := by
  rcases digit_cases h with rfl|rfl|rfl|rfl|rfl|rfl|rfl|rfl|rfl|rfl <;> decide

theorem digitByte_props {d : Nat} (h : d < 10) :
    digitByte d ≠ COLON ∧ digitByte d ≠ PIPE ∧ digitByte d ≠ HASH ∧ digitByte d ≠ COMMA ∧
    digitByte d ≠ AT ∧ digitByte d ≠ NL ∧ digitByte d ≠ MINUS := by
  rcases digit_cases h with rfl|rfl|rfl|rfl|rfl|rfl|rfl|rfl|rfl|rfl <;> decide

theorem digitByte_eq_48 {d : Nat} (h : d < 10) (e : digitByte d = 48) : d = 0 := by
  have := digitByte_toNat h
  rw [e] at this
  have h48 : (48 : UInt8).toNat = 48 := by decide
  omega

theorem parseNatAux_append (xs ys : List UInt8) (a : Nat) :
    parseNatAux (xs ++ ys) a = (parseNatAux xs a).bind (parseNatAux ys) := by
  induction xs generalizing a with
  | nil => simp [parseNatAux]
  | cons x xs ih =>
    simp only [List.cons_append, parseNatAux]
    cases digitVal? x with
    | none => simp
    | some d => simp [ih]

theorem parseNatAux_renderNat (n : Nat) : parseNatAux (renderNat n) 0 = some n := by
  induction n using Nat.strongRecOn with
  | _ n ih =>
    by_cases h : n < 10
    · simp [renderNat_lt h, parseNatAux, digitVal_digitByte h]
    · rw [renderNat_ge (by omega), parseNatAux_append, ih (n/10) (by omega)]
      simp [parseNatAux, digitVal_digitByte (show n % 10 < 10 by omega)]
      omega

theorem parseNat_renderNat (n : Nat) : parseNat (renderNat n) = some n := by
  simp [parseNat, renderNat_ne_nil, parseNatAux_renderNat]

theorem renderNat_head (n : Nat) : ∃ b rest, renderNat n = b :: rest ∧ ∃ d, d < 10 ∧ b = digitByte d := by
  cases h : renderNat n with
  | nil => exact absurd h (renderNat_ne_nil n)
  | cons b rest => exact ⟨b, rest, rfl, renderNat_bytes n b (by simp [h])⟩

theorem parseInt_renderInt (i : Int) : parseInt (renderInt i) = some i := by
  unfold renderInt
  split
  · simp [parseInt, parseNat_renderNat]; omega
  · obtain ⟨b, rest, hbr, d, hd, rfl⟩ := renderNat_head i.natAbs
    have hb : digitByte d ≠ MINUS := (digitByte_props hd).2.2.2.2.2.2
    rw [hbr]
    simp only [parseInt, hb, if_false]
    rw [← hbr, parseNat_renderNat]
    simp; omega

theorem renderNat_head_48 (n : Nat) : (renderNat n).head? = some 48 → n = 0 := by
  induction n using Nat.strongRecOn with
  | _ n ih =>
    by_cases h : n < 10
    · rw [renderNat_lt h]
      intro e
      simp at e
      exact digitByte_eq_48 h e
    · rw [renderNat_ge (by omega)]
      intro e
      have e' : (renderNat (n / 10)).head? = some 48 := by
        cases hr : renderNat (n / 10) with
        | nil => exact absurd hr (renderNat_ne_nil _)
        | cons b rest => rw [hr] at e; simpa using e
      have := ih (n/10) (by omega) e'
      omega

/-- canonical form: no leading zero except for zero itself, which is `"0"` -/
theorem renderNat_canonical (n : Nat) :
    renderNat n ≠ [] ∧ (renderNat n).all (fun b => 48 ≤ b.toNat ∧ b.toNat ≤ 57) = true ∧
    ((renderNat n).head? = some 48 → n = 0) ∧ renderNat 0 = [48] := by
  refine ⟨renderNat_ne_nil n, ?_, renderNat_head_48 n, by decide⟩
  rw [List.all_eq_true]
  intro b hb
  obtain ⟨d, hd, rfl⟩ := renderNat_bytes n b hb
  simp [digitByte_toNat hd]; omega

/-- no sign for a non-negative value, exactly one `-` for a negative one -/
theorem renderInt_sign (i : Int) :
    (0 ≤ i → renderInt i = renderNat i.toNat) ∧ (i < 0 → renderInt i = MINUS :: renderNat i.natAbs) := by
  constructor
  · intro h
    have : ¬ i < 0 := by omega
    have e : i.toNat = i.natAbs := by omega
    simp [renderInt, this, e]
  · intro h; simp [renderInt, h]

theorem delimFree_cons (b : UInt8) (s : Str) :
    delimFree (b :: s) = ((b != COLON && b != PIPE && b != HASH && b != COMMA && b != AT && b != NL) && delimFree s) := by
  simp [delimFree]

theorem renderNat_delimFree (n : Nat) : delimFree (renderNat n) = true := by
  unfold delimFree
  rw [List.all_eq_true]
  intro b hb
  obtain ⟨d, hd, rfl⟩ := renderNat_bytes n b hb
  obtain ⟨h1, h2, h3, h4, h5, h6, _⟩ := digitByte_props hd
  simp [h1, h2, h3, h4, h5, h6]

theorem renderInt_delimFree (i : Int) : delimFree (renderInt i) = true := by
  unfold renderInt
  split
  · rw [delimFree_cons, renderNat_delimFree]; decide
  · exact renderNat_delimFree _

/-! ### splitting and joining -/

theorem splitOn_free (sep : UInt8) (l : Str) (h : sep ∉ l) : splitOn sep l = [l] := by
  induction l with
  | nil => rfl
  | cons x xs ih =>
    have hx : x ≠ sep := by intro e; apply h; simp [e]
    have hxs : sep ∉ xs := by intro e; apply h; simp [e]
    simp [splitOn, hx, ih hxs]

theorem splitOn_append_sep (sep : UInt8) (l r : Str) (h : sep ∉ l) :
    splitOn sep (l ++ sep :: r) = l :: splitOn sep r := by
  induction l with
  | nil => simp [splitOn]
  | cons x xs ih =>
    have hx : x ≠ sep := by intro e; apply h; simp [e]
    have hxs : sep ∉ xs := by intro e; apply h; simp [e]
    simp [splitOn, hx, ih hxs]

/-- splitting a separator-joined, non-empty list of separator-free pieces returns the pieces -/
theorem splitOn_joinSep (sep : UInt8) (ls : List Str) (hne : ls ≠ []) (h : ∀ l ∈ ls, sep ∉ l) :
    splitOn sep (joinSep sep ls) = ls := by
  induction ls with
  | nil => exact absurd rfl hne
  | cons l rest ih =>
    cases rest with
    | nil => simp [joinSep, splitOn_free sep l (h l (by simp))]
    | cons l' ls =>
      simp only [joinSep]
      rw [splitOn_append_sep sep l _ (h l (by simp))]
      rw [ih (by simp) (fun x hx => h x (by simp [hx]))]

/-! ### the line grammar -/

def optFree (o : Option Str) : Bool := match o with | some s => delimFree s | none => true

/-- well-formed line: at least one value, and no piece contains a delimiter -/
def Line.WF (l : Line) : Bool :=
  delimFree l.name && !l.vals.isEmpty && l.vals.all delimFree && optFree l.rate &&
  l.tags.all Tag.delimFree && optFree l.cid && optFree l.ts

/-- `format` produces exactly the grammar's rendering of the formatter's fields: shape, section
order, separators, each optional section present iff supplied -/
theorem format_is_render (f : MFmt) : f.format = f.toLine.render := by
  cases hr : f.rate <;> cases ht : f.ts <;> cases hc : f.cid <;>
    simp [MFmt.format, Line.render, MFmt.toLine, Val.render, hr, ht, hc]

theorem delimFree_not_mem {s : Str} (h : delimFree s = true) :
    COLON ∉ s ∧ PIPE ∉ s ∧ COMMA ∉ s := by
  unfold delimFree at h
  rw [List.all_eq_true] at h
  refine ⟨?_, ?_, ?_⟩ <;> intro hm <;> have := h _ hm <;> simp at this

theorem optFree_pipe {o : Option Str} (h : optFree o = true) : ∀ s, o = some s → PIPE ∉ s := by
  intro s e; subst e; exact (delimFree_not_mem h).2.1

/-- the optional sections of a line as `|`-separated fields, without the leading `|` -/
def optFields (r : Option Str) (tags : List Tag) (c s : Option Str) : List Str :=
  (match r with | some r => [AT :: r] | none => []) ++
  (if tags.isEmpty then [] else [HASH :: joinSep COMMA (tags.map Tag.render)]) ++
  (match c with | some c => [LC :: COLON :: c] | none => []) ++
  (match s with | some t => [UT :: t] | none => [])

def renderFields : List Str → Str
  | [] => []
  | f :: fs => PIPE :: f ++ renderFields fs

theorem Line.render_eq (l : Line) :
    l.render = (l.name ++ COLON :: joinSep COLON l.vals) ++
      renderFields (l.kind.code :: optFields l.rate l.tags l.cid l.ts) := by
  cases hr : l.rate <;> cases hc : l.cid <;> cases hs : l.ts <;> by_cases ht : l.tags = [] <;>
    simp [Line.render, optFields, renderFields, hr, hc, hs, ht]

theorem splitOn_renderFields (x : Str) (fs : List Str) (hx : PIPE ∉ x) (h : ∀ f ∈ fs, PIPE ∉ f) :
    splitOn PIPE (x ++ renderFields fs) = x :: fs := by
  induction fs generalizing x with
  | nil => simp [renderFields, splitOn_free PIPE x hx]
  | cons f fs ih =>
    simp only [renderFields, List.cons_append]
    rw [splitOn_append_sep PIPE x _ hx, ih f (h f (by simp)) (fun g hg => h g (by simp [hg]))]

theorem Kind.ofCode_code (k : Kind) : Kind.ofCode? k.code = some k := by
  cases k <;> rfl

theorem Kind.code_pipe (k : Kind) : PIPE ∉ k.code := by
  cases k <;> decide

theorem parseTag_render (t : Tag) (h : t.delimFree = true) : parseTag t.render = some t := by
  obtain ⟨key, value⟩ := t
  cases key with
  | none =>
    simp only [Tag.delimFree, Bool.true_and] at h
    simp [Tag.render, parseTag, splitOn_free COLON value (delimFree_not_mem h).1]
  | some k =>
    simp only [Tag.delimFree, Bool.and_eq_true] at h
    simp [Tag.render, parseTag, splitOn_append_sep COLON k value (delimFree_not_mem h.1).1,
      splitOn_free COLON value (delimFree_not_mem h.2).1]

theorem Tag.render_free (t : Tag) (h : t.delimFree = true) : PIPE ∉ t.render ∧ COMMA ∉ t.render := by
  obtain ⟨key, value⟩ := t
  cases key with
  | none =>
    simp only [Tag.delimFree, Bool.true_and] at h
    exact ⟨(delimFree_not_mem h).2.1, (delimFree_not_mem h).2.2⟩
  | some k =>
    simp only [Tag.delimFree, Bool.and_eq_true] at h
    have hk := delimFree_not_mem h.1
    have hv := delimFree_not_mem h.2
    have e1 : PIPE ≠ COLON := by decide
    have e2 : COMMA ≠ COLON := by decide
    simp [Tag.render, hk.2.1, hk.2.2, hv.2.1, hv.2.2, e1, e2]

theorem mapM_parseTag_render (tags : List Tag) (h : tags.all Tag.delimFree = true) :
    (tags.map Tag.render).mapM parseTag = some tags := by
  induction tags with
  | nil => simp
  | cons t ts ih =>
    simp only [List.all_cons, Bool.and_eq_true] at h
    simp [List.mapM_cons, parseTag_render t h.1, ih h.2]

theorem tags_roundtrip (tags : List Tag) (hne : tags ≠ []) (h : tags.all Tag.delimFree = true) :
    (splitOn COMMA (joinSep COMMA (tags.map Tag.render))).mapM parseTag = some tags := by
  rw [splitOn_joinSep COMMA _ (by simpa using hne), mapM_parseTag_render tags h]
  intro l hl
  obtain ⟨t, ht, rfl⟩ := List.mem_map.mp hl
  exact (Tag.render_free t (List.all_eq_true.mp h t ht)).2

theorem joinSep_free (b sep : UInt8) (ls : List Str) (hs : b ≠ sep) (h : ∀ l ∈ ls, b ∉ l) :
    b ∉ joinSep sep ls := by
  induction ls with
  | nil => simp [joinSep]
  | cons l rest ih =>
    cases rest with
    | nil => simpa [joinSep] using h l (by simp)
    | cons l' ls =>
      simp only [joinSep, List.mem_append, List.mem_cons, not_or]
      exact ⟨h l (by simp), hs, ih (fun x hx => h x (by simp [hx]))⟩

theorem parseSections_optFields (r : Option Str) (tags : List Tag) (c s : Option Str)
    (h : tags.all Tag.delimFree = true) :
    parseSections (optFields r tags c s) = some (r, tags, c, s) := by
  have key := fun hne => tags_roundtrip tags hne h
  have h1 : HASH ≠ AT := by decide
  have h2 : LC ≠ AT := by decide
  have h3 : UT ≠ AT := by decide
  have h4 : LC ≠ HASH := by decide
  have h5 : UT ≠ HASH := by decide
  have h6 : UT ≠ LC := by decide
  cases r <;> cases c <;> rcases s with _ | (_ | ⟨b, v⟩) <;> by_cases ht : tags = [] <;>
    simp [parseSections, optFields, ht, h1, h2, h3, h4, h5, h6, key]

theorem optFields_pipe (r : Option Str) (tags : List Tag) (c s : Option Str)
    (hr : optFree r = true) (ht : tags.all Tag.delimFree = true) (hc : optFree c = true)
    (hs : optFree s = true) : ∀ f ∈ optFields r tags c s, PIPE ∉ f := by
  intro f hf
  have a1 : PIPE ≠ AT := by decide
  have a2 : PIPE ≠ HASH := by decide
  have a3 : PIPE ≠ LC := by decide
  have a4 : PIPE ≠ COLON := by decide
  have a5 : PIPE ≠ UT := by decide
  simp only [optFields, List.mem_append] at hf
  rcases hf with ((hf | hf) | hf) | hf
  · cases r with
    | none => simp at hf
    | some r =>
      have hr' : delimFree r = true := hr
      simp at hf; subst hf; simp [a1, (delimFree_not_mem hr').2.1]
  · by_cases hte : tags = []
    · simp [hte] at hf
    · simp [hte] at hf; subst hf
      have : PIPE ∉ joinSep COMMA (tags.map Tag.render) := by
        apply joinSep_free PIPE COMMA _ (by decide)
        intro l hl
        obtain ⟨t, htm, rfl⟩ := List.mem_map.mp hl
        exact (Tag.render_free t (List.all_eq_true.mp ht t htm)).1
      simp [a2, this]
  · cases c with
    | none => simp at hf
    | some c =>
      have hc' : delimFree c = true := hc
      simp at hf; subst hf; simp [a3, a4, (delimFree_not_mem hc').2.1]
  · cases s with
    | none => simp at hf
    | some s =>
      have hs' : delimFree s = true := hs
      simp at hf; subst hf; simp [a5, (delimFree_not_mem hs').2.1]

/-- parsing a rendered well-formed line yields exactly the line -/
theorem parse_render (l : Line) (h : l.WF = true) : parseLine l.render = some l := by
  obtain ⟨name, vals, kind, rate, tags, cid, ts⟩ := l
  simp only [Line.WF, Bool.and_eq_true] at h
  obtain ⟨⟨⟨⟨⟨⟨hn, hv0⟩, hv⟩, hr⟩, ht⟩, hc⟩, hs⟩ := h
  have hvals : ∀ v ∈ vals, delimFree v = true := List.all_eq_true.mp hv
  have hne : vals ≠ [] := by
    intro e; subst e; simp at hv0
  have hbase : PIPE ∉ name ++ COLON :: joinSep COLON vals := by
    have : PIPE ∉ joinSep COLON vals :=
      joinSep_free PIPE COLON vals (by decide) (fun v hm => (delimFree_not_mem (hvals v hm)).2.1)
    have a4 : PIPE ≠ COLON := by decide
    simp [(delimFree_not_mem hn).2.1, this, a4]
  have hfields : ∀ f ∈ kind.code :: optFields rate tags cid ts, PIPE ∉ f := by
    intro f hf
    rcases List.mem_cons.mp hf with rfl | hf
    · exact Kind.code_pipe kind
    · exact optFields_pipe rate tags cid ts hr ht hc hs f hf
  rw [Line.render_eq]
  simp only [parseLine, splitOn_renderFields _ _ hbase hfields]
  rw [splitOn_append_sep COLON _ _ (delimFree_not_mem hn).1,
    splitOn_joinSep COLON vals hne (fun v hm => (delimFree_not_mem (hvals v hm)).1)]
  cases vals with
  | nil => exact absurd rfl hne
  | cons v vs => simp [Kind.ofCode_code, parseSections_optFields rate tags cid ts ht]

/-- packed values keep their length and order on the wire -/
theorem val_tokens_roundtrip (v : Val) (hne : v.tokens ≠ []) (h : ∀ t ∈ v.tokens, COLON ∉ t) :
    splitOn COLON v.render = v.tokens :=
  splitOn_joinSep COLON v.tokens hne h

theorem val_tokens_length (v : Val) : v.tokens.length = v.count := by
  cases v <;> simp [Val.tokens, Val.count]

end Fmt
