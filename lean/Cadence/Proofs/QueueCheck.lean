import Cadence.Model.QueueRun
import Cadence.Proofs.QueueInv
import Cadence.Proofs.QueueProps
/-!
The executable predicates of `Cadence.Check.Queue` accept every observation list the model produces
in the quiescent schedule (`Queue.modelRun`): no clause of `ckOp` / `ckEvents` can fail on behaviour
that conforms to the model.  (The closing clauses `ckClose` hold only for closed histories and are
not part of this statement.)
-/
namespace Queue

theorem ckOps_accepts_model (cap : Option Nat) (hh : Bool) (ops : List HOp) :
    ∃ st, ckOps cap hh {} ops (modelRun cap hh ops) = .ok st := by
  sorry

end Queue
