import Cadence.Model.QueueRun
import Cadence.Proofs.QueueInv
import Cadence.Proofs.QueueProps
/-!
The executable predicates of `Cadence.Check.Queue` accept every observation list the model produces
in the quiescent schedule (`Queue.modelRun`): no clause of `ckOp` / `ckEvents` can fail on behaviour
that conforms to the model (`ckOps_accepts_model`).  The closing clauses `ckClose` hold only for closed
histories; `ckHistory_accepts_closed_model` adds them for histories after which the model has no handle
left and the worker is not parked inside the wrapped sink (`closedAfter`), for capacities other than 0.

Structure of the proof:
* `settle_quiescent`: the fuel of `settleAll` always suffices — a measure bounded by
  `4 * chan.length + 8` strictly decreases with every step `workerStep` proposes, and every such step
  is enabled; so `workerStep (settleAll s) = none` for every `s`.
* `Rel`: the simulation relation between a model state and a checker state (no quiescence needed).
* `step_sim`: each step of the quiescent schedule adds at most one event to the trace, and `ckEvents`
  consumes that event into a related checker state.  `settle_sim` iterates it.
* `modelOp_sim`: one harness operation from a related, quiescent pair is accepted by `ckOp` and ends
  in a related, quiescent pair.  `go_sim` iterates it over the history; `go_final` also reports the
  final pair, whose model half is `modelFinal`.
* `Rel.drp` (`c.dropped = s.released`) and `closed_quiescent_done` (a quiescent reachable state without
  handles, not inside the wrapped sink, `cap ≠ some 0`, has exited, released, and delivered everything:
  `Inv.noDeadlock` excludes `recv()` on an empty queue after `stop()`) give the closing clauses.
-/
namespace Queue

/-! ### the quiescent schedule terminates within its fuel -/
section fuel
variable {μ : Type}

def phaseRank (p : Phase μ) (released : Bool) : Nat :=
  match p with
  | .check => 2
  | .recving => 0
  | .got _ => 1
  | .running _ => 0
  | .exited => if released then 0 else 1

def stageRank : StopStage → Nat
  | .idle => 0 | .flag => 6 | .pill => 5 | .done => 0

/-- bounds the number of steps `settle` can still take -/
def fuelMeasure (s : St μ) : Nat :=
  4 * s.chan.length + phaseRank s.phase s.released + stageRank s.stopStage

/-- the labels the quiescent schedule uses -/
def quietSys : Label μ → Bool
  | .stopFlag | .stopPill | .wCheck | .wRecv | .wCount | .release => true
  | _ => false

theorem fuelMeasure_lt (s : St μ) : fuelMeasure s < 4 * s.chan.length + 12 := by
  have h1 : phaseRank s.phase s.released ≤ 2 := by
    cases s.phase <;> cases s.released <;> simp [phaseRank]
  have h2 : stageRank s.stopStage ≤ 6 := by
    cases s.stopStage <;> simp [stageRank]
  unfold fuelMeasure
  omega

/-- whatever `workerStep` proposes is one of the six quiet labels, is enabled, and decreases the measure -/
theorem workerStep_enabled (s : St μ) (l : Label μ) (h : workerStep s = some l) :
    quietSys l = true ∧ ∃ s', step s l = some (s', .none) ∧ fuelMeasure s' < fuelMeasure s := by
  have phaseCase : (s.stopStage = .idle ∨ s.stopStage = .done) →
      quietSys l = true ∧ ∃ s', step s l = some (s', .none) ∧ fuelMeasure s' < fuelMeasure s := by
    intro hst
    have hsr : stageRank s.stopStage = 0 := by rcases hst with h | h <;> simp [h, stageRank]
    cases hp : s.phase with
    | check =>
      have h' : l = .wCheck := by rcases hst with e | e <;> simpa [workerStep, e, hp] using h.symm
      subst h'
      refine ⟨rfl, ?_⟩
      simp only [step, hp]
      split
      · exact ⟨_, rfl, by cases s.released <;> simp [fuelMeasure, phaseRank, hp]⟩
      · exact ⟨_, rfl, by simp [fuelMeasure, phaseRank, hp]⟩
    | recving =>
      cases hch : s.chan with
      | nil => rcases hst with e | e <;> simp [workerStep, e, hp, hch] at h
      | cons x r =>
        have h' : l = .wRecv := by rcases hst with e | e <;> simpa [workerStep, e, hp, hch] using h.symm
        subst h'
        refine ⟨rfl, ?_⟩
        simp only [step, hp, hch]
        cases x with
        | none => exact ⟨_, rfl, by cases s.released <;> simp [fuelMeasure, phaseRank, hp, hch] <;> omega⟩
        | some m => exact ⟨_, rfl, by simp [fuelMeasure, phaseRank, hp, hch]; omega⟩
    | got m =>
      have h' : l = .wCount := by rcases hst with e | e <;> simpa [workerStep, e, hp] using h.symm
      subst h'
      refine ⟨rfl, ?_⟩
      simp only [step, hp]
      exact ⟨_, rfl, by simp [fuelMeasure, phaseRank, hp]⟩
    | running m => rcases hst with e | e <;> simp [workerStep, e, hp] at h
    | exited =>
      rcases hst with e | e
      · simp [workerStep, e, hp] at h
      · simp [workerStep, e, hp] at h
        obtain ⟨⟨h0, hr⟩, rfl⟩ := h
        refine ⟨rfl, ?_⟩
        simp only [step, hp, h0, e, hr]
        exact ⟨_, rfl, by simp [fuelMeasure, phaseRank, hp, hr, e]⟩
  cases hst : s.stopStage with
  | flag =>
    simp only [workerStep, hst] at h; cases h
    refine ⟨rfl, ?_⟩
    simp only [step, hst]
    exact ⟨_, rfl, by simp [fuelMeasure, stageRank, hst]⟩
  | pill =>
    simp only [workerStep, hst] at h; cases h
    refine ⟨rfl, ?_⟩
    simp only [step, hst]
    refine ⟨_, rfl, ?_⟩
    simp only [fuelMeasure, stageRank, hst]
    split <;> simp <;> omega
  | idle => exact phaseCase (.inl hst)
  | done => exact phaseCase (.inr hst)

theorem settle_quiescent (n : Nat) (s : St μ) (h : fuelMeasure s < n) : workerStep (settle n s) = none := by
  induction n generalizing s with
  | zero => omega
  | succ n ih =>
    cases hw : workerStep s with
    | none => simp [settle, hw]
    | some l =>
      obtain ⟨-, s', hs, hlt⟩ := workerStep_enabled s l hw
      simp only [settle, hw, hs]
      exact ih s' (by omega)

end fuel

theorem settleAll_quiescent (s : St M) : workerStep (settleAll s) = none :=
  settle_quiescent _ s (fuelMeasure_lt s)

/-! ### the simulation relation -/

def isRunning {μ : Type} : Phase μ → Bool
  | .running _ => true
  | _ => false

/-- how `newEvents` reports one model event -/
def evMap (kind : Nat) : Ev M → HEv
  | .enter m => .enter m true
  | .handled tok => .handled kind (toString tok) true
  | .released => .dropped

theorem newEvents_eq (b a : List (Ev M)) (k : Nat) : newEvents b a k = (a.drop b.length).map (evMap k) := by
  rfl

theorem newEvents_append (b evs : List (Ev M)) (k : Nat) : newEvents b (b ++ evs) k = evs.map (evMap k) := by
  rw [newEvents_eq]; simp

/-- the model never reports a flush of the wrapped sink among the events of a settle -/
theorem evMap_ne_flushed (k : Nat) (e : Ev M) : evMap k e ≠ .flushed := by
  cases e <;> simp [evMap]

/-- model state `s` (with `fins` completed wrapped-sink calls) against checker state `c` -/
structure Rel (cap : Option Nat) (hh : Bool) (fins : Nat) (s : St M) (c : CkSt) : Prop where
  reach : Reachable cap hh s
  acc : c.accepted = s.accepted
  ent : c.entered = s.wrappedLog.length
  live : c.live = s.handles
  next : c.next = s.nextHandle
  inside : c.inside = isRunning s.phase
  fin : c.finishes = fins
  pan : c.panics = s.panics
  pend : s.pendingIncr = 0
  drp : c.dropped = s.released

theorem ckEvents_nil (hh : Bool) (eH : Option (Nat × String)) (c : CkSt) : ckEvents hh eH c [] false = .ok c := by
  simp [ckEvents]; rfl

theorem getElem?_mid {α} (a b : List α) (m : α) : (a ++ [m] ++ b)[a.length]? = some m := by
  simp

/-- one step of the quiescent schedule: at most one new event, and the checker follows -/
theorem step_sim {cap hh fins} (kind : Nat) {s s1 : St M} {c : CkSt} {l : Label M} {o : Obs}
    (hR : Rel cap hh fins s c) (hl : quietSys l = true) (hs : step s l = some (s1, o)) :
    ∃ ev1 c1, s1.trace = s.trace ++ ev1 ∧ Rel cap hh fins s1 c1 ∧
      ∀ eH rest, ckEvents hh eH c (ev1.map (evMap kind) ++ rest) false = ckEvents hh eH c1 rest false := by
  have hreach := Reachable.step hR.reach hs
  have inv := reachable_inv s hR.reach
  obtain ⟨hr, hacc, hent, hlive, hnext, hins, hfin, hpan, hpend, hdrp⟩ := hR
  cases l with
  | stopFlag =>
    simp only [step] at hs
    split at hs
    · simp at hs; obtain ⟨rfl, -⟩ := hs
      exact ⟨[], c, by simp, ⟨hreach, hacc, hent, hlive, hnext, hins, hfin, hpan, hpend, hdrp⟩, fun _ _ => rfl⟩
    · simp at hs
  | stopPill =>
    simp only [step] at hs
    split at hs
    · simp at hs; obtain ⟨rfl, -⟩ := hs
      exact ⟨[], c, by simp, ⟨hreach, hacc, hent, hlive, hnext, hins, hfin, hpan, hpend, hdrp⟩, fun _ _ => rfl⟩
    · simp at hs
  | wCheck =>
    simp only [step] at hs
    split at hs
    · rename_i hph
      have hins' : c.inside = false := by rw [hins, hph]; rfl
      split at hs <;>
      · simp at hs; obtain ⟨rfl, -⟩ := hs
        exact ⟨[], c, by simp, ⟨hreach, hacc, hent, hlive, hnext, hins', hfin, hpan, hpend, hdrp⟩, fun _ _ => rfl⟩
    · simp at hs
  | wRecv =>
    simp only [step] at hs
    split at hs
    · rename_i hph
      have hins' : c.inside = false := by rw [hins, hph]; rfl
      split at hs
      · simp at hs
      · simp at hs; obtain ⟨rfl, -⟩ := hs
        exact ⟨[], c, by simp, ⟨hreach, hacc, hent, hlive, hnext, hins', hfin, hpan, hpend, hdrp⟩, fun _ _ => rfl⟩
      · simp at hs; obtain ⟨rfl, -⟩ := hs
        exact ⟨[], c, by simp, ⟨hreach, hacc, hent, hlive, hnext, hins', hfin, hpan, hpend, hdrp⟩, fun _ _ => rfl⟩
    · simp at hs
  | wCount =>
    simp only [step] at hs
    split at hs
    · rename_i m hph
      have hins' : c.inside = false := by rw [hins, hph]; rfl
      have hget : c.accepted[c.entered]? = some m := by
        rw [hacc, hent, ← inv.fifo, hph]
        exact getElem?_mid _ _ _
      simp at hs; obtain ⟨rfl, -⟩ := hs
      refine ⟨[.enter m], { c with entered := c.entered + 1, inside := true }, rfl,
        ⟨hreach, hacc, by simp [hent], hlive, hnext, rfl, hfin, hpan, hpend, hdrp⟩, ?_⟩
      intro eH rest
      simp [evMap, ckEvents, hins', hget]
    · simp at hs
  | release =>
    simp only [step] at hs
    split at hs
    · rename_i hph
      split at hs
      · rename_i hcond
        simp at hcond
        obtain ⟨⟨h0, -⟩, -⟩ := hcond
        have hall : s.wrappedLog = s.accepted := exited_all_delivered s hr hph
        simp at hs; obtain ⟨rfl, -⟩ := hs
        refine ⟨[.released], { c with dropped := true }, rfl,
          ⟨hreach, hacc, hent, hlive, hnext, hins, hfin, hpan, hpend, rfl⟩, ?_⟩
        intro eH rest
        have hl0 : c.live = [] := by rw [hlive, h0]
        have hle : ¬ c.entered < c.accepted.length := by rw [hent, hacc, hall]; omega
        simp [evMap, ckEvents, hl0, hle]
      · simp at hs
    · simp at hs
  | _ => simp [quietSys] at hl

theorem settle_sim {cap hh fins} (kind : Nat) (n : Nat) (s : St M) (c : CkSt) (hR : Rel cap hh fins s c) :
    ∃ evs c', (settle n s).trace = s.trace ++ evs ∧ Rel cap hh fins (settle n s) c' ∧
      ∀ eH, ckEvents hh eH c (evs.map (evMap kind)) false = .ok c' := by
  induction n generalizing s c with
  | zero => exact ⟨[], c, by simp [settle], by simpa [settle] using hR, fun eH => ckEvents_nil hh eH c⟩
  | succ n ih =>
    cases hw : workerStep s with
    | none =>
      have h1 : settle (n + 1) s = s := by simp [settle, hw]
      rw [h1]
      exact ⟨[], c, by simp, hR, fun eH => ckEvents_nil hh eH c⟩
    | some l =>
      obtain ⟨hq, s', hs, -⟩ := workerStep_enabled s l hw
      have h1 : settle (n + 1) s = settle n s' := by simp [settle, hw, hs]
      obtain ⟨ev1, c1, ht1, hR1, hck1⟩ := step_sim kind hR hq hs
      obtain ⟨evs, c', ht, hR', hck⟩ := ih s' c1 hR1
      rw [h1]
      exact ⟨ev1 ++ evs, c', by rw [ht, ht1, List.append_assoc], hR',
        fun eH => by rw [List.map_append, hck1, hck]⟩

/-- `settleAll` from a related pair: the new events are accepted, the result is related and quiescent -/
theorem settleAll_sim {cap hh fins} (kind : Nat) (s : St M) (c : CkSt) (hR : Rel cap hh fins s c) :
    ∃ evs c', (settleAll s).trace = s.trace ++ evs ∧ Rel cap hh fins (settleAll s) c' ∧
      workerStep (settleAll s) = none ∧
      ∀ eH, ckEvents hh eH c (evs.map (evMap kind)) false = .ok c' := by
  obtain ⟨evs, c', h1, h2, h3⟩ := settle_sim kind (4 * s.chan.length + 12) s c hR
  exact ⟨evs, c', h1, h2, settleAll_quiescent s, h3⟩

/-! ### one harness operation -/

theorem somes_length {μ : Type} (l : List (Option μ)) (h : none ∉ l) : (somes l).length = l.length := by
  induction l with
  | nil => rfl
  | cons x xs ih =>
    cases x with
    | none => simp at h
    | some m => simp at h; simp [ih h]

/-- in a quiescent state with a live handle, what the checker counts as waiting is the queue -/
theorem waiting_eq {cap hh fins} {s : St M} {c : CkSt} (hR : Rel cap hh fins s c) (hq : workerStep s = none)
    (hne : s.handles ≠ []) : c.accepted.length - c.entered = s.chan.length := by
  have inv := reachable_inv s hR.reach
  obtain ⟨hidle, -, hpill, hphase⟩ := inv.alive hne
  have hin : inflight s.phase = [] := by
    cases hp : s.phase with
    | got m => simp [workerStep, hidle, hp] at hq
    | _ => rfl
  have := congrArg List.length inv.fifo
  rw [hin] at this
  simp [somes_length _ hpill] at this
  rw [hR.acc, hR.ent]; omega

theorem mem_ne_nil {α} {a : α} {l : List α} (h : a ∈ l) : l ≠ [] := by
  intro h0; simp [h0] at h

/-- a change of the handle set that keeps one alive does not wake the worker -/
theorem workerStep_handles {cap hh} (s s1 : St M) (hr : Reachable cap hh s) (hne : s.handles ≠ [])
    (h1 : s1.stopStage = s.stopStage) (h2 : s1.phase = s.phase) (h3 : s1.chan = s.chan)
    (hq : workerStep s = none) : workerStep s1 = none := by
  have hph := ((reachable_inv s hr).alive hne).2.2.2
  unfold workerStep at hq ⊢
  rw [h1, h2, h3]
  cases hp : s.phase with
  | exited => exact absurd hp hph
  | _ => simpa [hp] using hq

theorem step_drop_fields {s s1 : St M} {h : Nat} {o : Obs} (hs : step s (.drop h) = some (s1, o)) :
    s1.handles = s.handles.erase h ∧ s1.accepted = s.accepted ∧ s1.wrappedLog = s.wrappedLog ∧
    s1.nextHandle = s.nextHandle ∧ s1.phase = s.phase ∧ s1.panics = s.panics ∧
    s1.pendingIncr = s.pendingIncr ∧ s1.trace = s.trace ∧ s1.released = s.released := by
  simp only [step] at hs
  split at hs
  · split at hs <;> (simp at hs; obtain ⟨rfl, -⟩ := hs; exact ⟨rfl, rfl, rfl, rfl, rfl, rfl, rfl, rfl, rfl⟩)
  · simp at hs

theorem step_finish_fields {s s1 : St M} {oc : Outcome} {o : Obs} (hs : step s (.wFinish oc) = some (s1, o)) :
    s1.handles = s.handles ∧ s1.accepted = s.accepted ∧ s1.wrappedLog = s.wrappedLog ∧
    s1.nextHandle = s.nextHandle ∧ s1.phase = .check ∧ s1.panics = s.panics + (if isPanic oc then 1 else 0) ∧
    s1.pendingIncr = s.pendingIncr ∧ s1.trace = s.trace ++ handledPart oc s.hasHandler ∧
    s1.released = s.released := by
  simp only [step] at hs
  split at hs
  · cases oc with
    | ok => simp at hs; obtain ⟨rfl, -⟩ := hs; simp [isPanic, handledPart, errTok]
    | err tok =>
      simp at hs; obtain ⟨rfl, -⟩ := hs
      cases s.hasHandler <;> simp [isPanic, handledPart, errTok]
    | panic => simp at hs; obtain ⟨rfl, -⟩ := hs; simp [isPanic, handledPart, errTok]
  · simp at hs

theorem queuedOf_eq (a b : Nat) : queuedOf a b = a - b := by
  unfold queuedOf; split <;> omega

/-- the wrapped sink returns: the checker's bookkeeping for `.fin` matches the model's `wFinish` -/
theorem finish_rel {cap hh fins} {s s1 : St M} {c : CkSt} {oc : Outcome} {o : Obs}
    (hR : Rel cap hh fins s c) (hs : step s (.wFinish oc) = some (s1, o)) :
    Rel cap hh (fins + 1) s1
      { c with inside := false, finishes := c.finishes + 1, panics := c.panics + (if isPanic oc then 1 else 0) } ∧
    s1.trace = s.trace ++ handledPart oc hh := by
  obtain ⟨f1, f2, f3, f4, f5, f6, f7, f8, f9⟩ := step_finish_fields hs
  have hcfg := reachable_cfg s hR.reach
  refine ⟨⟨Reachable.step hR.reach hs, ?_, ?_, ?_, ?_, ?_, ?_, ?_, ?_, ?_⟩, by rw [f8, hcfg.2]⟩
  · rw [f2]; exact hR.acc
  · rw [f3]; exact hR.ent
  · rw [f1]; exact hR.live
  · rw [f4]; exact hR.next
  · rw [f5]; rfl
  · show c.finishes + 1 = fins + 1
    rw [hR.fin]
  · rw [f6]; show c.panics + _ = _; rw [hR.pan]
  · rw [f7]; exact hR.pend
  · rw [f9]; exact hR.drp

theorem emit_ok_steps (s : St M) (h : Nat) (m : M) (hmem : h ∈ s.handles) (hroom : room s = true) :
    ∃ s1 s2, step s (.emitTry h m) = some (s1, .emitOk) ∧ step s1 .emitCount = some (s2, .none) ∧
      s2.handles = s.handles ∧ s2.accepted = s.accepted ++ [m] ∧ s2.wrappedLog = s.wrappedLog ∧
      s2.nextHandle = s.nextHandle ∧ s2.phase = s.phase ∧ s2.panics = s.panics ∧
      s2.pendingIncr = s.pendingIncr ∧ s2.trace = s.trace ∧ s2.released = s.released := by
  refine ⟨{ s with chan := s.chan ++ [some m], accepted := s.accepted ++ [m], pendingIncr := s.pendingIncr + 1 },
    { s with chan := s.chan ++ [some m], accepted := s.accepted ++ [m], pendingIncr := s.pendingIncr + 1 - 1,
             submitted := s.submitted + 1 }, ?_, ?_, rfl, rfl, rfl, rfl, rfl, rfl, ?_, rfl, rfl⟩
  · rw [emit_result s h m hmem, if_pos hroom]
  · simp [step]
  · show s.pendingIncr + 1 - 1 = s.pendingIncr
    omega

theorem modelOp_sim {cap hh fins} {s : St M} {c : CkSt} (hR : Rel cap hh fins s c) (hq : workerStep s = none)
    (op : HOp) :
    ∃ c', ckOp cap hh c op (modelOp s fins op).2.2 = .ok c' ∧
      Rel cap hh (modelOp s fins op).2.1 (modelOp s fins op).1 c' ∧ workerStep (modelOp s fins op).1 = none := by
  have inv := reachable_inv s hR.reach
  have hcfg := reachable_cfg s hR.reach
  cases op with
  | emit h m len =>
    by_cases hmem : h ∈ s.handles
    · have hmem' : h ∈ c.live := by rw [hR.live]; exact hmem
      have hwait := waiting_eq hR hq (mem_ne_nil hmem)
      cases hroom : room s with
      | true =>
        obtain ⟨s1, s2, hs1, hs2, f1, f2, f3, f4, f5, f6, f7, f8, f9⟩ := emit_ok_steps s h m hmem hroom
        have hR2 : Rel cap hh fins s2 { c with accepted := c.accepted ++ [m] } :=
          ⟨Reachable.step (Reachable.step hR.reach hs1) hs2, by rw [f2]; show c.accepted ++ [m] = _; rw [hR.acc],
            by rw [f3]; exact hR.ent, by rw [f1]; exact hR.live, by rw [f4]; exact hR.next,
            by rw [f5]; exact hR.inside, hR.fin, by rw [f6]; exact hR.pan, by rw [f7]; exact hR.pend,
            by rw [f9]; exact hR.drp⟩
        obtain ⟨evs, c', ht, hR', hq', hck⟩ := settleAll_sim 0 s2 _ hR2
        simp only [modelOp, hs1, hs2]
        rw [ht, f8, newEvents_append]
        refine ⟨c', ?_, hR', hq'⟩
        have hrm : ∀ k, cap = some k → c.accepted.length - c.entered < k := by
          intro k hk; rw [hwait]; exact room_cap s hroom k (by rw [hcfg.1, hk])
        cases cap with
        | none => simp [ckOp, hmem', evMap_ne_flushed, hck]
        | some k => simp [ckOp, hmem', evMap_ne_flushed, hck, hrm k rfl]
      | false =>
        have hs1 : step s (.emitTry h m) = some (s, .emitErr) := by
          rw [emit_result s h m hmem, hroom]; rfl
        simp only [modelOp, hs1]
        refine ⟨c, ?_, hR, hq⟩
        obtain ⟨k, hk, hle⟩ := not_room s hroom
        rw [hcfg.1] at hk
        subst hk
        have hnl : ¬ c.accepted.length - c.entered < k := by rw [hwait]; omega
        simp [ckOp, hmem', ckEvents, hnl]
        rfl
    · have hs : step s (.emitTry h m) = none := by simp [step, hmem]
      have hmem' : h ∉ c.live := by rw [hR.live]; exact hmem
      simp only [modelOp, hs]
      exact ⟨c, by simp [ckOp, hmem']; rfl, hR, hq⟩
  | clone h =>
    by_cases hmem : h ∈ s.handles
    · have hs : step s (.clone h) =
          some ({ s with handles := s.nextHandle :: s.handles, nextHandle := s.nextHandle + 1 }, .none) := by
        simp [step, hmem]
      have hreach := Reachable.step hR.reach hs
      have hmem' : h ∈ c.live := by rw [hR.live]; exact hmem
      simp only [modelOp, hs]
      refine ⟨{ c with live := c.next :: c.live, next := c.next + 1 }, ?_, ?_, ?_⟩
      · simp [ckOp, hmem', ckEvents]; rfl
      · exact ⟨hreach, hR.acc, hR.ent, by simp [hR.live, hR.next], by simp [hR.next], hR.inside, hR.fin, hR.pan, hR.pend, hR.drp⟩
      · exact workerStep_handles s _ hR.reach (mem_ne_nil hmem) rfl rfl rfl hq
    · have hs : step s (.clone h) = none := by simp [step, hmem]
      have hmem' : h ∉ c.live := by rw [hR.live]; exact hmem
      simp only [modelOp, hs]
      exact ⟨c, by simp [ckOp, hmem']; rfl, hR, hq⟩
  | drop h =>
    by_cases hmem : h ∈ s.handles
    · have hmem' : h ∈ c.live := by rw [hR.live]; exact hmem
      obtain ⟨⟨s1, o⟩, hs⟩ := Option.isSome_iff_exists.mp (drop_enabled s h hmem)
      obtain ⟨f1, f2, f3, f4, f5, f6, f7, f8, f9⟩ := step_drop_fields hs
      have hR1 : Rel cap hh fins s1 { c with live := c.live.erase h } :=
        ⟨Reachable.step hR.reach hs, by rw [f2]; exact hR.acc, by rw [f3]; exact hR.ent,
          by rw [f1]; show c.live.erase h = _; rw [hR.live], by rw [f4]; exact hR.next,
          by rw [f5]; exact hR.inside, hR.fin, by rw [f6]; exact hR.pan, by rw [f7]; exact hR.pend,
          by rw [f9]; exact hR.drp⟩
      obtain ⟨evs, c', ht, hR', hq', hck⟩ := settleAll_sim 0 s1 _ hR1
      simp only [modelOp, hs]
      rw [ht, f8, newEvents_append]
      exact ⟨c', by simp [ckOp, hmem', evMap_ne_flushed, hck], hR', hq'⟩
    · have hs : step s (.drop h) = none := by simp [step, hmem]
      have hmem' : h ∉ c.live := by rw [hR.live]; exact hmem
      simp only [modelOp, hs]
      exact ⟨c, by simp [ckOp, hmem']; rfl, hR, hq⟩
  | flush h =>
    by_cases hmem : h ∈ s.handles
    · have hmem' : h ∈ c.live := by rw [hR.live]; exact hmem
      simp only [modelOp, hmem, if_true]
      exact ⟨c, by simp [ckOp, hmem', ckEvents]; rfl, hR, hq⟩
    · have hmem' : h ∉ c.live := by rw [hR.live]; exact hmem
      simp only [modelOp, hmem, if_false]
      exact ⟨c, by simp [ckOp, hmem', ckEvents]; rfl, hR, hq⟩
  | stats h =>
    by_cases hmem : h ∈ s.handles
    · have hmem' : h ∈ c.live := by rw [hR.live]; exact hmem
      have hsub : s.submitted = c.accepted.length := by
        have := inv.subm; rw [hR.pend] at this; rw [hR.acc]; omega
      have hdrn : s.drained = c.entered := by rw [hR.ent, inv.drn]
      simp only [modelOp, hmem, if_true]
      have hle : ¬ c.accepted.length < c.accepted.length - c.entered := by omega
      exact ⟨c, by simp [ckOp, hmem', hsub, hdrn, queuedOf_eq, hR.pan, ckEvents, hle]; rfl, hR, hq⟩
    · have hmem' : h ∉ c.live := by rw [hR.live]; exact hmem
      simp only [modelOp, hmem, if_false]
      exact ⟨c, by simp [ckOp, hmem']; rfl, hR, hq⟩
  | sinkStats h =>
    by_cases hmem : h ∈ s.handles
    · have hmem' : h ∈ c.live := by rw [hR.live]; exact hmem
      simp only [modelOp, hmem, if_true]
      exact ⟨c, by simp [ckOp, hmem', ckEvents]; rfl, hR, hq⟩
    · have hmem' : h ∉ c.live := by rw [hR.live]; exact hmem
      simp only [modelOp, hmem, if_false]
      exact ⟨c, by simp [ckOp, hmem']; rfl, hR, hq⟩
  | fin oc kind =>
    cases hp : s.phase with
    | running m0 =>
      have hen : ∀ o, ∃ s1, step s (.wFinish o) = some (s1, .none) := by
        intro o; cases o <;> simp [step, hp]
      cases oc with
      | ok =>
        obtain ⟨s1, hs⟩ := hen .ok
        obtain ⟨hR1, htr⟩ := finish_rel hR hs
        obtain ⟨evs, c', ht, hR', hq', hck⟩ := settleAll_sim kind s1 _ hR1
        simp only [modelOp, hs]
        rw [ht, htr]
        simp only [handledPart, errTok, List.append_nil]
        rw [newEvents_append]
        exact ⟨c', by simpa [ckOp, evMap_ne_flushed, isPanic] using hck none, hR', hq'⟩
      | panic =>
        obtain ⟨s1, hs⟩ := hen .panic
        obtain ⟨hR1, htr⟩ := finish_rel hR hs
        obtain ⟨evs, c', ht, hR', hq', hck⟩ := settleAll_sim kind s1 _ hR1
        simp only [modelOp, hs]
        rw [ht, htr]
        simp only [handledPart, errTok, List.append_nil]
        rw [newEvents_append]
        exact ⟨c', by simpa [ckOp, evMap_ne_flushed, isPanic] using hck none, hR', hq'⟩
      | err tok =>
        obtain ⟨s1, hs⟩ := hen (.err (fins + 1))
        obtain ⟨hR1, htr⟩ := finish_rel hR hs
        obtain ⟨evs, c', ht, hR', hq', hck⟩ := settleAll_sim kind s1 _ hR1
        simp only [modelOp, hs]
        rw [ht, htr, List.append_assoc, newEvents_append]
        refine ⟨c', ?_, hR', hq'⟩
        cases hh with
        | false =>
          simpa [ckOp, evMap_ne_flushed, isPanic, handledPart, errTok] using hck none
        | true =>
          have hev : List.map (evMap kind) (handledPart (.err (fins + 1)) true ++ evs) =
              HEv.handled kind (toString (fins + 1)) true :: evs.map (evMap kind) := rfl
          rw [hev]
          simpa [ckOp, evMap_ne_flushed, isPanic, ckEvents, hR.fin] using hck _
    | _ =>
      have hs : ∀ o, step s (.wFinish o) = none := by intro o; simp [step, hp]
      simp only [modelOp, hs]
      exact ⟨c, by simp [ckOp, ckEvents]; rfl, hR, hq⟩

/-! ### the whole history -/

theorem go_sim (cap : Option Nat) (hh : Bool) (ops : List HOp) :
    ∀ (s : St M) (fins : Nat) (c : CkSt) (acc : List HObs), Rel cap hh fins s c → workerStep s = none →
      ∃ obsl, modelRun.go s fins ops acc = acc.reverse ++ obsl ∧ ∃ st, ckOps cap hh c ops obsl = .ok st := by
  induction ops with
  | nil =>
    intro s fins c acc _ _
    exact ⟨[], by simp [modelRun.go], c, rfl⟩
  | cons op rest ih =>
    intro s fins c acc hR hq
    obtain ⟨c', hck, hR', hq'⟩ := modelOp_sim hR hq op
    obtain ⟨obsl, hgo, st, hst⟩ := ih _ _ c' ((modelOp s fins op).2.2 :: acc) hR' hq'
    refine ⟨(modelOp s fins op).2.2 :: obsl, ?_, st, ?_⟩
    · simp only [modelRun.go]
      rw [hgo]
      simp
    · simp only [ckOps, hck, bind, Except.bind]
      exact hst

theorem settleAll_init (cap : Option Nat) (hh : Bool) :
    settleAll (init cap hh : St M) = { (init cap hh : St M) with phase := .recving } := by
  rfl

theorem init_rel (cap : Option Nat) (hh : Bool) : Rel cap hh 0 (settleAll (init cap hh)) {} := by
  refine ⟨settle_reachable _ _ Reachable.init, ?_, ?_, ?_, ?_, ?_, ?_, ?_, ?_, ?_⟩ <;>
    (try rw [settleAll_init]) <;> rfl

theorem ckOps_accepts_model (cap : Option Nat) (hh : Bool) (ops : List HOp) :
    ∃ st, ckOps cap hh {} ops (modelRun cap hh ops) = .ok st := by
  obtain ⟨obsl, hgo, st, hst⟩ :=
    go_sim cap hh ops (settleAll (init cap hh)) 0 {} [] (init_rel cap hh) (settleAll_quiescent _)
  refine ⟨st, ?_⟩
  have : modelRun cap hh ops = obsl := by
    unfold modelRun
    rw [hgo]
    rfl
  rw [this]
  exact hst

/-- the step function of `modelFinal`'s fold -/
def runFold (p : St M × Nat) (op : HOp) : St M × Nat :=
  let r := modelOp p.1 p.2 op; (r.1, r.2.1)

/-- `go_sim`, also reporting the final pair: the state `modelRun.go` ends in is the state of the fold
in `modelFinal`, and it is related to the checker state `ckOps` returns, and quiescent -/
theorem go_final (cap : Option Nat) (hh : Bool) (ops : List HOp) :
    ∀ (s : St M) (fins : Nat) (c : CkSt) (acc : List HObs), Rel cap hh fins s c → workerStep s = none →
      ∃ obsl st, modelRun.go s fins ops acc = acc.reverse ++ obsl ∧ ckOps cap hh c ops obsl = .ok st ∧
        Rel cap hh (ops.foldl runFold (s, fins)).2 (ops.foldl runFold (s, fins)).1 st ∧
        workerStep (ops.foldl runFold (s, fins)).1 = none := by
  induction ops with
  | nil =>
    intro s fins c acc hR hq
    exact ⟨[], c, by simp [modelRun.go], rfl, hR, hq⟩
  | cons op rest ih =>
    intro s fins c acc hR hq
    obtain ⟨c', hck, hR', hq'⟩ := modelOp_sim hR hq op
    obtain ⟨obsl, st, hgo, hst, hRf, hqf⟩ := ih _ _ c' ((modelOp s fins op).2.2 :: acc) hR' hq'
    refine ⟨(modelOp s fins op).2.2 :: obsl, st, ?_, ?_, hRf, hqf⟩
    · simp only [modelRun.go]
      rw [hgo]
      simp
    · simp only [ckOps, hck, bind, Except.bind]
      exact hst

/-- liveness in the quiescent schedule: once no handle is left and the worker is not parked inside the
wrapped sink, a quiescent state (of a queue that is not a rendezvous channel) has exited, released the
wrapped sink and handed over every accepted metric -/
theorem closed_quiescent_done {cap hh} {s : St M} (hr : Reachable cap hh s) (hcap : cap ≠ some 0)
    (hq : workerStep s = none) (h0 : s.handles = []) (hnr : ∀ m, s.phase ≠ .running m) :
    s.released = true ∧ s.wrappedLog = s.accepted := by
  have inv := reachable_inv s hr
  have hc : s.cap ≠ some 0 := by rw [(reachable_cfg s hr).1]; exact hcap
  have hdone : s.stopStage = .done := by
    cases hst : s.stopStage with
    | idle => exact absurd hst (inv.stopped h0)
    | flag => simp [workerStep, hst] at hq
    | pill => simp [workerStep, hst] at hq
    | done => rfl
  cases hp : s.phase with
  | check => simp [workerStep, hdone, hp] at hq
  | recving =>
    have hne := inv.noDeadlock hc hdone hp
    simp [workerStep, hdone, hp, hne] at hq
  | got m => simp [workerStep, hdone, hp] at hq
  | running m => exact absurd hp (hnr m)
  | exited =>
    refine ⟨?_, exited_all_delivered s hr hp⟩
    cases hrl : s.released with
    | true => rfl
    | false => simp [workerStep, hdone, hp, h0, hrl] at hq

/-- a history is *closed* in the model when, after it, no handle is left and the worker is not parked
inside the wrapped sink (the harness appends drops and gate openings until this holds) -/
def closedAfter (cap : Option Nat) (hh : Bool) (ops : List HOp) : Prop :=
  let s := (modelFinal cap hh ops)
  s.handles = [] ∧ ∀ m, s.phase ≠ .running m

/-- On closed histories the whole predicate (`ckHistory`: per-operation clauses and the closing clauses
"every accepted metric was handed over" and "the wrapped sink was dropped") accepts the model's
observations, for every capacity other than 0 (a zero-capacity channel is a rendezvous channel and is
outside the liveness claims). -/
theorem ckHistory_accepts_closed_model (cap : Option Nat) (hh : Bool) (ops : List HOp)
    (hcap : cap ≠ some 0) (hclosed : closedAfter cap hh ops) :
    ckHistory cap hh {} ops (modelRun cap hh ops) = .ok () := by
  obtain ⟨obsl, st, hgo, hst, hR, hq⟩ :=
    go_final cap hh ops (settleAll (init cap hh)) 0 {} [] (init_rel cap hh) (settleAll_quiescent _)
  have hrun : modelRun cap hh ops = obsl := by
    unfold modelRun
    rw [hgo]
    rfl
  obtain ⟨h0, hnr⟩ := hclosed
  have hfin : modelFinal cap hh ops = (ops.foldl runFold (settleAll (init cap hh), 0)).1 := rfl
  rw [hfin] at h0 hnr
  obtain ⟨hrel, hall⟩ := closed_quiescent_done hR.reach hcap hq h0 hnr
  have hent : ¬ st.entered < st.accepted.length := by rw [hR.ent, hR.acc, hall]; omega
  have hdrp : st.dropped = true := by rw [hR.drp, hrel]
  simp only [ckHistory, hrun, hst, bind, Except.bind, ckClose, hent, hdrp]
  simp
  rfl

-- non-vacuity: a bounded queue with a handler; two emits (the second waits in the queue while the
-- first is inside the wrapped sink), the first call fails (handler runs, second call begins), a clone,
-- the original dropped, the second call returns, the clone dropped: the worker exits and the wrapped
-- sink is released, so the history is closed
example : closedAfter (some 1) true
    [.emit 0 "aa" 1, .emit 0 "bb" 1, .fin (.err 0) 3, .clone 0, .drop 0, .fin .ok 0, .drop 1] := by
  refine ⟨rfl, ?_⟩
  intro m h
  have : (modelFinal (some 1) true
    [.emit 0 "aa" 1, .emit 0 "bb" 1, .fin (.err 0) 3, .clone 0, .drop 0, .fin .ok 0, .drop 1]).phase = .exited := rfl
  rw [this] at h
  cases h

end Queue
