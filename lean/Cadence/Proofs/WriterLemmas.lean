import Cadence.Model.Writer
namespace Mlw
variable {α : Type}

theorem flushBuf_spec (buf : List α) (orc : List Outcome) :
    (∀ a ∈ (flushBuf buf orc).2.2.1, a.payload = buf ∧ buf ≠ []) ∧
    ((flushBuf buf orc).1 = none → (flushBuf buf orc).2.1 = []) ∧
    (∀ k, (flushBuf buf orc).1 = some k → (flushBuf buf orc).2.1 = buf) := by
  induction orc with
  | nil =>
    unfold flushBuf
    by_cases hb : buf.isEmpty
    · simp [hb]; simpa using hb
    · simp [hb]; simpa using hb
  | cons o os ih =>
    unfold flushBuf
    by_cases hb : buf.isEmpty
    · simp [hb]; simpa using hb
    · have hne : buf ≠ [] := by simpa using hb
      simp only [hb]
      cases o with
      | ok => simp [hne]
      | err k => simp [hne]
      | intr =>
        simp only [Bool.false_eq_true, if_false]
        refine ⟨?_, ih.2.1, ih.2.2⟩
        intro a ha
        simp at ha
        rcases ha with rfl | ha
        · exact ⟨rfl, hne⟩
        · exact ih.1 a ha

theorem direct_spec (p : List α) (orc : List Outcome) :
    (∀ a ∈ (direct p orc).2.1, a.payload = p) ∧
    ((direct p orc).1 = .ok p.length ∨ ∃ k, (direct p orc).1 = .err k) := by
  unfold direct
  split <;> simp

/-- `BufWriter::write` of a part that fits into the spare room never flushes; it buffers the part, or —
only when the buffer is empty and the part is exactly as large as the capacity — passes it on directly. -/
theorem bwWrite_fits (cap : Nat) (buf part : List α) (orc : List Outcome)
    (hfit : buf.length + part.length ≤ cap) :
    ((bwWrite cap buf part orc).1 = .ok part.length ∧ (bwWrite cap buf part orc).2.1 = buf ++ part ∧
      (bwWrite cap buf part orc).2.2.1 = []) ∨
    (buf = [] ∧ part.length = cap ∧ (bwWrite cap buf part orc).2.1 = [] ∧
      (∀ a ∈ (bwWrite cap buf part orc).2.2.1, a.payload = part) ∧
      ((bwWrite cap buf part orc).1 = .ok part.length ∨ ∃ k, (bwWrite cap buf part orc).1 = .err k)) := by
  unfold bwWrite
  by_cases h1 : part.length < cap - buf.length
  · left; simp [h1]
  · have h2 : ¬ part.length > cap - buf.length := by omega
    simp only [h1, h2, if_false]
    by_cases h3 : part.length ≥ cap
    · right
      have hb : buf = [] := List.eq_nil_of_length_eq_zero (by omega)
      subst hb
      have hd := direct_spec part orc
      simp only [h3, if_true]
      refine ⟨trivial, by simp at hfit; omega, trivial, ?_, hd.2⟩
      intro a ha; simp at ha; exact hd.1 a ha
    · left; simp [h3]

end Mlw
