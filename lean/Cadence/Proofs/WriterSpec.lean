import Cadence.Model.WriterObs
import Cadence.Proofs.WriterRefine
/-!
Properties of the abstract "pending lines" specification, for every capacity, terminator, history
and oracle.  They transfer to the concrete writer through `runOps_refines` / `runLife_refines`.
-/
namespace Mlw
variable {α : Type}

/-- shape of the attempts `flush_buf` makes: refused retries, then at most one accepted write, last -/
theorem flushBuf_atts (buf : List α) (orc : List Outcome) :
    ((flushBuf buf orc).1 = none → buf ≠ [] →
      ∃ fs, (flushBuf buf orc).2.2.1 = fs ++ [⟨buf, none⟩] ∧ ∀ a ∈ fs, a.payload = buf ∧ a.err ≠ none) ∧
    (buf = [] → (flushBuf buf orc).2.2.1 = []) ∧
    (∀ k, (flushBuf buf orc).1 = some k →
      (∀ a ∈ (flushBuf buf orc).2.2.1, a.err ≠ none) ∧
      ∃ a, (flushBuf buf orc).2.2.1.getLast? = some a ∧ a.err = some k) := by
  sorry

theorem frame_eq_nil_iff (c : Cfg α) (hne : c.ending ≠ []) (p : List (List α)) :
    frame c p = [] ↔ p = [] := by
  sorry

/-! ### flush -/

theorem specFlush_nil (c : Cfg α) (orc : List Outcome) : specFlush c [] orc = (.ok 0, [], [], orc) := by
  sorry

theorem specFlush_ok (c : Cfg α) (p : List (List α)) (orc : List Outcome) (n : Nat)
    (h : (specFlush c p orc).1 = .ok n) : (specFlush c p orc).2.1 = [] ∧ n = 0 := by
  sorry

theorem specFlush_err (c : Cfg α) (p : List (List α)) (orc : List Outcome) (k : Nat)
    (h : (specFlush c p orc).1 = .err k) :
    (specFlush c p orc).2.1 = p ∧ (∀ a ∈ (specFlush c p orc).2.2.1, a.err ≠ none) ∧
    ∃ a, (specFlush c p orc).2.2.1.getLast? = some a ∧ a.err = some k := by
  sorry

theorem specFlush_no_panic (c : Cfg α) (p : List (List α)) (orc : List Outcome) :
    (specFlush c p orc).1 ≠ .panic := by
  sorry

/-- every attempt of a flush carries exactly the pending lines, which are then non-empty -/
theorem specFlush_atts (c : Cfg α) (p : List (List α)) (orc : List Outcome) :
    ∀ a ∈ (specFlush c p orc).2.2.1, (∃ e, a = .group p e) ∧ frame c p ≠ [] := by
  sorry

/-- a flush that succeeds delivers exactly the pending lines, once -/
theorem specFlush_delivers (c : Cfg α) (hne : c.ending ≠ []) (p : List (List α)) (orc : List Outcome) :
    (specFlush c p orc).2.2.1.flatMap SAtt.lines ++ (specFlush c p orc).2.1 = p := by
  sorry

/-! ### emit -/

theorem specWrite_no_panic (c : Cfg α) (p : List (List α)) (m : List α) (orc : List Outcome) :
    (specWrite c p m orc).1 ≠ .panic := by
  sorry

theorem specWrite_ok_len (c : Cfg α) (p : List (List α)) (m : List α) (orc : List Outcome) (n : Nat)
    (h : (specWrite c p m orc).1 = .ok n) : n = m.length := by
  sorry

/-- an oversize metric is written exactly once, alone and unmodified, during its own emit -/
theorem specWrite_bypass (c : Cfg α) (p : List (List α)) (m : List α) (orc : List Outcome)
    (h : m.length + c.ending.length > c.cap) :
    ∃ e, (specWrite c p m orc).2.2.1 = [.bypass m e] ∧ (specWrite c p m orc).2.1 = p ∧
      (specWrite c p m orc).1 = (match e with | none => .ok m.length | some k => .err k) := by
  sorry

/-- an error result is the error of the last write attempted during that very call -/
theorem specWrite_err_attempt (c : Cfg α) (p : List (List α)) (m : List α) (orc : List Outcome) (k : Nat)
    (h : (specWrite c p m orc).1 = .err k) :
    ∃ a, (specWrite c p m orc).2.2.1.getLast? = some a ∧ a.err = some k := by
  sorry

/-- a metric whose emit failed is not kept: the pending lines are the old ones, or none -/
theorem specWrite_err_pending (c : Cfg α) (p : List (List α)) (m : List α) (orc : List Outcome) (k : Nat)
    (h : (specWrite c p m orc).1 = .err k) :
    (specWrite c p m orc).2.1 = p ∨ (specWrite c p m orc).2.1 = [] := by
  sorry

/-- shape of every attempt made during an emit, and the pending lines keep fitting the capacity -/
theorem specWrite_atts (c : Cfg α) (p : List (List α)) (m : List α) (orc : List Outcome)
    (hp : (frame c p).length ≤ c.cap) :
    (frame c (specWrite c p m orc).2.1).length ≤ c.cap ∧
    ∀ a ∈ (specWrite c p m orc).2.2.1,
      (∃ e, a = .group p e ∧ frame c p ≠ []) ∨
      (∃ e, a = .group [m] e ∧ (frame c [m]).length = c.cap) ∨
      (∃ e, a = .bypass m e ∧ m.length + c.ending.length > c.cap) := by
  sorry

/-- C19: a write happens during an emit only when the line is oversize, does not fit next to what
is pending, or exactly fills the empty buffer -/
theorem specWrite_needed (c : Cfg α) (p : List (List α)) (m : List α) (orc : List Outcome)
    (h : (specWrite c p m orc).2.2.1 ≠ []) :
    m.length + c.ending.length > c.cap ∨
    (frame c p).length + (m.length + c.ending.length) > c.cap ∨
    isCorner c p m = true := by
  sorry

/-- conservation for one emit: what the socket accepted plus what is pending afterwards is what was
pending before plus the line if (and only if) it was acknowledged and fits -/
theorem specWrite_conserves (c : Cfg α) (hne : c.ending ≠ []) (p : List (List α)) (m : List α)
    (orc : List Outcome) :
    (specWrite c p m orc).2.2.1.flatMap SAtt.lines ++ (specWrite c p m orc).2.1 =
      p ++ (match (specWrite c p m orc).1 with
            | .ok _ => if m.length + c.ending.length ≤ c.cap then [m] else []
            | _ => []) := by
  sorry

/-! ### histories -/

/-- C06/C07 conservation over any history and any pattern of write failures: the lines accepted by
the socket, in order, followed by the lines still pending, are exactly the lines that were pending
at the start followed by the acknowledged fitting lines, in emit order — nothing lost, duplicated
or reordered. -/
theorem specOps_conservation (c : Cfg α) (hne : c.ending ≠ []) (ops : List (Op α))
    (p : List (List α)) (orc : List Outcome) :
    deliveredLines (specOps c p ops orc).1 ++ (specOps c p ops orc).2.1 =
      p ++ acceptedBuffered c ops (specOps c p ops orc).1 := by
  sorry

/-- the drop writes the remaining lines, once, if its write is accepted -/
theorem specDrop_delivers (c : Cfg α) (hne : c.ending ≠ []) (p : List (List α)) (orc : List Outcome)
    (h : ∀ a ∈ (specDrop c p orc).1, a.err = none) :
    (specDrop c p orc).1.flatMap SAtt.lines = p := by
  sorry

theorem specDrop_atts (c : Cfg α) (p : List (List α)) (orc : List Outcome) :
    ∀ a ∈ (specDrop c p orc).1, (∃ e, a = .group p e) ∧ frame c p ≠ [] := by
  sorry

/-- pending lines always fit the capacity; no operation of any history panics -/
theorem specOps_inv (c : Cfg α) (ops : List (Op α)) (p : List (List α)) (orc : List Outcome)
    (hp : (frame c p).length ≤ c.cap) :
    (frame c (specOps c p ops orc).2.1).length ≤ c.cap ∧
    ∀ o ∈ (specOps c p ops orc).1, o.res ≠ .panic := by
  sorry

end Mlw
