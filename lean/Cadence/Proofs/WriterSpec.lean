import Cadence.Model.WriterObs
import Cadence.Proofs.WriterRefine
/-!
Properties of the abstract "pending lines" specification, for every capacity, terminator, history
and oracle.  They transfer to the concrete writer through `runOps_refines` / `runLife_refines`.
-/
namespace Mlw
variable {α : Type}

/-- shape of the attempts `flush_buf` makes: refused retries, then at most one accepted write, last -/
theorem flushBuf_atts (buf : List α) (orc : List Outcome) :
    ((flushBuf buf orc).1 = none → buf ≠ [] →
      ∃ fs, (flushBuf buf orc).2.2.1 = fs ++ [⟨buf, none⟩] ∧ ∀ a ∈ fs, a.payload = buf ∧ a.err ≠ none) ∧
    (buf = [] → (flushBuf buf orc).2.2.1 = []) ∧
    (∀ k, (flushBuf buf orc).1 = some k →
      (∀ a ∈ (flushBuf buf orc).2.2.1, a.err ≠ none) ∧
      ∃ a, (flushBuf buf orc).2.2.1.getLast? = some a ∧ a.err = some k) := by
  induction orc with
  | nil =>
    unfold flushBuf
    by_cases hb : buf.isEmpty
    · have hb' : buf = [] := by simpa using hb
      simp [hb']
    · have hne : buf ≠ [] := by simpa using hb
      simp only [hb]
      refine ⟨fun _ _ => ⟨[], by simp, by simp⟩, fun h => absurd h hne, by simp⟩
  | cons o os ih =>
    unfold flushBuf
    by_cases hb : buf.isEmpty
    · have hb' : buf = [] := by simpa using hb
      simp [hb']
    · have hne : buf ≠ [] := by simpa using hb
      simp only [hb]
      cases o with
      | ok => exact ⟨fun _ _ => ⟨[], by simp, by simp⟩, fun h => absurd h hne, by simp⟩
      | err k => exact ⟨by simp, fun h => absurd h hne, by simp⟩
      | intr =>
        simp only [Bool.false_eq_true, if_false]
        obtain ⟨ih1, ih2, ih3⟩ := ih
        refine ⟨?_, fun h => absurd h hne, ?_⟩
        · intro h _
          obtain ⟨fs, e, hfs⟩ := ih1 h hne
          refine ⟨⟨buf, some intrKind⟩ :: fs, by rw [e]; rfl, ?_⟩
          intro a ha
          simp only [List.mem_cons] at ha
          rcases ha with rfl | ha
          · exact ⟨rfl, by simp⟩
          · exact hfs a ha
        · intro k hk
          obtain ⟨hall, a, hl, ha⟩ := ih3 k hk
          refine ⟨?_, a, ?_, ha⟩
          · intro b hb
            simp only [List.mem_cons] at hb
            rcases hb with rfl | hb
            · simp
            · exact hall b hb
          · rw [List.getLast?_cons, hl]; rfl

theorem frame_eq_nil_iff (c : Cfg α) (hne : c.ending ≠ []) (p : List (List α)) :
    frame c p = [] ↔ p = [] := by
  constructor
  · intro h
    cases p with
    | nil => rfl
    | cons m ms =>
      exfalso
      simp [frame, hne] at h
  · intro h; rw [h]; rfl


/-! ### helpers -/

theorem specFlush_none (c : Cfg α) (p : List (List α)) (orc : List Outcome)
    (h : (flushBuf (frame c p) orc).1 = none) :
    specFlush c p orc = (.ok 0, [], (flushBuf (frame c p) orc).2.2.1.map (fun a => .group p a.err),
      (flushBuf (frame c p) orc).2.2.2) := by
  simp only [specFlush, h]

theorem specFlush_some (c : Cfg α) (p : List (List α)) (orc : List Outcome) (k : Nat)
    (h : (flushBuf (frame c p) orc).1 = some k) :
    specFlush c p orc = (.err k, p, (flushBuf (frame c p) orc).2.2.1.map (fun a => .group p a.err),
      (flushBuf (frame c p) orc).2.2.2) := by
  simp only [specFlush, h]

theorem lines_group_err (p : List (List α)) (l : List (Attempt α)) (h : ∀ a ∈ l, a.err ≠ none) :
    (l.map (fun a => SAtt.group p a.err)).flatMap SAtt.lines = [] := by
  induction l with
  | nil => rfl
  | cons a l ih =>
    have ha := h a (by simp)
    have ih' := ih (fun b hb => h b (by simp [hb]))
    cases a with
    | mk pl e =>
      cases e with
      | none => exact absurd rfl ha
      | some k => simp only [List.map_cons, List.flatMap_cons, SAtt.lines, ih', List.append_nil]

theorem lines_bypass (m : List α) (l : List (Attempt α)) :
    (l.map (fun a => SAtt.bypass m a.err)).flatMap SAtt.lines = [] := by
  induction l with
  | nil => rfl
  | cons a l ih => simp only [List.map_cons, List.flatMap_cons, SAtt.lines, ih, List.append_nil]

theorem getLast_group_err (p : List (List α)) (l : List (Attempt α)) (k : Nat)
    (h : ∃ a, l.getLast? = some a ∧ a.err = some k) :
    ∃ a, (l.map (fun a => SAtt.group p a.err)).getLast? = some a ∧ a.err = some k := by
  obtain ⟨a, hl, ha⟩ := h
  exact ⟨.group p a.err, by rw [List.getLast?_map, hl]; rfl, ha⟩

/-! ### flush -/

theorem specFlush_nil (c : Cfg α) (orc : List Outcome) : specFlush c [] orc = (.ok 0, [], [], orc) := by
  simp [specFlush, flushBuf_nil]

theorem specFlush_ok (c : Cfg α) (p : List (List α)) (orc : List Outcome) (n : Nat)
    (h : (specFlush c p orc).1 = .ok n) : (specFlush c p orc).2.1 = [] ∧ n = 0 := by
  cases hr : (flushBuf (frame c p) orc).1 with
  | none =>
    rw [specFlush_none c p orc hr] at h ⊢
    simp only [Res.ok.injEq] at h
    exact ⟨rfl, h.symm⟩
  | some k =>
    rw [specFlush_some c p orc k hr] at h
    simp at h

theorem specFlush_err (c : Cfg α) (p : List (List α)) (orc : List Outcome) (k : Nat)
    (h : (specFlush c p orc).1 = .err k) :
    (specFlush c p orc).2.1 = p ∧ (∀ a ∈ (specFlush c p orc).2.2.1, a.err ≠ none) ∧
    ∃ a, (specFlush c p orc).2.2.1.getLast? = some a ∧ a.err = some k := by
  cases hr : (flushBuf (frame c p) orc).1 with
  | none =>
    rw [specFlush_none c p orc hr] at h
    simp at h
  | some k' =>
    rw [specFlush_some c p orc k' hr] at h ⊢
    simp only [Res.err.injEq] at h
    subst h
    obtain ⟨hall, hlast⟩ := (flushBuf_atts (frame c p) orc).2.2 k' hr
    refine ⟨rfl, ?_, getLast_group_err p _ k' hlast⟩
    intro a ha
    simp only [List.mem_map] at ha
    obtain ⟨b, hb, rfl⟩ := ha
    exact hall b hb

theorem specFlush_no_panic (c : Cfg α) (p : List (List α)) (orc : List Outcome) :
    (specFlush c p orc).1 ≠ .panic := by
  cases hr : (flushBuf (frame c p) orc).1 with
  | none => rw [specFlush_none c p orc hr]; simp
  | some k => rw [specFlush_some c p orc k hr]; simp

/-- the attempts of a flush, whatever its result -/
theorem specFlush_atts_eq (c : Cfg α) (p : List (List α)) (orc : List Outcome) :
    (specFlush c p orc).2.2.1 = (flushBuf (frame c p) orc).2.2.1.map (fun a => .group p a.err) := by
  cases hr : (flushBuf (frame c p) orc).1 with
  | none => rw [specFlush_none c p orc hr]
  | some k => rw [specFlush_some c p orc k hr]

/-- every attempt of a flush carries exactly the pending lines, which are then non-empty -/
theorem specFlush_atts (c : Cfg α) (p : List (List α)) (orc : List Outcome) :
    ∀ a ∈ (specFlush c p orc).2.2.1, (∃ e, a = .group p e) ∧ frame c p ≠ [] := by
  intro a ha
  rw [specFlush_atts_eq] at ha
  simp only [List.mem_map] at ha
  obtain ⟨b, hb, rfl⟩ := ha
  exact ⟨⟨b.err, rfl⟩, ((flushBuf_spec (frame c p) orc).1 b hb).2⟩

/-- a flush that succeeds delivers exactly the pending lines, once -/
theorem specFlush_delivers (c : Cfg α) (hne : c.ending ≠ []) (p : List (List α)) (orc : List Outcome) :
    (specFlush c p orc).2.2.1.flatMap SAtt.lines ++ (specFlush c p orc).2.1 = p := by
  cases hr : (flushBuf (frame c p) orc).1 with
  | none =>
    rw [specFlush_none c p orc hr]
    simp only [List.append_nil]
    by_cases hp : frame c p = []
    · have hp' : p = [] := (frame_eq_nil_iff c hne p).mp hp
      rw [(flushBuf_atts (frame c p) orc).2.1 hp, hp']; rfl
    · obtain ⟨fs, e, hfs⟩ := (flushBuf_atts (frame c p) orc).1 hr hp
      rw [e, List.map_append, List.flatMap_append, lines_group_err p fs (fun a ha => (hfs a ha).2)]
      simp [SAtt.lines]
  | some k =>
    rw [specFlush_some c p orc k hr]
    simp only []
    rw [lines_group_err p _ ((flushBuf_atts (frame c p) orc).2.2 k hr).1]; rfl


/-! ### emit -/

/-- the optional flush at the start of an emit whose line fits the capacity -/
def pre (c : Cfg α) (p : List (List α)) (m : List α) (orc : List Outcome) :
    (Res × List (List α) × List (SAtt α) × List Outcome) :=
  if (frame c p).length + (m.length + c.ending.length) > c.cap then specFlush c p orc
  else (.ok 0, p, [], orc)

/-- the pass-through writes of the exact-fill corner, after the optional flush -/
def cor (c : Cfg α) (p : List (List α)) (m : List α) (orc : List Outcome) :
    (Option Nat × List (Attempt α) × List Outcome) :=
  directs (cornerWrites c m) (pre c p m orc).2.2.2

theorem pre_flush (c : Cfg α) (p : List (List α)) (m : List α) (orc : List Outcome)
    (h : (frame c p).length + (m.length + c.ending.length) > c.cap) :
    pre c p m orc = specFlush c p orc := by
  simp only [pre, h, if_true]

theorem pre_skip (c : Cfg α) (p : List (List α)) (m : List α) (orc : List Outcome)
    (h : ¬ (frame c p).length + (m.length + c.ending.length) > c.cap) :
    pre c p m orc = (.ok 0, p, [], orc) := by
  simp only [pre, h, if_false]

theorem pre_no_panic (c : Cfg α) (p : List (List α)) (m : List α) (orc : List Outcome) :
    (pre c p m orc).1 ≠ .panic := by
  by_cases h : (frame c p).length + (m.length + c.ending.length) > c.cap
  · rw [pre_flush c p m orc h]; exact specFlush_no_panic c p orc
  · rw [pre_skip c p m orc h]; simp

theorem pre_err (c : Cfg α) (p : List (List α)) (m : List α) (orc : List Outcome) (k : Nat)
    (h : (pre c p m orc).1 = .err k) :
    (frame c p).length + (m.length + c.ending.length) > c.cap ∧ (pre c p m orc).2.1 = p ∧
    (∀ a ∈ (pre c p m orc).2.2.1, a.err ≠ none) ∧
    ∃ a, (pre c p m orc).2.2.1.getLast? = some a ∧ a.err = some k := by
  by_cases hc : (frame c p).length + (m.length + c.ending.length) > c.cap
  · rw [pre_flush c p m orc hc] at h ⊢
    exact ⟨hc, specFlush_err c p orc k h⟩
  · rw [pre_skip c p m orc hc] at h
    simp at h

theorem pre_ok (c : Cfg α) (p : List (List α)) (m : List α) (orc : List Outcome) (n : Nat)
    (h : (pre c p m orc).1 = .ok n) : (pre c p m orc).2.1 = p ∨ (pre c p m orc).2.1 = [] := by
  by_cases hc : (frame c p).length + (m.length + c.ending.length) > c.cap
  · rw [pre_flush c p m orc hc] at h ⊢
    exact Or.inr (specFlush_ok c p orc n h).1
  · rw [pre_skip c p m orc hc]
    exact Or.inl rfl

theorem pre_atts (c : Cfg α) (p : List (List α)) (m : List α) (orc : List Outcome) :
    ∀ a ∈ (pre c p m orc).2.2.1, (∃ e, a = .group p e) ∧ frame c p ≠ [] := by
  by_cases hc : (frame c p).length + (m.length + c.ending.length) > c.cap
  · rw [pre_flush c p m orc hc]; exact specFlush_atts c p orc
  · rw [pre_skip c p m orc hc]; simp

theorem pre_delivers (c : Cfg α) (hne : c.ending ≠ []) (p : List (List α)) (m : List α)
    (orc : List Outcome) :
    (pre c p m orc).2.2.1.flatMap SAtt.lines ++ (pre c p m orc).2.1 = p := by
  by_cases hc : (frame c p).length + (m.length + c.ending.length) > c.cap
  · rw [pre_flush c p m orc hc]; exact specFlush_delivers c hne p orc
  · rw [pre_skip c p m orc hc]; rfl

/-- the five ways an emit can go -/
theorem specWrite_cases (c : Cfg α) (p : List (List α)) (m : List α) (orc : List Outcome) :
    (m.length + c.ending.length > c.cap ∧
      specWrite c p m orc =
        ((direct m orc).1, p, (direct m orc).2.1.map (fun a => .bypass m a.err), (direct m orc).2.2)) ∨
    (¬ m.length + c.ending.length > c.cap ∧
      ((∃ k, (pre c p m orc).1 = .err k ∧
          specWrite c p m orc =
            (.err k, (pre c p m orc).2.1, (pre c p m orc).2.2.1, (pre c p m orc).2.2.2)) ∨
       (∃ n, (pre c p m orc).1 = .ok n ∧ isCorner c (pre c p m orc).2.1 m = true ∧
          (cor c p m orc).1 = none ∧
          specWrite c p m orc =
            (.ok m.length, (pre c p m orc).2.1,
              (pre c p m orc).2.2.1 ++ (cor c p m orc).2.1.map (fun a => .group [m] a.err),
              (cor c p m orc).2.2)) ∨
       (∃ n k, (pre c p m orc).1 = .ok n ∧ isCorner c (pre c p m orc).2.1 m = true ∧
          (cor c p m orc).1 = some k ∧
          specWrite c p m orc =
            (.err k, (pre c p m orc).2.1,
              (pre c p m orc).2.2.1 ++ (cor c p m orc).2.1.map (fun a => .group [m] a.err),
              (cor c p m orc).2.2)) ∨
       (∃ n, (pre c p m orc).1 = .ok n ∧ isCorner c (pre c p m orc).2.1 m = false ∧
          specWrite c p m orc =
            (.ok m.length, (pre c p m orc).2.1 ++ [m], (pre c p m orc).2.2.1,
              (pre c p m orc).2.2.2)))) := by
  by_cases hbig : m.length + c.ending.length > c.cap
  · left
    exact ⟨hbig, by simp only [specWrite, hbig, if_true]⟩
  · right
    refine ⟨hbig, ?_⟩
    have hnp := pre_no_panic c p m orc
    simp only [cor, pre, specWrite, hbig, if_false] at hnp ⊢
    generalize (if (frame c p).length + (m.length + c.ending.length) > c.cap then specFlush c p orc
      else (Res.ok 0, p, [], orc)) = f at hnp ⊢
    obtain ⟨fr, fp, fa, fo⟩ := f
    simp only [] at hnp ⊢
    cases fr with
    | err k => left; exact ⟨k, rfl, rfl⟩
    | panic => exact absurd rfl hnp
    | ok n =>
      right
      simp only []
      by_cases hc : isCorner c fp m = true
      · simp only [hc, if_true]
        cases hd : (directs (cornerWrites c m) fo).1 with
        | none => left; exact ⟨n, rfl, trivial, rfl, rfl⟩
        | some k => right; left; exact ⟨n, k, rfl, trivial, rfl, rfl⟩
      · have hc' : isCorner c fp m = false := by simpa using hc
        simp only [hc', Bool.false_eq_true, if_false]
        right; right; exact ⟨n, rfl, trivial, trivial⟩


theorem direct_cases (q : List α) (orc : List Outcome) :
    (∃ os, direct q orc = (.ok q.length, [⟨q, none⟩], os)) ∨
    (∃ k os, direct q orc = (.err k, [⟨q, some k⟩], os)) := by
  unfold direct
  split <;> simp

/-- consecutive direct writes that fail, fail with the error of their last attempt -/
theorem directs_some (l : List (List α)) (orc : List Outcome) (k : Nat)
    (h : (directs l orc).1 = some k) :
    ∃ a, (directs l orc).2.1.getLast? = some a ∧ a.err = some k := by
  induction l generalizing orc with
  | nil => rw [directs_nil] at h; simp at h
  | cons q qs ih =>
    rcases direct_cases q orc with ⟨os, e⟩ | ⟨k', os, e⟩
    · have r1 : (direct q orc).1 = .ok q.length := by rw [e]
      rw [directs_cons_ok q qs orc _ r1] at h ⊢
      obtain ⟨a, hl, ha⟩ := ih _ h
      exact ⟨a, by simp only [List.getLast?_append, hl]; rfl, ha⟩
    · have r1 : (direct q orc).1 = .err k' := by rw [e]
      rw [directs_cons_err q qs orc _ r1] at h ⊢
      simp only [Option.some.injEq] at h
      subst h
      rw [e]
      exact ⟨⟨q, some k'⟩, rfl, rfl⟩

theorem isCorner_iff (c : Cfg α) (p0 : List (List α)) (m : List α) :
    isCorner c p0 m = true ↔
      frame c p0 = [] ∧ m.length + c.ending.length = c.cap ∧
        (m.length = c.cap ∨ c.ending.length = c.cap) := by
  simp only [isCorner, Bool.and_eq_true, Bool.or_eq_true, beq_iff_eq, List.isEmpty_iff, and_assoc]

theorem specWrite_no_panic (c : Cfg α) (p : List (List α)) (m : List α) (orc : List Outcome) :
    (specWrite c p m orc).1 ≠ .panic := by
  rcases specWrite_cases c p m orc with ⟨_, e⟩ | ⟨_, ⟨k, _, e⟩ | ⟨n, _, _, _, e⟩ | ⟨n, k, _, _, _, e⟩ | ⟨n, _, _, e⟩⟩
  · rw [e]
    rcases (direct_spec m orc).2 with h | ⟨k, h⟩ <;> simp [h]
  all_goals rw [e]; simp

theorem specWrite_ok_len (c : Cfg α) (p : List (List α)) (m : List α) (orc : List Outcome) (n : Nat)
    (h : (specWrite c p m orc).1 = .ok n) : n = m.length := by
  rcases specWrite_cases c p m orc with ⟨_, e⟩ | ⟨_, ⟨k, _, e⟩ | ⟨n', _, _, _, e⟩ | ⟨n', k, _, _, _, e⟩ | ⟨n', _, _, e⟩⟩
  · rw [e] at h
    rcases (direct_spec m orc).2 with h' | ⟨k, h'⟩
    · simp only [h', Res.ok.injEq] at h; exact h.symm
    · simp [h'] at h
  all_goals rw [e] at h; simp at h
  all_goals exact h.symm

/-- an oversize metric is written exactly once, alone and unmodified, during its own emit -/
theorem specWrite_bypass (c : Cfg α) (p : List (List α)) (m : List α) (orc : List Outcome)
    (h : m.length + c.ending.length > c.cap) :
    ∃ e, (specWrite c p m orc).2.2.1 = [.bypass m e] ∧ (specWrite c p m orc).2.1 = p ∧
      (specWrite c p m orc).1 = (match e with | none => .ok m.length | some k => .err k) := by
  rcases specWrite_cases c p m orc with ⟨_, e⟩ | ⟨hn, _⟩
  · rw [e]
    rcases direct_cases m orc with ⟨os, d⟩ | ⟨k, os, d⟩
    · rw [d]; exact ⟨none, rfl, rfl, rfl⟩
    · rw [d]; exact ⟨some k, rfl, rfl, rfl⟩
  · exact absurd h hn

/-- an error result is the error of the last write attempted during that very call -/
theorem specWrite_err_attempt (c : Cfg α) (p : List (List α)) (m : List α) (orc : List Outcome) (k : Nat)
    (h : (specWrite c p m orc).1 = .err k) :
    ∃ a, (specWrite c p m orc).2.2.1.getLast? = some a ∧ a.err = some k := by
  rcases specWrite_cases c p m orc with ⟨_, e⟩ | ⟨_, ⟨k', hf, e⟩ | ⟨n', _, _, _, e⟩ | ⟨n', k', _, _, hd, e⟩ | ⟨n', _, _, e⟩⟩
  · rw [e] at h ⊢
    rcases direct_cases m orc with ⟨os, d⟩ | ⟨k', os, d⟩
    · rw [d] at h; simp at h
    · rw [d] at h ⊢
      simp only [Res.err.injEq] at h
      subst h
      exact ⟨.bypass m (some k'), rfl, rfl⟩
  · rw [e] at h ⊢
    simp only [Res.err.injEq] at h
    subst h
    exact (pre_err c p m orc k' hf).2.2.2
  · rw [e] at h; simp at h
  · rw [e] at h ⊢
    simp only [Res.err.injEq] at h
    subst h
    obtain ⟨a, hl, ha⟩ := directs_some _ _ k' hd
    refine ⟨.group [m] a.err, ?_, ha⟩
    simp only [List.getLast?_append, List.getLast?_map]
    unfold cor
    rw [hl]; rfl
  · rw [e] at h; simp at h

/-- a metric whose emit failed is not kept: the pending lines are the old ones, or none -/
theorem specWrite_err_pending (c : Cfg α) (p : List (List α)) (m : List α) (orc : List Outcome) (k : Nat)
    (h : (specWrite c p m orc).1 = .err k) :
    (specWrite c p m orc).2.1 = p ∨ (specWrite c p m orc).2.1 = [] := by
  rcases specWrite_cases c p m orc with ⟨_, e⟩ | ⟨_, ⟨k', hf, e⟩ | ⟨n', _, _, _, e⟩ | ⟨n', k', hf, _, _, e⟩ | ⟨n', _, _, e⟩⟩
  · rw [e]; exact Or.inl rfl
  · rw [e]; exact Or.inl (pre_err c p m orc k' hf).2.1
  · rw [e] at h; simp at h
  · rw [e]; exact pre_ok c p m orc n' hf
  · rw [e] at h; simp at h

/-- shape of every attempt made during an emit, and the pending lines keep fitting the capacity -/
theorem specWrite_atts (c : Cfg α) (p : List (List α)) (m : List α) (orc : List Outcome)
    (hp : (frame c p).length ≤ c.cap) :
    (frame c (specWrite c p m orc).2.1).length ≤ c.cap ∧
    ∀ a ∈ (specWrite c p m orc).2.2.1,
      (∃ e, a = .group p e ∧ frame c p ≠ []) ∨
      (∃ e, a = .group [m] e ∧ (frame c [m]).length = c.cap) ∨
      (∃ e, a = .bypass m e ∧ m.length + c.ending.length > c.cap) := by
  have hpre : ∀ a ∈ (pre c p m orc).2.2.1,
      (∃ e, a = .group p e ∧ frame c p ≠ []) ∨
      (∃ e, a = .group [m] e ∧ (frame c [m]).length = c.cap) ∨
      (∃ e, a = .bypass m e ∧ m.length + c.ending.length > c.cap) := by
    intro a ha
    obtain ⟨⟨e, he⟩, hf⟩ := pre_atts c p m orc a ha
    exact Or.inl ⟨e, he, hf⟩
  have hcorner : ∀ n, (pre c p m orc).1 = .ok n → isCorner c (pre c p m orc).2.1 m = true →
      (frame c (pre c p m orc).2.1).length ≤ c.cap ∧
      ∀ a ∈ (pre c p m orc).2.2.1 ++ (cor c p m orc).2.1.map (fun a => SAtt.group [m] a.err),
        (∃ e, a = .group p e ∧ frame c p ≠ []) ∨
        (∃ e, a = .group [m] e ∧ (frame c [m]).length = c.cap) ∨
        (∃ e, a = .bypass m e ∧ m.length + c.ending.length > c.cap) := by
    intro n hf hc
    obtain ⟨h0, hlen, _⟩ := (isCorner_iff c _ m).mp hc
    refine ⟨by rw [h0]; exact Nat.zero_le _, ?_⟩
    intro a ha
    simp only [List.mem_append, List.mem_map] at ha
    rcases ha with ha | ⟨b, _, rfl⟩
    · exact hpre a ha
    · exact Or.inr (Or.inl ⟨b.err, rfl, by rw [frame_single, List.length_append]; exact hlen⟩)
  rcases specWrite_cases c p m orc with ⟨hbig, e⟩ | ⟨hfit, ⟨k', hf, e⟩ | ⟨n', hf, hc, _, e⟩ | ⟨n', k', hf, hc, _, e⟩ | ⟨n', hf, _, e⟩⟩
  · rw [e]
    refine ⟨hp, ?_⟩
    intro a ha
    simp only [List.mem_map] at ha
    obtain ⟨b, _, rfl⟩ := ha
    exact Or.inr (Or.inr ⟨b.err, rfl, hbig⟩)
  · rw [e]
    exact ⟨by rw [(pre_err c p m orc k' hf).2.1]; exact hp, hpre⟩
  · rw [e]; exact hcorner n' hf hc
  · rw [e]; exact hcorner n' hf hc
  · rw [e]
    refine ⟨?_, hpre⟩
    simp only [frame_append, frame_single, List.length_append]
    by_cases hcnd : (frame c p).length + (m.length + c.ending.length) > c.cap
    · rw [pre_flush c p m orc hcnd] at hf ⊢
      rw [(specFlush_ok c p orc n' hf).1]
      simp only [frame_nil, List.length_nil]
      omega
    · rw [pre_skip c p m orc hcnd]
      simp only []
      omega

/-- C19: a write happens during an emit only when the line is oversize, does not fit next to what
is pending, or exactly fills the empty buffer -/
theorem specWrite_needed (c : Cfg α) (p : List (List α)) (m : List α) (orc : List Outcome)
    (h : (specWrite c p m orc).2.2.1 ≠ []) :
    m.length + c.ending.length > c.cap ∨
    (frame c p).length + (m.length + c.ending.length) > c.cap ∨
    isCorner c p m = true := by
  by_cases hcnd : (frame c p).length + (m.length + c.ending.length) > c.cap
  · exact Or.inr (Or.inl hcnd)
  · have hs := pre_skip c p m orc hcnd
    rcases specWrite_cases c p m orc with ⟨hbig, e⟩ | ⟨hfit, ⟨k', hf, e⟩ | ⟨n', hf, hc, _, e⟩ | ⟨n', k', hf, hc, _, e⟩ | ⟨n', hf, _, e⟩⟩
    · exact Or.inl hbig
    · rw [hs] at hf; simp at hf
    · rw [hs] at hc; exact Or.inr (Or.inr hc)
    · rw [hs] at hc; exact Or.inr (Or.inr hc)
    · rw [e, hs] at h; exact absurd rfl h

/-- with a non-empty terminator the exact-fill corner passes exactly the terminator of an empty
metric through: one write, carrying the line `[m]` -/
theorem corner_lines (c : Cfg α) (hne : c.ending ≠ []) (p0 : List (List α)) (m : List α)
    (orc : List Outcome) (hc : isCorner c p0 m = true) :
    p0 = [] ∧
    ((directs (cornerWrites c m) orc).1 = none →
      ((directs (cornerWrites c m) orc).2.1.map (fun a => SAtt.group [m] a.err)).flatMap SAtt.lines = [m]) ∧
    (∀ k, (directs (cornerWrites c m) orc).1 = some k →
      ((directs (cornerWrites c m) orc).2.1.map (fun a => SAtt.group [m] a.err)).flatMap SAtt.lines = []) := by
  obtain ⟨h0, hlen, hor⟩ := (isCorner_iff c p0 m).mp hc
  have hel : c.ending.length ≠ 0 := fun h => hne (List.eq_nil_of_length_eq_zero h)
  have hm : ¬ m.length ≥ c.cap := by omega
  have he : c.ending.length ≥ c.cap := by omega
  have hcw : cornerWrites c m = [c.ending] := by simp only [cornerWrites, hm, he, if_true, if_false, List.nil_append]
  refine ⟨(frame_eq_nil_iff c hne p0).mp h0, ?_⟩
  rw [hcw]
  rcases direct_cases c.ending orc with ⟨os, d⟩ | ⟨k', os, d⟩
  · have r1 : (direct c.ending orc).1 = .ok c.ending.length := by rw [d]
    rw [directs_cons_ok _ _ _ _ r1, directs_nil, d]
    simp [SAtt.lines]
  · have r1 : (direct c.ending orc).1 = .err k' := by rw [d]
    rw [directs_cons_err _ _ _ _ r1, d]
    simp [SAtt.lines]

/-- conservation for one emit: what the socket accepted plus what is pending afterwards is what was
pending before plus the line if (and only if) it was acknowledged and fits -/
theorem specWrite_conserves (c : Cfg α) (hne : c.ending ≠ []) (p : List (List α)) (m : List α)
    (orc : List Outcome) :
    (specWrite c p m orc).2.2.1.flatMap SAtt.lines ++ (specWrite c p m orc).2.1 =
      p ++ (match (specWrite c p m orc).1 with
            | .ok _ => if m.length + c.ending.length ≤ c.cap then [m] else []
            | _ => []) := by
  have hd := pre_delivers c hne p m orc
  rcases specWrite_cases c p m orc with ⟨hbig, e⟩ | ⟨hfit, ⟨k', hf, e⟩ | ⟨n', hf, hc, hr, e⟩ | ⟨n', k', hf, hc, hr, e⟩ | ⟨n', hf, _, e⟩⟩
  · rw [e]
    have hnf : ¬ m.length + c.ending.length ≤ c.cap := by omega
    simp only [lines_bypass, List.nil_append, hnf, if_false]
    rcases (direct_spec m orc).2 with h | ⟨k, h⟩ <;> simp [h]
  · rw [e]
    simp only [hd, List.append_nil]
  · rw [e]
    obtain ⟨h0, h1, _⟩ := corner_lines c hne _ m (pre c p m orc).2.2.2 hc
    have hfit' : m.length + c.ending.length ≤ c.cap := by omega
    simp only [List.flatMap_append, hfit', if_true]
    unfold cor at hr ⊢
    rw [h1 hr, h0, List.append_nil]
    rw [h0, List.append_nil] at hd
    rw [hd]
  · rw [e]
    obtain ⟨h0, _, h2⟩ := corner_lines c hne _ m (pre c p m orc).2.2.2 hc
    simp only [List.flatMap_append]
    unfold cor at hr ⊢
    rw [h2 k' hr, h0, List.append_nil, List.append_nil, List.append_nil]
    rw [h0, List.append_nil] at hd
    exact hd
  · rw [e]
    have hfit' : m.length + c.ending.length ≤ c.cap := by omega
    simp only [hfit', if_true]
    rw [← List.append_assoc, hd]


/-! ### histories -/

theorem deliveredLines_cons (o : SOpObs α) (os : List (SOpObs α)) :
    deliveredLines (o :: os) = o.atts.flatMap SAtt.lines ++ deliveredLines os := by
  simp only [deliveredLines, List.flatMap_cons]

theorem specFlush_pending (c : Cfg α) (p : List (List α)) (orc : List Outcome) :
    (specFlush c p orc).2.1 = p ∨ (specFlush c p orc).2.1 = [] := by
  cases hr : (flushBuf (frame c p) orc).1 with
  | none => rw [specFlush_none c p orc hr]; exact Or.inr rfl
  | some k => rw [specFlush_some c p orc k hr]; exact Or.inl rfl

/-- C06/C07 conservation over any history and any pattern of write failures: the lines accepted by
the socket, in order, followed by the lines still pending, are exactly the lines that were pending
at the start followed by the acknowledged fitting lines, in emit order — nothing lost, duplicated
or reordered. -/
theorem specOps_conservation (c : Cfg α) (hne : c.ending ≠ []) (ops : List (Op α))
    (p : List (List α)) (orc : List Outcome) :
    deliveredLines (specOps c p ops orc).1 ++ (specOps c p ops orc).2.1 =
      p ++ acceptedBuffered c ops (specOps c p ops orc).1 := by
  induction ops generalizing p orc with
  | nil => simp only [specOps, deliveredLines, acceptedBuffered, List.flatMap_nil, List.nil_append,
      List.append_nil]
  | cons op ops ih =>
    cases op with
    | emit m =>
      have ih' := ih (specWrite c p m orc).2.1 (specWrite c p m orc).2.2.2
      have hw := specWrite_conserves c hne p m orc
      simp only [specOps, deliveredLines_cons, acceptedBuffered]
      rw [List.append_assoc, ih', ← List.append_assoc, hw, List.append_assoc]
      rfl
    | flush =>
      have ih' := ih (specFlush c p orc).2.1 (specFlush c p orc).2.2.2
      have hw := specFlush_delivers c hne p orc
      simp only [specOps, deliveredLines_cons, acceptedBuffered]
      rw [List.append_assoc, ih', ← List.append_assoc, hw]

theorem specDrop_atts_eq (c : Cfg α) (p : List (List α)) (orc : List Outcome) :
    (specDrop c p orc).1 = (specFlush c p orc).2.2.1 := by
  rw [specFlush_atts_eq]; rfl

/-- the drop writes the remaining lines, once, if its write is accepted -/
theorem specDrop_delivers (c : Cfg α) (hne : c.ending ≠ []) (p : List (List α)) (orc : List Outcome)
    (h : ∀ a ∈ (specDrop c p orc).1, a.err = none) :
    (specDrop c p orc).1.flatMap SAtt.lines = p := by
  rw [specDrop_atts_eq] at h ⊢
  have hd := specFlush_delivers c hne p orc
  cases hres : (specFlush c p orc).1 with
  | ok n =>
    rw [(specFlush_ok c p orc n hres).1, List.append_nil] at hd
    exact hd
  | err k =>
    obtain ⟨_, _, a, hl, ha⟩ := specFlush_err c p orc k hres
    have := h a (List.mem_of_getLast? hl)
    rw [ha] at this
    simp at this
  | panic => exact absurd hres (specFlush_no_panic c p orc)

theorem specDrop_atts (c : Cfg α) (p : List (List α)) (orc : List Outcome) :
    ∀ a ∈ (specDrop c p orc).1, (∃ e, a = .group p e) ∧ frame c p ≠ [] := by
  rw [specDrop_atts_eq]; exact specFlush_atts c p orc

/-- pending lines always fit the capacity; no operation of any history panics -/
theorem specOps_inv (c : Cfg α) (ops : List (Op α)) (p : List (List α)) (orc : List Outcome)
    (hp : (frame c p).length ≤ c.cap) :
    (frame c (specOps c p ops orc).2.1).length ≤ c.cap ∧
    ∀ o ∈ (specOps c p ops orc).1, o.res ≠ .panic := by
  induction ops generalizing p orc with
  | nil => exact ⟨hp, by simp [specOps]⟩
  | cons op ops ih =>
    cases op with
    | emit m =>
      obtain ⟨i1, i2⟩ := ih (specWrite c p m orc).2.1 (specWrite c p m orc).2.2.2
        (specWrite_atts c p m orc hp).1
      simp only [specOps, List.mem_cons]
      refine ⟨i1, ?_⟩
      intro o ho
      rcases ho with rfl | ho
      · exact specWrite_no_panic c p m orc
      · exact i2 o ho
    | flush =>
      have hp' : (frame c (specFlush c p orc).2.1).length ≤ c.cap := by
        rcases specFlush_pending c p orc with e | e
        · rw [e]; exact hp
        · rw [e]; exact Nat.zero_le _
      obtain ⟨i1, i2⟩ := ih (specFlush c p orc).2.1 (specFlush c p orc).2.2.2 hp'
      simp only [specOps, List.mem_cons]
      refine ⟨i1, ?_⟩
      intro o ho
      rcases ho with rfl | ho
      · exact specFlush_no_panic c p orc
      · exact i2 o ho

end Mlw
