import Cadence.Model.Sinks
import Cadence.Model.WriterObs
import Cadence.Proofs.WriterSpec
import Cadence.Proofs.WriterHistory
/-!
Socket sinks (C13), telemetry (C14), concurrent emitters as interleavings (C12).
-/
namespace Sinks
open Mlw
variable {α : Type}

/-! ### C13 -/

theorem unbuffered_one_attempt (m : List α) (orc : List Outcome) :
    ∃ e, (unbufferedEmit m orc).2.1 = [⟨m, e⟩] ∧
      (unbufferedEmit m orc).1 = (match e with | none => .ok m.length | some k => .err k) := by
  unfold unbufferedEmit
  cases orc with
  | nil => exact ⟨none, by simp [direct]⟩
  | cons o os =>
    cases o with
    | ok => exact ⟨none, by simp [direct]⟩
    | err k => exact ⟨some k, by simp [direct]⟩
    | intr => exact ⟨some intrKind, by simp [direct]⟩

theorem bufferedCfg_default : bufferedCfg none = ⟨512, [10]⟩ ∧ ∀ c, bufferedCfg (some c) = ⟨c, [10]⟩ := by
  constructor
  · rfl
  · intro c; rfl

theorem bufferedCfg_ending_ne (cap : Option Nat) : (bufferedCfg cap).ending ≠ [] := by
  simp [bufferedCfg]

/-! ### C14 -/

/-- the four counters -/
inductive Field | bytesSent | packetsSent | bytesDropped | packetsDropped
  deriving DecidableEq, Repr

/-- one `fetch_add` -/
def Stats.inc (s : Stats) (i : Field × Nat) : Stats :=
  match i.1 with
  | .bytesSent => { s with bytesSent := s.bytesSent + i.2 }
  | .packetsSent => { s with packetsSent := s.packetsSent + i.2 }
  | .bytesDropped => { s with bytesDropped := s.bytesDropped + i.2 }
  | .packetsDropped => { s with packetsDropped := s.packetsDropped + i.2 }

/-- the two `fetch_add`s one `update` performs -/
def incsOf (a : Nat × Bool) : List (Field × Nat) :=
  if a.2 then [(.bytesSent, a.1), (.packetsSent, 1)] else [(.bytesDropped, a.1), (.packetsDropped, 1)]

theorem update_eq_incs (s : Stats) (a : Nat × Bool) : s.update a.1 a.2 = (incsOf a).foldl Stats.inc s := by
  obtain ⟨n, b⟩ := a
  cases b <;> simp [Stats.update, incsOf, Stats.inc]

theorem updateAll_eq_incs (s : Stats) (as : List (Nat × Bool)) :
    s.updateAll as = (as.flatMap incsOf).foldl Stats.inc s := by
  induction as generalizing s with
  | nil => simp [Stats.updateAll]
  | cons a as ih =>
    have h := ih (s.update a.1 a.2)
    simp only [Stats.updateAll, List.foldl_cons, List.flatMap_cons, List.foldl_append] at h ⊢
    rw [h, update_eq_incs]

theorem Stats.inc_comm (s : Stats) (a b : Field × Nat) :
    Stats.inc (Stats.inc s a) b = Stats.inc (Stats.inc s b) a := by
  obtain ⟨fa, na⟩ := a
  obtain ⟨fb, nb⟩ := b
  cases fa <;> cases fb <;> simp [Stats.inc, Nat.add_right_comm]

/-- the individual `fetch_add`s of any number of threads commute: every interleaving (permutation)
of the same increments yields the same totals -/
theorem incs_order_independent (s : Stats) (xs ys : List (Field × Nat)) (h : xs.Perm ys) :
    xs.foldl Stats.inc s = ys.foldl Stats.inc s := by
  induction h generalizing s with
  | nil => rfl
  | cons x _ ih => simp only [List.foldl_cons]; exact ih _
  | swap x y l => simp only [List.foldl_cons]; rw [Stats.inc_comm]
  | trans _ _ ih1 ih2 => exact (ih1 s).trans (ih2 s)

def sumLens (as : List (Nat × Bool)) (ok : Bool) : Nat := ((as.filter (·.2 == ok)).map (·.1)).sum

/-- the totals after any sequence of send attempts -/
theorem totals (s : Stats) (as : List (Nat × Bool)) :
    (s.updateAll as).packetsSent = s.packetsSent + (as.filter (·.2 == true)).length ∧
    (s.updateAll as).packetsDropped = s.packetsDropped + (as.filter (·.2 == false)).length ∧
    (s.updateAll as).bytesSent = s.bytesSent + sumLens as true ∧
    (s.updateAll as).bytesDropped = s.bytesDropped + sumLens as false ∧
    (s.updateAll as).packetsSent + (s.updateAll as).packetsDropped = s.packetsSent + s.packetsDropped + as.length := by
  induction as generalizing s with
  | nil => simp [Stats.updateAll, sumLens]
  | cons a as ih =>
    obtain ⟨n, b⟩ := a
    have h := ih (s.update n b)
    simp only [Stats.updateAll, List.foldl_cons] at h ⊢
    obtain ⟨h1, h2, h3, h4, -⟩ := h
    rw [h1, h2, h3, h4]
    have hl : as.length = (as.filter (·.2 == true)).length + (as.filter (·.2 == false)).length := by
      clear ih h1 h2 h3 h4
      induction as with
      | nil => rfl
      | cons x xs ihx => obtain ⟨m, b'⟩ := x; cases b' <;> simp at ihx ⊢ <;> omega
    cases b <;> simp [Stats.update, sumLens] at hl ⊢ <;> omega

/-- for an unbuffered sink the attempts are the emits: one attempt per emit, of the metric's byte
length, counted as sent iff the emit returned Ok -/
theorem unbuffered_attempt_stats (m : List α) (orc : List Outcome) :
    attemptStats (unbufferedEmit m orc).2.1 =
      [(m.length, match (unbufferedEmit m orc).1 with | .ok _ => true | _ => false)] := by
  unfold unbufferedEmit
  cases orc with
  | nil => simp [direct, attemptStats]
  | cons o os => cases o <;> simp [direct, attemptStats]

/-! ### C12: a combined history of several threads is just a history -/

/-- the lines of the emits of a history, in order -/
def emitLines : List (Op α) → List (List α)
  | [] => []
  | .emit m :: ops => m :: emitLines ops
  | .flush :: ops => emitLines ops

/-- a thread's own program: its operations in the order they occur in the combined history -/
def proj (t : Nat) (l : List (Nat × Op α)) : List (Op α) := (l.filter (·.1 == t)).map (·.2)

/-- acknowledged lines are a subsequence of the emitted lines -/
theorem accepted_sublist (c : Cfg α) (ops : List (Op α)) (os : List (SOpObs α)) :
    (acceptedBuffered c ops os).Sublist (emitLines ops) := by
  induction ops generalizing os with
  | nil => simp [acceptedBuffered]
  | cons op ops ih =>
    cases os with
    | nil => cases op <;> simp [acceptedBuffered]
    | cons o os =>
      cases op with
      | flush => simpa [acceptedBuffered, emitLines] using ih os
      | emit m =>
        simp only [acceptedBuffered, emitLines]
        cases o.res with
        | ok n =>
          by_cases hc : m.length + c.ending.length ≤ c.cap
          · simpa [hc] using (ih os).cons_cons m
          · simpa [hc] using (ih os).cons m
        | err k => simpa using (ih os).cons m
        | panic => simpa using (ih os).cons m

/-- the lines thread `t` emitted, in its program order, are the combined history's emitted lines
filtered by "belongs to t", when `th` tells which thread a line belongs to -/
theorem emitLines_proj (t : Nat) (l : List (Nat × Op α)) (th : List α → Nat)
    (htag : ∀ x ∈ l, ∀ m, x.2 = .emit m → th m = x.1) :
    (emitLines (l.map (·.2))).filter (fun m => th m == t) = emitLines (proj t l) := by
  induction l with
  | nil => simp [emitLines, proj]
  | cons x l ih =>
    have ih' := ih (fun y hy => htag y (List.mem_cons_of_mem _ hy))
    obtain ⟨t', op⟩ := x
    unfold proj at ih' ⊢
    cases op with
    | flush =>
      by_cases ht : t' = t <;> simp [emitLines, ht, ih']
    | emit m =>
      have hth : th m = t' := htag (t', .emit m) (List.mem_cons_self) m rfl
      by_cases ht : t' = t <;> simp [emitLines, ht, ih', hth]

/-- For every interleaving `l` of any number of threads' emits and flushes (any capacity, any
oracle): what the socket accepted followed by what is pending, restricted to thread `t`'s lines,
is exactly thread `t`'s acknowledged lines — a subsequence of its program, in program order. -/
theorem per_thread_order (c : Cfg α) (hne : c.ending ≠ []) (l : List (Nat × Op α)) (orc : List Outcome)
    (th : List α → Nat) (t : Nat) (htag : ∀ x ∈ l, ∀ m, x.2 = .emit m → th m = x.1) :
    let so := specOps c [] (l.map (·.2)) orc
    (deliveredLines so.1 ++ so.2.1).filter (fun m => th m == t) =
      (acceptedBuffered c (l.map (·.2)) so.1).filter (fun m => th m == t) ∧
    ((acceptedBuffered c (l.map (·.2)) so.1).filter (fun m => th m == t)).Sublist (emitLines (proj t l)) := by
  intro so
  constructor
  · have h := specOps_conservation c hne (l.map (·.2)) [] orc
    rw [List.nil_append] at h
    exact congrArg (List.filter _) h
  · rw [← emitLines_proj t l th htag]
    exact (accepted_sublist c (l.map (·.2)) so.1).filter _

end Sinks
