import Cadence.Check.Format
import Cadence.Proofs.FormatText
import Cadence.Proofs.ClientProps
/-!
The executable predicate `ckCall` (the one the driver evaluates on the *implementation's* observation
of every metric call for C01 / C02 / C03 / C04) accepts every observation the model produces, provided
the float tokens are what a correct `Display` prints (delimiter-free text that round-trips): a
conforming implementation can never be flagged by it.
-/
namespace Fmt

/-- a float token as std prints it: the text contains no delimiter and parses back to the bits -/
def FloatTok.WF (t : FloatTok) : Prop := delimFree t.text = true ∧ RoundTrips t.bits t.text = true

def Arg.floatsWF : Arg → Prop
  | .f64 t => t.WF
  | .vf64 l => ∀ t ∈ l, FloatTok.WF t
  | _ => True

def BOp.floatsWF : BOp → Prop
  | .rate r => r.WF
  | _ => True

theorem delimFree_append (a b : Str) : delimFree (a ++ b) = (delimFree a && delimFree b) := by
  simp [delimFree, List.all_append]

theorem roundTrips_nil (b : Nat) : RoundTrips b [] = false := by
  simp only [RoundTrips, f64Fields]
  have hp : parseDecimal [] = none := by simp [parseDecimal, parseNat]
  simp only [hp]
  repeat' split
  all_goals simp [NAN_TEXT, INF_TEXT]

theorem FloatTok.WF.ne_nil {t : FloatTok} (h : t.WF) : t.text ≠ [] := by
  intro e
  have := h.2
  rw [e, roundTrips_nil] at this
  cases this

/-- the float tokens of a value are well formed -/
def Val.floatsWF : Val → Prop
  | .float t => t.WF
  | .pfloat l => ∀ t ∈ l, FloatTok.WF t
  | _ => True

theorem convert_floatsWF (e : Entry) (a : Arg) (v : Val) (hc : convert e a = some (.ok v))
    (ha : a.floatsWF) : v.floatsWF := by
  cases e <;> cases a <;> simp [convert] at hc <;>
    first
    | (subst hc; first | exact ha | trivial)
    | (split at hc <;> simp at hc; subst hc; trivial)

/-! ### the value tokens -/

theorem renderInt_ne_nil (i : Int) : renderInt i ≠ [] := by
  unfold renderInt
  split
  · simp
  · exact renderNat_ne_nil _

theorem tokens_delimFree (v : Val) (hv : v.floatsWF) : v.tokens.all delimFree = true := by
  rw [List.all_eq_true]
  intro t ht
  cases v with
  | signed i => simp [Val.tokens] at ht; subst ht; exact renderInt_delimFree i
  | psigned l => simp [Val.tokens] at ht; obtain ⟨i, _, rfl⟩ := ht; exact renderInt_delimFree i
  | unsigned n => simp [Val.tokens] at ht; subst ht; exact renderNat_delimFree n
  | punsigned l => simp [Val.tokens] at ht; obtain ⟨n, _, rfl⟩ := ht; exact renderNat_delimFree n
  | float f => simp [Val.tokens] at ht; subst ht; exact hv.1
  | pfloat l => simp [Val.tokens] at ht; obtain ⟨f, hf, rfl⟩ := ht; exact (hv f hf).1

theorem tokens_nonempty (v : Val) (hv : v.floatsWF) : v.tokens.any (·.isEmpty) = false := by
  rw [Bool.eq_false_iff]
  intro h
  rw [List.any_eq_true] at h
  obtain ⟨t, ht, hte⟩ := h
  have hnil : t = [] := by simpa using hte
  subst hnil
  cases v with
  | signed i => simp [Val.tokens] at ht; exact renderInt_ne_nil i ht
  | psigned l => simp [Val.tokens] at ht; obtain ⟨i, _, h⟩ := ht; exact renderInt_ne_nil i h
  | unsigned n => simp [Val.tokens] at ht; exact renderNat_ne_nil n ht
  | punsigned l => simp [Val.tokens] at ht; obtain ⟨n, _, h⟩ := ht; exact renderNat_ne_nil n h
  | float f => simp [Val.tokens] at ht; exact FloatTok.WF.ne_nil hv ht
  | pfloat l => simp [Val.tokens] at ht; obtain ⟨f, hf, h⟩ := ht; exact FloatTok.WF.ne_nil (hv f hf) h

theorem zip_text_all (l : List FloatTok) (h : ∀ t ∈ l, FloatTok.WF t) :
    ((l.map (·.text)).zip l).all (fun (p : Str × FloatTok) => RoundTrips p.2.bits p.1) = true := by
  induction l with
  | nil => rfl
  | cons t l ih =>
    simp only [List.map_cons, List.zip_cons_cons, List.all_cons, Bool.and_eq_true]
    exact ⟨(h t (by simp)).2, ih (fun x hx => h x (by simp [hx]))⟩

theorem tokenOk_tokens (v : Val) (hv : v.floatsWF) : tokenOk v v.tokens = true := by
  cases v with
  | signed i => simp [tokenOk, Val.tokens, parseInt_renderInt]
  | psigned l =>
    simp only [tokenOk, Val.tokens, List.map_map, beq_iff_eq]
    apply List.map_congr_left
    intro i _
    exact parseInt_renderInt i
  | unsigned n => simp [tokenOk, Val.tokens, parseNat_renderNat]
  | punsigned l =>
    simp only [tokenOk, Val.tokens, List.map_map, beq_iff_eq]
    apply List.map_congr_left
    intro n _
    exact parseNat_renderNat n
  | float f => simp [tokenOk, Val.tokens, hv.2]
  | pfloat l =>
    simp only [tokenOk, Val.tokens, List.length_map, beq_self_eq_true, Bool.true_and]
    exact zip_text_all l hv

/-! ### the builder operations -/

theorem lastSome_map_mem {α β} (f : α → Option β) (l : List α) (y : β)
    (h : lastSome (l.map f) = some y) : ∃ b ∈ l, f b = some y := by
  induction l with
  | nil => simp [lastSome] at h
  | cons b l ih =>
    simp only [List.map_cons, lastSome_cons] at h
    cases hl : lastSome (l.map f) with
    | some z =>
      rw [hl] at h
      obtain ⟨b', hb', e⟩ := ih (by rw [hl]; exact h)
      exact ⟨b', by simp [hb'], e⟩
    | none =>
      rw [hl] at h
      exact ⟨b, by simp, h⟩

theorem bopTags_delimFree (bops : List BOp) (h : bops.all BOp.delimFree = true) :
    (bopTags bops).all Tag.delimFree = true := by
  rw [List.all_eq_true] at *
  intro t ht
  simp only [bopTags, List.mem_filterMap] at ht
  obtain ⟨b, hb, e⟩ := ht
  have := h b hb
  cases b <;> simp at e <;> subst e <;> simpa [BOp.delimFree, Tag.delimFree] using this

theorem bopCid_free (bops : List BOp) (h : bops.all BOp.delimFree = true) :
    optFree (bopCid bops) = true := by
  cases hc : bopCid bops with
  | none => rfl
  | some c =>
    obtain ⟨b, hb, e⟩ := lastSome_map_mem _ bops c hc
    have := List.all_eq_true.mp h b hb
    cases b <;> simp at e
    subst e
    simpa [BOp.delimFree, optFree] using this

theorem bopRate_WF (bops : List BOp) (h : ∀ b ∈ bops, BOp.floatsWF b) (r : FloatTok)
    (hr : bopRate bops = some r) : r.WF := by
  obtain ⟨b, hb, e⟩ := lastSome_map_mem _ bops r hr
  have := h b hb
  cases b <;> simp at e
  subst e
  exact this

/-! ### the emitted line -/

theorem toLine_WF (cfg : ClientCfg) (e : Entry) (key : Str) (v : Val) (bops : List BOp)
    (hv : v.floatsWF) (hc : v.count ≠ 0) (hb : ∀ b ∈ bops, BOp.floatsWF b)
    (hi : inputsDelimFree cfg key bops = true) :
    (buildFmt cfg e key v bops).toLine.WF = true := by
  obtain ⟨hp, hk, hval, _⟩ := base_of_call cfg e key v bops
  simp only [inputsDelimFree, Bool.and_eq_true] at hi
  obtain ⟨⟨⟨⟨h1, h2⟩, h3⟩, h4⟩, h5⟩ := hi
  simp only [Line.WF, MFmt.toLine, Bool.and_eq_true, hp, hk, hval, tags_of_call, cid_of_call,
    ts_of_call, rate_of_call]
  refine ⟨⟨⟨⟨⟨⟨?_, ?_⟩, ?_⟩, ?_⟩, ?_⟩, ?_⟩, ?_⟩
  · rw [delimFree_append, h1, h2]; rfl
  · cases htk : v.tokens with
    | nil =>
      have := val_tokens_length v
      rw [htk] at this
      exact absurd this.symm hc
    | cons t ts => rfl
  · exact tokens_delimFree v hv
  · cases hr : bopRate bops with
    | none => rfl
    | some r => exact (bopRate_WF bops hb r hr).1
  · rw [List.all_append, h3, bopTags_delimFree bops h5]; rfl
  · cases hcid : bopCid bops with
    | none => cases hcc : cfg.cid with
      | none => rfl
      | some c => rw [hcc] at h4; exact h4
    | some c =>
      have := bopCid_free bops h5
      rw [hcid] at this
      exact this
  · cases bopTs bops with
    | none => rfl
    | some t => exact renderNat_delimFree t

theorem supplied_rateTok (cfg : ClientCfg) (e : Entry) (key : Str) (bops : List BOp) :
    (supplied cfg e key bops).rateTok = bopRate bops := rfl

theorem ckLine_model (cfg : ClientCfg) (e : Entry) (key : Str) (v : Val) (bops : List BOp)
    (hv : v.floatsWF) (hc : v.count ≠ 0) (hb : ∀ b ∈ bops, BOp.floatsWF b) :
    ckLine cfg e key v bops (buildFmt cfg e key v bops).format = .ok () := by
  unfold ckLine
  by_cases hi : inputsDelimFree cfg key bops = true
  · have hwf := toLine_WF cfg e key v bops hv hc hb hi
    obtain ⟨s1, s2, s3, s4, s5, s6⟩ := supplied_agrees cfg e key v bops
    rw [format_is_render, parse_render _ hwf]
    simp only [hi, Bool.not_true]
    have hval := (base_of_call cfg e key v bops).2.2.1
    have e1 : (buildFmt cfg e key v bops).toLine.name = (supplied cfg e key bops).name := s1.symm
    have e2 : (buildFmt cfg e key v bops).toLine.kind = (supplied cfg e key bops).kind := s2.symm
    have e3 : ((buildFmt cfg e key v bops).toLine.vals.any fun x => List.isEmpty x) = false := by
      show ((buildFmt cfg e key v bops).val.tokens.any _) = false
      rw [hval]; exact tokens_nonempty v hv
    have e4 : tokenOk v (buildFmt cfg e key v bops).toLine.vals = true := by
      show tokenOk v (buildFmt cfg e key v bops).val.tokens = true
      rw [hval]; exact tokenOk_tokens v hv
    have e5 : (buildFmt cfg e key v bops).toLine.rate = (bopRate bops).map (·.text) := by
      show (buildFmt cfg e key v bops).rate.map _ = _
      rw [rate_of_call]
    have e6 : (buildFmt cfg e key v bops).toLine.tags = (supplied cfg e key bops).tags := s4.symm
    have e7 : (buildFmt cfg e key v bops).toLine.cid = (supplied cfg e key bops).cid := s5.symm
    have e8 : (buildFmt cfg e key v bops).toLine.ts = (bopTs bops).map renderNat := by
      show (buildFmt cfg e key v bops).ts.map _ = _
      rw [ts_of_call]
    have e9 : (supplied cfg e key bops).ts = bopTs bops := rfl
    rw [e5, e8, supplied_rateTok, e9]
    have hrt := bopRate_WF bops hb
    cases hr : bopRate bops <;> cases ht : bopTs bops <;>
      simp [e1, e2, e3, e4, e6, e7, parseNat_renderNat, hr] at hrt ⊢ <;>
      first
      | rfl
      | (rw [hrt.2]; rfl)
  · simp [hi]; rfl

theorem ckCall_accepts_model (cfg : ClientCfg) (e : Entry) (form : Form) (key : Str) (a : Arg)
    (bops : List BOp) (sink : SinkOut) (tok : Nat) (o : CallObs)
    (h : call cfg e form key a bops sink tok = some o)
    (ha : a.floatsWF) (hb : ∀ b ∈ bops, BOp.floatsWF b) :
    ckCall cfg e form key a bops sink tok o = .ok () := by
  unfold ckCall
  unfold call at h
  cases hcv : convert e a with
  | none => rw [hcv] at h; simp at h
  | some r =>
    rw [hcv] at h
    cases r with
    | error er =>
      have := convert_error_inv e a er hcv
      subst this
      cases form <;> simp at h <;> subst h <;> simp <;> rfl
    | ok v =>
      have hv := convert_floatsWF e a v hcv ha
      by_cases hz : v.count = 0
      · cases form <;> cases sink <;> simp [trySend, buildFmt_count, hz] at h <;> subst h <;>
          simp [hz] <;> rfl
      · have hb' : ∀ b ∈ (if form = .plain then [] else bops), BOp.floatsWF b := by
          split
          · simp
          · exact hb
        have hl := ckLine_model cfg e key v (if form = .plain then [] else bops) hv hz hb'
        cases form <;> cases sink <;> simp [trySend, buildFmt_count, hz] at h hl <;> subst h <;>
          simp [hz, hl] <;> rfl

end Fmt
