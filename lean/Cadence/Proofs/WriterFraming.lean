import Cadence.Proofs.WriterLemmas
namespace Mlw
variable {α : Type}

@[simp] theorem frame_nil (c : Cfg α) : frame c [] = [] := rfl

theorem frame_append (c : Cfg α) (a b : List (List α)) : frame c (a ++ b) = frame c a ++ frame c b := by
  simp [frame]

theorem frame_single (c : Cfg α) (m : List α) : frame c [m] = m ++ c.ending := by simp [frame]

theorem inv_empty (c : Cfg α) : Inv c ⟨0, []⟩ [] := by simp [Inv]

theorem mlwFlush_spec (c : Cfg α) (s : St α) (pending : List (List α)) (orc : List Outcome)
    (h : Inv c s pending) :
    (∀ a ∈ (mlwFlush s orc).2.2.1, IsFrame c a.payload) ∧
    ((∃ k, (mlwFlush s orc).1 = .err k ∧ (mlwFlush s orc).2.1 = s) ∨
     ((mlwFlush s orc).1 = .ok 0 ∧ (mlwFlush s orc).2.1 = ⟨0, []⟩)) := by
  obtain ⟨_, _, hbuf, hlen⟩ := h
  have hf := flushBuf_spec s.buf orc
  have hframe : ∀ a ∈ (flushBuf s.buf orc).2.2.1, IsFrame c a.payload := by
    intro a ha
    obtain ⟨hp, hne⟩ := hf.1 a ha
    left
    refine ⟨pending, ?_, by rw [hp, hbuf], by rw [hp]; exact hlen⟩
    intro hnil; rw [hnil] at hbuf; exact hne hbuf
  cases hr : (flushBuf s.buf orc).1 with
  | none =>
    have e : mlwFlush s orc = (.ok 0, ⟨0, (flushBuf s.buf orc).2.1⟩, (flushBuf s.buf orc).2.2.1, (flushBuf s.buf orc).2.2.2) := by
      simp [mlwFlush, hr]
    rw [e]
    exact ⟨hframe, Or.inr ⟨rfl, by simp [hf.2.1 hr]⟩⟩
  | some k =>
    have e : mlwFlush s orc = (.err k, { s with buf := (flushBuf s.buf orc).2.1 }, (flushBuf s.buf orc).2.2.1, (flushBuf s.buf orc).2.2.2) := by
      simp [mlwFlush, hr]
    rw [e]
    exact ⟨hframe, Or.inl ⟨k, rfl, by simp [hf.2.2 k hr]⟩⟩

theorem mlwWrite_spec (c : Cfg α) (s : St α) (m : List α) (orc : List Outcome) (pending : List (List α))
    (h : Inv c s pending) :
    (mlwWrite c s m orc).1 ≠ .panic ∧ (∃ pending', Inv c (mlwWrite c s m orc).2.1 pending') ∧
    ∀ a ∈ (mlwWrite c s m orc).2.2.1, IsFrame c a.payload := by
  have h' := h
  obtain ⟨hw, hwc, hbuf, hlen⟩ := h
  unfold mlwWrite
  have hnp : ¬ s.written > c.cap := by omega
  simp only [hnp, if_false]
  by_cases hreq : m.length + c.ending.length > c.cap
  · -- bypass
    simp only [hreq, if_true]
    have hd := direct_spec m orc
    refine ⟨?_, ⟨pending, h'⟩, ?_⟩
    · rcases hd.2 with h1 | ⟨k, h1⟩ <;> simp [h1]
    · intro a ha; right; rw [hd.1 a ha]; exact hreq
  · simp only [hreq, if_false]
    -- state after the optional flush
    have hfl := mlwFlush_spec c s pending orc h'
    generalize hf : (if c.cap - s.written < m.length + c.ending.length then mlwFlush s orc else (Res.ok 0, s, [], orc)) = f
    have hfspec : (∀ a ∈ f.2.2.1, IsFrame c a.payload) ∧
        ((∃ k, f.1 = .err k ∧ f.2.1 = s) ∨
         (∃ n p0, f.1 = .ok n ∧ Inv c f.2.1 p0 ∧ f.2.1.written + (m.length + c.ending.length) ≤ c.cap)) := by
      by_cases hl : c.cap - s.written < m.length + c.ending.length
      · simp only [hl, if_true] at hf; subst hf
        refine ⟨hfl.1, ?_⟩
        rcases hfl.2 with ⟨k, hk, hs⟩ | ⟨hk, hs⟩
        · left; exact ⟨k, hk, hs⟩
        · right; refine ⟨0, [], hk, by rw [hs]; exact inv_empty c, by rw [hs]; simp; omega⟩
      · simp only [hl, if_false] at hf; subst hf
        refine ⟨by simp, Or.inr ⟨0, pending, rfl, h', by simp; omega⟩⟩
    obtain ⟨hfa, hfr⟩ := hfspec
    rcases hfr with ⟨k, hk, hs⟩ | ⟨n, p0, hk, hinv0, hroom⟩
    · -- flush failed: nothing buffered, state unchanged
      simp only [hk]
      exact ⟨by simp, ⟨pending, by rw [hs]; exact h'⟩, hfa⟩
    · simp only [hk]
      obtain ⟨hw0, hwc0, hbuf0, hlen0⟩ := hinv0
      have hbl : f.2.1.buf.length ≤ f.2.1.written := by
        rcases hw0 with e | ⟨e, _⟩
        · omega
        · simp [e]
      have fit1 : f.2.1.buf.length + m.length ≤ c.cap := by omega
      rcases bwWrite_fits c.cap f.2.1.buf m f.2.2.2 fit1 with ⟨r1, b1, a1⟩ | ⟨hb0, hml, b1, a1, r1⟩
      · -- metric buffered
        simp only [r1, b1, a1]
        have fit2 : (f.2.1.buf ++ m).length + c.ending.length ≤ c.cap := by simp; omega
        rcases bwWrite_fits c.cap (f.2.1.buf ++ m) c.ending (bwWrite c.cap f.2.1.buf m f.2.2.2).2.2.2 fit2 with
          ⟨r2, b2, a2⟩ | ⟨hb1, hel, b2, a2, r2⟩
        · -- terminator buffered
          simp only [r2, b2, a2]
          refine ⟨by simp, ⟨p0 ++ [m], ?_⟩, by simpa using hfa⟩
          refine ⟨?_, by simp; omega, by simp [frame_append, frame_single, hbuf0], by simp; omega⟩
          rcases hw0 with e | ⟨e, ecap⟩
          · left; simp; omega
          · -- stale fill count: only possible when nothing at all is added
            have : m.length + c.ending.length = 0 := by omega
            right
            have hm0 : m = [] := List.eq_nil_of_length_eq_zero (by omega)
            have he0 : c.ending = [] := List.eq_nil_of_length_eq_zero (by omega)
            simp [e, hm0, he0, ecap]
        · -- exact fill by the terminator of an empty metric into an empty buffer: written directly
          have hbe : f.2.1.buf = [] := by
            have := congrArg List.length hb1; simp at this; exact this.1
          have hm0 : m = [] := by
            have := congrArg List.length hb1; simp at this; exact this.2
          have hwz : f.2.1.written = 0 := by simp [hm0] at hroom; omega
          have hframe : ∀ a ∈ (bwWrite c.cap (f.2.1.buf ++ m) c.ending (bwWrite c.cap f.2.1.buf m f.2.2.2).2.2.2).2.2.1,
              IsFrame c a.payload := by
            intro a ha
            left
            refine ⟨[[]], by simp, by rw [a2 a ha]; simp [frame], by rw [a2 a ha]; omega⟩
          rcases r2 with r2 | ⟨k, r2⟩
          · simp only [r2, b2]
            refine ⟨by simp, ⟨[], ?_⟩, ?_⟩
            · refine ⟨Or.inr ⟨rfl, by simp [hwz, hm0, hel]⟩, by simp [hwz, hm0, hel], rfl, by simp⟩
            · intro a ha; simp at ha
              rcases ha with ha | ha
              · exact hfa a ha
              · exact hframe a ha
          · simp only [r2, b2]
            refine ⟨by simp, ⟨[], ?_⟩, ?_⟩
            · refine ⟨Or.inl (by simp [hwz, hm0]), by simp [hwz, hm0], rfl, by simp⟩
            · intro a ha; simp at ha
              rcases ha with ha | ha
              · exact hfa a ha
              · exact hframe a ha
      · -- exact fill by the metric itself (empty terminator) into an empty buffer: written directly
        have he0 : c.ending = [] := List.eq_nil_of_length_eq_zero (by omega)
        have hwz : f.2.1.written = 0 := by omega
        have hframe1 : ∀ a ∈ (bwWrite c.cap f.2.1.buf m f.2.2.2).2.2.1, IsFrame c a.payload := by
          intro a ha
          left
          refine ⟨[m], by simp, by rw [a1 a ha]; simp [frame, he0], by rw [a1 a ha]; omega⟩
        rcases r1 with r1 | ⟨k, r1⟩
        · simp only [r1, b1]
          have fit2 : ([] : List α).length + c.ending.length ≤ c.cap := by simp [he0]
          rcases bwWrite_fits c.cap [] c.ending (bwWrite c.cap f.2.1.buf m f.2.2.2).2.2.2 fit2 with
            ⟨r2, b2, a2⟩ | ⟨-, hel, b2, a2, r2⟩
          · simp only [r2, b2, a2]
            refine ⟨by simp, ⟨[], ?_⟩, ?_⟩
            · refine ⟨Or.inr ⟨by simp [he0], by simp [hwz, he0, hml]⟩, by simp [hwz, he0, hml], by simp [he0], by simp [he0]⟩
            · intro a ha; simp at ha
              rcases ha with ha | ha
              · exact hfa a ha
              · exact hframe1 a ha
          · -- capacity 0: the empty terminator is "written" directly as well
            have hframe2 : ∀ a ∈ (bwWrite c.cap [] c.ending (bwWrite c.cap f.2.1.buf m f.2.2.2).2.2.2).2.2.1,
                IsFrame c a.payload := by
              intro a ha
              left
              refine ⟨[[]], by simp, by rw [a2 a ha]; simp [frame], by rw [a2 a ha]; omega⟩
            rcases r2 with r2 | ⟨k, r2⟩
            · simp only [r2, b2]
              refine ⟨by simp, ⟨[], ?_⟩, ?_⟩
              · refine ⟨Or.inr ⟨rfl, by simp [hwz, he0, hml]⟩, by simp [hwz, he0, hml], rfl, by simp⟩
              · intro a ha; simp at ha
                rcases ha with ha | ha | ha
                · exact hfa a ha
                · exact hframe1 a ha
                · exact hframe2 a ha
            · simp only [r2, b2]
              refine ⟨by simp, ⟨[], ?_⟩, ?_⟩
              · refine ⟨Or.inr ⟨rfl, by simp [hwz, hml]⟩, by simp [hwz, hml], rfl, by simp⟩
              · intro a ha; simp at ha
                rcases ha with ha | ha | ha
                · exact hfa a ha
                · exact hframe1 a ha
                · exact hframe2 a ha
        · simp only [r1, b1]
          refine ⟨by simp, ⟨[], ?_⟩, ?_⟩
          · refine ⟨Or.inl (by simp [hwz]), by simp [hwz], rfl, by simp⟩
          · intro a ha; simp at ha
            rcases ha with ha | ha
            · exact hfa a ha
            · exact hframe1 a ha

end Mlw
