import Cadence.Proofs.WriterFraming
/-!
Refinement: the concrete `MultiLineWriter` model (on top of the `BufWriter` model) behaves exactly like
the abstract "pending lines" specification, for every capacity, terminator, metric and oracle.
-/
namespace Mlw
variable {α : Type}

/-! ### helper lemmas -/

theorem flushBuf_nil (orc : List Outcome) : flushBuf ([] : List α) orc = (none, [], [], orc) := by
  cases orc <;> simp [flushBuf]

/-- attempts whose payload is the frame of `p` are the rendering of their `group p` abstraction -/
theorem render_group_map (c : Cfg α) (p : List (List α)) (l : List (Attempt α))
    (h : ∀ a ∈ l, a.payload = frame c p) :
    (l.map (fun a => SAtt.group p a.err)).map (SAtt.render c) = l := by
  induction l with
  | nil => rfl
  | cons a l ih =>
    have ha := h a (by simp)
    have ih' := ih (fun b hb => h b (by simp [hb]))
    cases a with
    | mk pl e =>
      simp only at ha
      simp only [List.map_cons, SAtt.render, ih', ha]

theorem render_bypass_map (c : Cfg α) (m : List α) (l : List (Attempt α))
    (h : ∀ a ∈ l, a.payload = m) :
    (l.map (fun a => SAtt.bypass m a.err)).map (SAtt.render c) = l := by
  induction l with
  | nil => rfl
  | cons a l ih =>
    have ha := h a (by simp)
    have ih' := ih (fun b hb => h b (by simp [hb]))
    cases a with
    | mk pl e =>
      simp only at ha
      simp only [List.map_cons, SAtt.render, ih', ha]

/-- a part that fits is buffered, without touching the underlying writer, unless it exactly fills an
empty buffer -/
theorem bwWrite_buffered (cap : Nat) (buf part : List α) (orc : List Outcome)
    (hfit : buf.length + part.length ≤ cap) (hn : ¬ (buf = [] ∧ part.length = cap)) :
    bwWrite cap buf part orc = (.ok part.length, buf ++ part, [], orc) := by
  unfold bwWrite
  by_cases h1 : part.length < cap - buf.length
  · simp [h1]
  · have h2 : ¬ part.length > cap - buf.length := by omega
    have h3 : ¬ part.length ≥ cap := by
      intro h3
      apply hn
      have : buf.length = 0 := by omega
      exact ⟨List.eq_nil_of_length_eq_zero this, by omega⟩
    simp [h1, h2, h3]

/-- a part exactly as large as the capacity goes straight through an empty buffer -/
theorem bwWrite_direct (cap : Nat) (part : List α) (orc : List Outcome) (h : part.length = cap) :
    bwWrite cap [] part orc =
      ((direct part orc).1, [], (direct part orc).2.1, (direct part orc).2.2) := by
  unfold bwWrite
  simp [h]

theorem directs_nil (orc : List Outcome) : directs ([] : List (List α)) orc = (none, [], orc) := rfl

theorem directs_cons_ok (q : List α) (qs : List (List α)) (orc : List Outcome) (n : Nat)
    (h : (direct q orc).1 = .ok n) :
    directs (q :: qs) orc =
      ((directs qs (direct q orc).2.2).1, (direct q orc).2.1 ++ (directs qs (direct q orc).2.2).2.1,
        (directs qs (direct q orc).2.2).2.2) := by
  simp only [directs, h]

theorem directs_cons_err (q : List α) (qs : List (List α)) (orc : List Outcome) (k : Nat)
    (h : (direct q orc).1 = .err k) :
    directs (q :: qs) orc = (some k, (direct q orc).2.1, (direct q orc).2.2) := by
  simp only [directs, h]

/-! ### the refinement theorems -/

theorem mlwFlush_refines (c : Cfg α) (s : St α) (p : List (List α)) (orc : List Outcome)
    (h : Inv c s p) :
    (mlwFlush s orc).1 = (specFlush c p orc).1 ∧
    Inv c (mlwFlush s orc).2.1 (specFlush c p orc).2.1 ∧
    (mlwFlush s orc).2.2.1 = (specFlush c p orc).2.2.1.map (SAtt.render c) ∧
    (mlwFlush s orc).2.2.2 = (specFlush c p orc).2.2.2 := by
  have h' := h
  obtain ⟨hw, hwc, hbuf, hlen⟩ := h
  have hf := flushBuf_spec s.buf orc
  have hmap := render_group_map c p (flushBuf s.buf orc).2.2.1
    (fun a ha => by rw [(hf.1 a ha).1, hbuf])
  unfold mlwFlush specFlush
  rw [← hbuf]
  cases hr : (flushBuf s.buf orc).1 with
  | none =>
    simp only [hr]
    refine ⟨trivial, ?_, hmap.symm, trivial⟩
    rw [hf.2.1 hr]
    exact inv_empty c
  | some k =>
    simp only [hr]
    refine ⟨trivial, ?_, hmap.symm, trivial⟩
    rw [hf.2.2 k hr]
    exact h'

theorem mlwWrite_refines (c : Cfg α) (s : St α) (p : List (List α)) (m : List α) (orc : List Outcome)
    (h : Inv c s p) :
    (mlwWrite c s m orc).1 = (specWrite c p m orc).1 ∧
    Inv c (mlwWrite c s m orc).2.1 (specWrite c p m orc).2.1 ∧
    (mlwWrite c s m orc).2.2.1 = (specWrite c p m orc).2.2.1.map (SAtt.render c) ∧
    (mlwWrite c s m orc).2.2.2 = (specWrite c p m orc).2.2.2 := by
  have h' := h
  obtain ⟨hw, hwc, hbuf, hlen⟩ := h
  unfold mlwWrite specWrite
  have hnp : ¬ s.written > c.cap := by omega
  simp only [hnp, if_false]
  by_cases hreq : m.length + c.ending.length > c.cap
  · -- bypass
    simp only [hreq, if_true]
    exact ⟨trivial, h', (render_bypass_map c m _ (direct_spec m orc).1).symm, trivial⟩
  · simp only [hreq, if_false]
    have hfl := mlwFlush_refines c s p orc h'
    have hfs := mlwFlush_spec c s p orc h'
    generalize hf : (if c.cap - s.written < m.length + c.ending.length then mlwFlush s orc
      else (Res.ok 0, s, [], orc)) = f
    generalize hg : (if (frame c p).length + (m.length + c.ending.length) > c.cap then specFlush c p orc
      else (Res.ok 0, p, [], orc)) = g
    have hfg : f.1 = g.1 ∧ Inv c f.2.1 g.2.1 ∧ f.2.2.1 = g.2.2.1.map (SAtt.render c) ∧
        f.2.2.2 = g.2.2.2 ∧
        ((∃ k, f.1 = .err k) ∨
         (∃ n, f.1 = .ok n ∧ f.2.1.written + (m.length + c.ending.length) ≤ c.cap)) := by
      rcases hw with hw | ⟨hb, hwcap⟩
      · have hcond : (c.cap - s.written < m.length + c.ending.length) ↔
            ((frame c p).length + (m.length + c.ending.length) > c.cap) := by
          rw [← hbuf]; omega
        by_cases hl : c.cap - s.written < m.length + c.ending.length
        · have hl' := hcond.mp hl
          simp only [hl, if_true] at hf
          simp only [hl', if_true] at hg
          subst hf; subst hg
          refine ⟨hfl.1, hfl.2.1, hfl.2.2.1, hfl.2.2.2, ?_⟩
          rcases hfs.2 with ⟨k, hk, _⟩ | ⟨hk, hs⟩
          · exact Or.inl ⟨k, hk⟩
          · right
            refine ⟨0, hk, ?_⟩
            rw [hs]; simp only; omega
        · have hl' : ¬ ((frame c p).length + (m.length + c.ending.length) > c.cap) :=
            fun x => hl (hcond.mpr x)
          simp only [hl, if_false] at hf
          simp only [hl', if_false] at hg
          subst hf; subst hg
          exact ⟨rfl, h', rfl, rfl, Or.inr ⟨0, rfl, by simp only; omega⟩⟩
      · -- stale fill count over an empty buffer: the concrete flush is a no-op
        have hfr : frame c p = [] := by rw [← hbuf, hb]
        have hl' : ¬ ((frame c p).length + (m.length + c.ending.length) > c.cap) := by
          rw [hfr]; simp only [List.length_nil]; omega
        simp only [hl', if_false] at hg
        subst hg
        by_cases hl : c.cap - s.written < m.length + c.ending.length
        · simp only [hl, if_true] at hf
          subst hf
          have e : mlwFlush s orc = (.ok 0, ⟨0, []⟩, [], orc) := by
            simp [mlwFlush, hb, flushBuf_nil]
          rw [e]
          refine ⟨rfl, ?_, rfl, rfl, Or.inr ⟨0, rfl, by simp only; omega⟩⟩
          exact ⟨Or.inl rfl, Nat.zero_le _, hfr.symm, Nat.zero_le _⟩
        · simp only [hl, if_false] at hf
          subst hf
          exact ⟨rfl, h', rfl, rfl, Or.inr ⟨0, rfl, by simp only; omega⟩⟩
    clear hf hg hfl hfs
    obtain ⟨fr, fs, fa, fo⟩ := f
    obtain ⟨gr, gp, ga, go⟩ := g
    simp only at hfg
    obtain ⟨e1, hinv0, e3, e4, hcase⟩ := hfg
    subst e1; subst e4; subst e3
    simp only []
    rcases hcase with ⟨k, hk⟩ | ⟨n, hk, hroom⟩
    · -- the flush failed: nothing is buffered, the line is refused
      subst hk
      simp only []
      exact ⟨trivial, hinv0, trivial, trivial⟩
    · subst hk
      simp only []
      have hinv0' := hinv0
      obtain ⟨hw0, hwc0, hbuf0, hlen0⟩ := hinv0
      have hbl : fs.buf.length ≤ fs.written := by
        rcases hw0 with e | ⟨e, _⟩
        · omega
        · simp [e]
      have fit1 : fs.buf.length + m.length ≤ c.cap := by omega
      by_cases hc1 : fs.buf = [] ∧ m.length = c.cap
      · -- exact fill by the metric itself (empty terminator) into an empty buffer: written directly
        obtain ⟨hb0, hml⟩ := hc1
        have he0 : c.ending = [] := List.eq_nil_of_length_eq_zero (by omega)
        have hwz : fs.written = 0 := by omega
        have hfr0 : frame c gp = [] := by rw [← hbuf0, hb0]
        have hcor : isCorner c gp m = true := by simp [isCorner, hfr0, he0, hml]
        have hfm : frame c [m] = m := by simp [frame_single, he0]
        have hd := direct_spec m fo
        have hmap1 := render_group_map c [m] (direct m fo).2.1 (fun a ha => by rw [hd.1 a ha, hfm])
        rw [hb0, bwWrite_direct c.cap m fo hml]
        simp only [hcor, if_true]
        rcases hd.2 with r1 | ⟨k, r1⟩
        · by_cases hcap : c.cap = 0
          · -- capacity 0: the empty terminator is "written" directly as well
            have hcw : cornerWrites c m = [m, c.ending] := by simp [cornerWrites, hml, he0, hcap]
            have hel : c.ending.length = c.cap := by simp [he0, hcap]
            have hme : c.ending = m := by
              rw [he0]; exact (List.eq_nil_of_length_eq_zero (by omega)).symm
            have hd2 := direct_spec c.ending (direct m fo).2.2
            have hmap2 := render_group_map c [m] (direct c.ending (direct m fo).2.2).2.1
              (fun a ha => by rw [hd2.1 a ha, hfm, hme])
            simp only [r1, hcw, directs_cons_ok _ _ _ _ r1]
            rw [bwWrite_direct c.cap c.ending _ hel]
            rcases hd2.2 with r2 | ⟨k2, r2⟩
            · simp only [r2, directs_cons_ok _ _ _ _ r2, directs_nil, List.append_nil,
                List.map_append, hmap1, hmap2, List.append_assoc]
              refine ⟨trivial, ?_, trivial, trivial⟩
              exact ⟨Or.inr ⟨rfl, by simp only; omega⟩, by simp only; omega, hfr0.symm, Nat.zero_le _⟩
            · simp only [r2, directs_cons_err _ _ _ _ r2, List.map_append, hmap1, hmap2,
                List.append_assoc]
              refine ⟨trivial, ?_, trivial, trivial⟩
              exact ⟨Or.inr ⟨rfl, by simp only; omega⟩, by simp only; omega, hfr0.symm, Nat.zero_le _⟩
          · have hcw : cornerWrites c m = [m] := by simp [cornerWrites, hml, he0, hcap]
            have hnb : ¬ (([] : List α) = [] ∧ c.ending.length = c.cap) := by
              simp [he0]; omega
            simp only [r1, hcw, directs_cons_ok _ _ _ _ r1, directs_nil]
            rw [bwWrite_buffered c.cap [] c.ending _ (by simp [he0]) hnb]
            simp only [List.append_nil, List.map_append, hmap1, he0, List.length_nil]
            refine ⟨trivial, ?_, trivial, trivial⟩
            exact ⟨Or.inr ⟨rfl, by simp only; omega⟩, by simp only; omega, hfr0.symm, Nat.zero_le _⟩
        · have hcw : cornerWrites c m = m :: (if c.ending.length ≥ c.cap then [c.ending] else []) := by
            simp [cornerWrites, hml]
          simp only [r1, hcw, directs_cons_err _ _ _ _ r1, List.map_append, hmap1]
          refine ⟨trivial, ?_, trivial, trivial⟩
          exact ⟨Or.inl (by simp only [List.length_nil]; omega), hwc0, hfr0.symm, Nat.zero_le _⟩
      · -- the metric is buffered
        rw [bwWrite_buffered c.cap fs.buf m fo fit1 hc1]
        simp only []
        have fit2 : (fs.buf ++ m).length + c.ending.length ≤ c.cap := by
          simp only [List.length_append]; omega
        by_cases hc2 : fs.buf ++ m = [] ∧ c.ending.length = c.cap
        · -- exact fill by the terminator of an empty metric into an empty buffer: written directly
          obtain ⟨hbm, hel⟩ := hc2
          have hb0 : fs.buf = [] := (List.append_eq_nil_iff.mp hbm).1
          have hm0 : m = [] := (List.append_eq_nil_iff.mp hbm).2
          have hcap : c.cap ≠ 0 := by
            intro hz; apply hc1; exact ⟨hb0, by simp [hm0, hz]⟩
          have hwz : fs.written = 0 := by simp [hm0] at hroom; omega
          have hfr0 : frame c gp = [] := by rw [← hbuf0, hb0]
          have hcor : isCorner c gp m = true := by simp [isCorner, hfr0, hm0, hel]
          have hfm : frame c [m] = c.ending := by simp [frame_single, hm0]
          have hcw : cornerWrites c m = [c.ending] := by simp [cornerWrites, hm0, hel, hcap]
          have hd := direct_spec c.ending fo
          have hmap1 := render_group_map c [m] (direct c.ending fo).2.1
            (fun a ha => by rw [hd.1 a ha, hfm])
          rw [hbm, bwWrite_direct c.cap c.ending fo hel]
          simp only [hcor, if_true, hcw]
          rcases hd.2 with r2 | ⟨k2, r2⟩
          · simp only [r2, directs_cons_ok _ _ _ _ r2, directs_nil, List.append_nil,
              List.map_append, hmap1]
            refine ⟨trivial, ?_, trivial, trivial⟩
            exact ⟨Or.inr ⟨rfl, by simp only [hm0, List.length_nil]; omega⟩,
              by simp only [hm0, List.length_nil]; omega, hfr0.symm, Nat.zero_le _⟩
          · simp only [r2, directs_cons_err _ _ _ _ r2, List.append_nil, List.map_append, hmap1]
            refine ⟨trivial, ?_, trivial, trivial⟩
            exact ⟨Or.inl (by simp only [hm0, List.length_nil]; omega),
              by simp only [hm0, List.length_nil]; omega, hfr0.symm, Nat.zero_le _⟩
        · -- the terminator is buffered as well: the line joins the pending ones
          rw [bwWrite_buffered c.cap (fs.buf ++ m) c.ending fo fit2 hc2]
          have hcor : isCorner c gp m = false := by
            cases hic : isCorner c gp m with
            | false => rfl
            | true =>
              exfalso
              simp only [isCorner, Bool.and_eq_true, Bool.or_eq_true, beq_iff_eq,
                List.isEmpty_iff] at hic
              obtain ⟨⟨hfe, hrq⟩, hor⟩ := hic
              have hb0 : fs.buf = [] := by rw [hbuf0, hfe]
              rcases hor with hm | he
              · exact hc1 ⟨hb0, hm⟩
              · have hm0 : m = [] := List.eq_nil_of_length_eq_zero (by omega)
                exact hc2 ⟨by rw [hb0, hm0]; rfl, he⟩
          simp only [hcor, Bool.false_eq_true, if_false, List.append_nil]
          refine ⟨trivial, ?_, trivial, trivial⟩
          refine ⟨?_, by simp only; omega,
            by simp only [frame_append, frame_single, hbuf0, List.append_assoc],
            by simp only [List.length_append]; omega⟩
          rcases hw0 with e | ⟨e, ecap⟩
          · left; simp only [List.length_append]; omega
          · -- stale fill count: only possible when nothing at all is added
            right
            have hm0 : m = [] := List.eq_nil_of_length_eq_zero (by omega)
            have he0 : c.ending = [] := List.eq_nil_of_length_eq_zero (by omega)
            simp [e, hm0, he0, ecap]

theorem mlwDrop_refines (c : Cfg α) (s : St α) (p : List (List α)) (orc : List Outcome)
    (h : Inv c s p) :
    (mlwDrop s orc).1 = (specDrop c p orc).1.map (SAtt.render c) ∧
    (mlwDrop s orc).2 = (specDrop c p orc).2 := by
  obtain ⟨hw, hwc, hbuf, hlen⟩ := h
  have hf := flushBuf_spec s.buf orc
  have hmap := render_group_map c p (flushBuf s.buf orc).2.2.1
    (fun a ha => by rw [(hf.1 a ha).1, hbuf])
  unfold mlwDrop specDrop
  rw [← hbuf]
  exact ⟨hmap.symm, rfl⟩

theorem runOps_refines (c : Cfg α) (ops : List (Op α)) (s : St α) (p : List (List α)) (orc : List Outcome)
    (h : Inv c s p) :
    (runOps c s ops orc).1 = (specOps c p ops orc).1.map (SOpObs.render c) ∧
    Inv c (runOps c s ops orc).2.1 (specOps c p ops orc).2.1 ∧
    (runOps c s ops orc).2.2 = (specOps c p ops orc).2.2 := by
  induction ops generalizing s p orc with
  | nil => exact ⟨rfl, h, rfl⟩
  | cons op ops ih =>
    cases op with
    | emit m =>
      obtain ⟨e1, hinv, e3, e4⟩ := mlwWrite_refines c s p m orc h
      obtain ⟨i1, i2, i3⟩ := ih (mlwWrite c s m orc).2.1 (specWrite c p m orc).2.1
        (mlwWrite c s m orc).2.2.2 hinv
      rw [e4] at i1 i2 i3
      simp only [runOps, specOps, List.map_cons, SOpObs.render]
      rw [e4]
      exact ⟨by rw [i1, e1, e3], i2, i3⟩
    | flush =>
      obtain ⟨e1, hinv, e3, e4⟩ := mlwFlush_refines c s p orc h
      obtain ⟨i1, i2, i3⟩ := ih (mlwFlush s orc).2.1 (specFlush c p orc).2.1
        (mlwFlush s orc).2.2.2 hinv
      rw [e4] at i1 i2 i3
      simp only [runOps, specOps, List.map_cons, SOpObs.render]
      rw [e4]
      exact ⟨by rw [i1, e1, e3], i2, i3⟩

/-- the whole life of a writer (any history, then the drop) is the rendering of the specification's -/
theorem runLife_refines (c : Cfg α) (ops : List (Op α)) (orc : List Outcome) :
    runLife c ops orc = (specLife c ops orc).map (SOpObs.render c) := by
  obtain ⟨e1, hinv, e3⟩ := runOps_refines c ops ⟨0, []⟩ [] orc (inv_empty c)
  obtain ⟨d1, _⟩ := mlwDrop_refines c _ _ (runOps c ⟨0, []⟩ ops orc).2.2 hinv
  rw [e3] at d1
  simp only [runLife, specLife, List.map_append, List.map_cons, List.map_nil, SOpObs.render]
  rw [e1, e3, d1]

end Mlw
