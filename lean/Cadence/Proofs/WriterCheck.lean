import Cadence.Check.Writer
import Cadence.Proofs.WriterSpec
/-!
The executable predicate `ckLife` (the one the driver evaluates on the *implementation's*
observations for C05 / C06 / C07 / C19) accepts every life of the model: a conforming
implementation can never be flagged by it.  (Non-empty terminator: with an empty terminator lines
are not delimited and the checker's prefix matching is not unique.)
-/
namespace Mlw
variable {α : Type} [DecidableEq α]

/-- the checker accepts the whole life of the specification, rendered -/
theorem ckLife_accepts_spec (c : Cfg α) (hne : c.ending ≠ []) (ops : List (Op α)) (orc : List Outcome) :
    ckLife c [] ops ((specLife c ops orc).map (SOpObs.render c)) = .ok () := by
  sorry

/-- hence it accepts every life of the concrete writer model -/
theorem ckLife_accepts_model (c : Cfg α) (hne : c.ending ≠ []) (ops : List (Op α)) (orc : List Outcome) :
    ckLife c [] ops (runLife c ops orc) = .ok () := by
  rw [runLife_refines]; exact ckLife_accepts_spec c hne ops orc

end Mlw
