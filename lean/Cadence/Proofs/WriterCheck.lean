import Cadence.Check.Writer
import Cadence.Proofs.WriterSpec
/-!
The executable predicate `ckLife` (the one the driver evaluates on the *implementation's*
observations for C05 / C06 / C07 / C19) accepts every life of the model: a conforming
implementation can never be flagged by it.  (Non-empty terminator: with an empty terminator lines
are not delimited and the checker's prefix matching is not unique.)

Invariant carried along a history: the checker's state `pend` is the specification's pending list,
and its frame fits the capacity.  One lemma per operation (`ckEmit_spec`, `ckFlush_spec`,
`ckDrop_spec`), on top of facts about prefix matching (`matchPrefix_frame`) and about the walk over
the attempts of a flush (`ckAtts_flush_none`, `ckAtts_flush_some`).
-/
namespace Mlw
variable {α : Type} [DecidableEq α]

/-! ### prefix matching -/

theorem stripPrefix_append (a b : List α) : stripPrefix? a (a ++ b) = some b := by
  induction a with
  | nil => simp [stripPrefix?]
  | cons x xs ih => simp [stripPrefix?, ih]

omit [DecidableEq α] in
theorem frame_cons (c : Cfg α) (l : List α) (ls : List (List α)) :
    frame c (l :: ls) = (l ++ c.ending) ++ frame c ls := by
  simp [frame]

theorem matchGo_frame (c : Cfg α) (hne : c.ending ≠ []) (ls extra : List (List α)) (k : Nat)
    (hk : k = 0 → ls ≠ []) : matchGo c (ls ++ extra) (frame c ls) k = some (k + ls.length) := by
  induction ls generalizing k with
  | nil =>
    have hk' : k ≥ 1 := by
      cases k with
      | zero => exact absurd rfl (hk rfl)
      | succ n => omega
    cases extra <;> simp [matchGo, frame, hk']
  | cons l ls ih =>
    have hnil : ((l ++ c.ending) ++ frame c ls).isEmpty = false := by simp [hne]
    rw [frame_cons, List.cons_append]
    simp only [matchGo, hnil, Bool.false_and, Bool.false_eq_true, if_false, stripPrefix_append]
    rw [ih (k + 1) (by omega)]
    simp only [List.length_cons, Option.some.injEq]
    omega

theorem matchPrefix_frame (c : Cfg α) (hne : c.ending ≠ []) (p extra : List (List α)) (hp : p ≠ []) :
    matchPrefix c (p ++ extra) (frame c p) = some p.length := by
  have he : c.ending.isEmpty = false := by simpa using hne
  simp only [matchPrefix, he, Bool.and_false, Bool.false_eq_true, if_false]
  rw [matchGo_frame c hne p extra 0 (fun _ => hp)]
  simp

theorem ckAtts_nil (c : Cfg α) (work : List (List α)) : ckAtts c work [] = .ok (work, false, 0) := rfl

theorem ckAtts_cons_refused (c : Cfg α) (work : List (List α)) (a : Attempt α) (as : List (Attempt α))
    (k e : Nat) (w : List (List α)) (b : Bool) (n : Nat)
    (hm : matchPrefix c work a.payload = some k) (hl : a.payload.length ≤ c.cap)
    (he : a.err = some e) (h : ckAtts c work as = .ok (w, b, n)) :
    ckAtts c work (a :: as) = .ok (w, true, n) := by
  have hl' : ¬ a.payload.length > c.cap := by omega
  simp only [ckAtts, hm, hl', if_false, he, h, bind, Except.bind, pure, Except.pure]

theorem ckAtts_cons_accepted (c : Cfg α) (work : List (List α)) (a : Attempt α) (as : List (Attempt α))
    (k : Nat) (w : List (List α)) (b : Bool) (n : Nat)
    (hm : matchPrefix c work a.payload = some k) (hl : a.payload.length ≤ c.cap)
    (he : a.err = none) (h : ckAtts c (work.drop k) as = .ok (w, b, n)) :
    ckAtts c work (a :: as) = .ok (w, b, max k n) := by
  have hl' : ¬ a.payload.length > c.cap := by omega
  simp only [ckAtts, hm, hl', if_false, he, h, bind, Except.bind, pure, Except.pure]

theorem ckAtts_refused (c : Cfg α) (hne : c.ending ≠ []) (p extra : List (List α)) (hp : p ≠ [])
    (hlen : (frame c p).length ≤ c.cap) (fs : List (Attempt α))
    (hfs : ∀ a ∈ fs, a.payload = frame c p ∧ a.err ≠ none) (tail : List (Attempt α))
    (w : List (List α)) (b : Bool) (n : Nat) (h : ckAtts c (p ++ extra) tail = .ok (w, b, n)) :
    ckAtts c (p ++ extra) (fs ++ tail) = .ok (w, b || !fs.isEmpty, n) := by
  induction fs with
  | nil => simpa using h
  | cons a fs ih =>
    obtain ⟨hpay, herr⟩ := hfs a (by simp)
    have ih' := ih (fun x hx => hfs x (by simp [hx]))
    obtain ⟨e, he⟩ : ∃ e, a.err = some e := by
      cases h' : a.err with
      | none => exact absurd h' herr
      | some e => exact ⟨e, rfl⟩
    rw [List.cons_append]
    rw [ckAtts_cons_refused c (p ++ extra) a (fs ++ tail) p.length e w _ n
      (by rw [hpay]; exact matchPrefix_frame c hne p extra hp) (by rw [hpay]; exact hlen) he ih']
    simp

omit [DecidableEq α] in
/-- the attempts of a flush, rendered, are `flush_buf`'s own attempts -/
theorem specFlush_render (c : Cfg α) (p : List (List α)) (orc : List Outcome) :
    (specFlush c p orc).2.2.1.map (SAtt.render c) = (flushBuf (frame c p) orc).2.2.1 := by
  rw [specFlush_atts_eq]
  exact render_group_map c p _ (fun a ha => ((flushBuf_spec (frame c p) orc).1 a ha).1)

omit [DecidableEq α] in
theorem specDrop_render (c : Cfg α) (p : List (List α)) (orc : List Outcome) :
    (specDrop c p orc).1.map (SAtt.render c) = (flushBuf (frame c p) orc).2.2.1 := by
  rw [specDrop_atts_eq]; exact specFlush_render c p orc

/-- a successful flush: refused retries, then one accepted write that consumes all of `p` -/
theorem ckAtts_flush_none (c : Cfg α) (hne : c.ending ≠ []) (p : List (List α)) (orc : List Outcome)
    (hlen : (frame c p).length ≤ c.cap) (h : (flushBuf (frame c p) orc).1 = none)
    (extra : List (List α)) (tail : List (Attempt α)) (w : List (List α)) (b : Bool) (n : Nat)
    (ht : ckAtts c extra tail = .ok (w, b, n)) :
    ∃ b', ckAtts c (p ++ extra) ((flushBuf (frame c p) orc).2.2.1 ++ tail) = .ok (w, b', max p.length n) := by
  by_cases hp : p = []
  · subst hp
    rw [(flushBuf_atts (frame c ([] : List (List α))) orc).2.1 rfl]
    exact ⟨b, by simpa using ht⟩
  · have hf : frame c p ≠ [] := fun e => hp ((frame_eq_nil_iff c hne p).mp e)
    obtain ⟨fs, e, hfs⟩ := (flushBuf_atts (frame c p) orc).1 h hf
    rw [e, List.append_assoc, List.singleton_append]
    have hacc : ckAtts c (p ++ extra) (⟨frame c p, none⟩ :: tail) = .ok (w, b, max p.length n) :=
      ckAtts_cons_accepted c (p ++ extra) ⟨frame c p, none⟩ tail p.length w b n
        (matchPrefix_frame c hne p extra hp) hlen rfl (by rw [List.drop_left]; exact ht)
    exact ⟨_, ckAtts_refused c hne p extra hp hlen fs hfs _ w b _ hacc⟩

/-- a failed flush: at least one attempt, all refused, nothing consumed -/
theorem ckAtts_flush_some (c : Cfg α) (hne : c.ending ≠ []) (p : List (List α)) (orc : List Outcome)
    (hlen : (frame c p).length ≤ c.cap) (k : Nat) (h : (flushBuf (frame c p) orc).1 = some k)
    (extra : List (List α)) (tail : List (Attempt α)) (w : List (List α)) (b : Bool) (n : Nat)
    (ht : ckAtts c (p ++ extra) tail = .ok (w, b, n)) :
    ckAtts c (p ++ extra) ((flushBuf (frame c p) orc).2.2.1 ++ tail) = .ok (w, true, n) := by
  have hp : p ≠ [] := by
    intro hp
    subst hp
    rw [show frame c ([] : List (List α)) = [] from rfl, flushBuf_nil] at h
    simp at h
  obtain ⟨hall, a, hl, _⟩ := (flushBuf_atts (frame c p) orc).2.2 k h
  have hne' : (flushBuf (frame c p) orc).2.2.1 ≠ [] := by
    intro e; rw [e] at hl; simp at hl
  have := ckAtts_refused c hne p extra hp hlen (flushBuf (frame c p) orc).2.2.1
    (fun x hx => ⟨((flushBuf_spec (frame c p) orc).1 x hx).1, hall x hx⟩) tail w b n ht
  rw [this]
  have : (flushBuf (frame c p) orc).2.2.1.isEmpty = false := by simpa using hne'
  simp [this]

omit [DecidableEq α] in
theorem lastErr_of_getLast (as : List (Attempt α)) (k : Nat)
    (h : ∃ a, as.getLast? = some a ∧ a.err = some k) : lastErr as = some k := by
  obtain ⟨a, hl, ha⟩ := h
  simp only [lastErr, hl, ha]

/-! ### the checker's per-operation verdicts, from what `ckAtts` computed -/

theorem ckFlush_ok (c : Cfg α) (pend : List (List α)) (atts : List (Attempt α)) (n0 : Nat)
    (w : List (List α)) (b : Bool) (n : Nat) (h : ckAtts c pend atts = .ok (w, b, n))
    (hw : frame c w = []) : ckFlush c pend ⟨.ok n0, atts⟩ = .ok [] := by
  simp [ckFlush, h, hw, bind, Except.bind, pure, Except.pure]

theorem ckFlush_err (c : Cfg α) (pend : List (List α)) (atts : List (Attempt α)) (k : Nat)
    (w : List (List α)) (b : Bool) (n : Nat) (h : ckAtts c pend atts = .ok (w, b, n))
    (hl : lastErr atts = some k) : ckFlush c pend ⟨.err k, atts⟩ = .ok w := by
  simp [ckFlush, h, hl, bind, Except.bind, pure, Except.pure]

theorem ckDrop_ok (c : Cfg α) (pend : List (List α)) (atts : List (Attempt α))
    (w : List (List α)) (b : Bool) (n : Nat) (h : ckAtts c pend atts = .ok (w, b, n))
    (hw : b = true ∨ frame c w = []) : ckDrop c pend ⟨.ok 0, atts⟩ = .ok () := by
  rcases hw with hw | hw <;> simp [ckDrop, h, hw, bind, Except.bind, pure, Except.pure]

/-- (F) the checker accepts a flush of the specification and tracks its pending lines -/
theorem ckFlush_spec (c : Cfg α) (hne : c.ending ≠ []) (p : List (List α)) (orc : List Outcome)
    (hlen : (frame c p).length ≤ c.cap) :
    ckFlush c p ((⟨(specFlush c p orc).1, (specFlush c p orc).2.2.1⟩ : SOpObs α).render c) =
      .ok (specFlush c p orc).2.1 := by
  simp only [SOpObs.render, specFlush_render]
  cases hr : (flushBuf (frame c p) orc).1 with
  | none =>
    obtain ⟨b', hb⟩ := ckAtts_flush_none c hne p orc hlen hr [] [] [] false 0 (ckAtts_nil c [])
    rw [List.append_nil, List.append_nil] at hb
    rw [specFlush_none c p orc hr]
    exact ckFlush_ok c p _ 0 [] b' _ hb rfl
  | some k =>
    have hb := ckAtts_flush_some c hne p orc hlen k hr [] [] p false 0
      (by rw [List.append_nil]; exact ckAtts_nil c p)
    rw [List.append_nil, List.append_nil] at hb
    rw [specFlush_some c p orc k hr]
    exact ckFlush_err c p _ k p true 0 hb
      (lastErr_of_getLast _ k ((flushBuf_atts (frame c p) orc).2.2 k hr).2)

/-- (D) the checker accepts the drop of the specification -/
theorem ckDrop_spec (c : Cfg α) (hne : c.ending ≠ []) (p : List (List α)) (orc : List Outcome)
    (hlen : (frame c p).length ≤ c.cap) :
    ckDrop c p ((⟨.ok 0, (specDrop c p orc).1⟩ : SOpObs α).render c) = .ok () := by
  simp only [SOpObs.render, specDrop_render]
  cases hr : (flushBuf (frame c p) orc).1 with
  | none =>
    obtain ⟨b', hb⟩ := ckAtts_flush_none c hne p orc hlen hr [] [] [] false 0 (ckAtts_nil c [])
    rw [List.append_nil, List.append_nil] at hb
    exact ckDrop_ok c p _ [] b' _ hb (Or.inr rfl)
  | some k =>
    have hb := ckAtts_flush_some c hne p orc hlen k hr [] [] p false 0
      (by rw [List.append_nil]; exact ckAtts_nil c p)
    rw [List.append_nil, List.append_nil] at hb
    exact ckDrop_ok c p _ p true 0 hb (Or.inl rfl)

theorem ckEmit_ok (c : Cfg α) (pend : List (List α)) (m : List α) (atts : List (Attempt α))
    (rest : List (List α)) (b : Bool) (n : Nat)
    (hfit : ¬ m.length + c.ending.length > c.cap)
    (h : ckAtts c (pend ++ [m]) atts = .ok (rest, b, n))
    (hneed : atts = [] ∨ (frame c pend).length + (m.length + c.ending.length) > c.cap ∨
      ((frame c pend).length = 0 ∧ m.length + c.ending.length = c.cap))
    (hpart : ¬ (frame c pend).length + (m.length + c.ending.length) > c.cap ∨ n = 0 ∨
      frame c (if rest.isEmpty then [] else rest.dropLast) = []) :
    ckEmit c pend m ⟨.ok m.length, atts⟩ = .ok rest := by
  have h1 : (!atts.isEmpty && !((frame c pend).length + (m.length + c.ending.length) > c.cap ||
      ((frame c pend).length == 0 && m.length + c.ending.length == c.cap))) = false := by
    rcases hneed with h | h | ⟨h, h'⟩
    · simp [h]
    · simp [h]
    · simp [h, h']
  have h2 : (decide ((frame c pend).length + (m.length + c.ending.length) > c.cap) && n != 0 &&
      !(frame c (if rest.isEmpty then [] else rest.dropLast)).isEmpty) = false := by
    rcases hpart with h | h | h
    · simp [h]
    · simp [h]
    · rw [h]; simp
  simp only [ckEmit, hfit, if_false, h, bind, Except.bind, pure, Except.pure, h1, h2]
  simp

theorem ckEmit_err (c : Cfg α) (pend : List (List α)) (m : List α)
    (atts : List (Attempt α)) (k : Nat) (rest : List (List α)) (b : Bool) (n : Nat)
    (hfit : ¬ m.length + c.ending.length > c.cap)
    (h : ckAtts c (pend ++ [m]) atts = .ok (rest, b, n))
    (hneed : atts = [] ∨ (frame c pend).length + (m.length + c.ending.length) > c.cap ∨
      ((frame c pend).length = 0 ∧ m.length + c.ending.length = c.cap))
    (hpart : ¬ (frame c pend).length + (m.length + c.ending.length) > c.cap ∨ n = 0 ∨
      frame c (if rest.isEmpty then [] else rest.dropLast) = [])
    (hl : lastErr atts = some k) (hrest : rest ≠ []) :
    ckEmit c pend m ⟨.err k, atts⟩ = .ok rest.dropLast := by
  have h1 : (!atts.isEmpty && !((frame c pend).length + (m.length + c.ending.length) > c.cap ||
      ((frame c pend).length == 0 && m.length + c.ending.length == c.cap))) = false := by
    rcases hneed with h | h | ⟨h, h'⟩
    · simp [h]
    · simp [h]
    · simp [h, h']
  have h2 : (decide ((frame c pend).length + (m.length + c.ending.length) > c.cap) && n != 0 &&
      !(frame c (if rest.isEmpty then [] else rest.dropLast)).isEmpty) = false := by
    rcases hpart with h | h | h
    · simp [h]
    · simp [h]
    · rw [h]; simp
  have h3 : rest.isEmpty = false := by simpa using hrest
  simp only [h3, Bool.false_eq_true, if_false] at h2
  simp only [ckEmit, hfit, if_false, h, bind, Except.bind, pure, Except.pure, h1, hl, h3,
    Bool.false_eq_true, h2]
  simp

omit [DecidableEq α] in
theorem specFlush_res_ok (c : Cfg α) (p : List (List α)) (orc : List Outcome) (n : Nat)
    (h : (specFlush c p orc).1 = .ok n) : (flushBuf (frame c p) orc).1 = none := by
  cases hr : (flushBuf (frame c p) orc).1 with
  | none => rfl
  | some k => rw [specFlush_some c p orc k hr] at h; simp at h

omit [DecidableEq α] in
theorem specFlush_res_err (c : Cfg α) (p : List (List α)) (orc : List Outcome) (k : Nat)
    (h : (specFlush c p orc).1 = .err k) : (flushBuf (frame c p) orc).1 = some k := by
  cases hr : (flushBuf (frame c p) orc).1 with
  | none => rw [specFlush_none c p orc hr] at h; simp at h
  | some k' => rw [specFlush_some c p orc k' hr] at h; simp at h; rw [h]

omit [DecidableEq α] in
/-- in the exact-fill corner (non-empty terminator) exactly one write is passed through: the
terminator of an empty metric, i.e. the frame of the line `[m]`, as large as the capacity -/
theorem corner_att (c : Cfg α) (hne : c.ending ≠ []) (p0 : List (List α)) (m : List α)
    (orc : List Outcome) (hc : isCorner c p0 m = true) :
    p0 = [] ∧ (frame c [m]).length = c.cap ∧
    ((directs (cornerWrites c m) orc).2.1.map (fun a => SAtt.group [m] a.err)).map (SAtt.render c) =
      [⟨frame c [m], (directs (cornerWrites c m) orc).1⟩] := by
  obtain ⟨h0, hlen, hor⟩ := (isCorner_iff c p0 m).mp hc
  have hel : c.ending.length ≠ 0 := fun h => hne (List.eq_nil_of_length_eq_zero h)
  have hm : ¬ m.length ≥ c.cap := by omega
  have he : c.ending.length ≥ c.cap := by omega
  have hcw : cornerWrites c m = [c.ending] := by
    simp only [cornerWrites, hm, he, if_true, if_false, List.nil_append]
  refine ⟨(frame_eq_nil_iff c hne p0).mp h0, by rw [frame_single, List.length_append]; exact hlen, ?_⟩
  rw [hcw]
  rcases direct_cases c.ending orc with ⟨os, d⟩ | ⟨k', os, d⟩
  · have r1 : (direct c.ending orc).1 = .ok c.ending.length := by rw [d]
    rw [directs_cons_ok _ _ _ _ r1, directs_nil, d]
    simp [SAtt.render]
  · have r1 : (direct c.ending orc).1 = .err k' := by rw [d]
    rw [directs_cons_err _ _ _ _ r1, d]
    simp [SAtt.render]

theorem ckAtts_corner_ok (c : Cfg α) (hne : c.ending ≠ []) (m : List α)
    (hlen : (frame c [m]).length = c.cap) :
    ckAtts c [m] [⟨frame c [m], none⟩] = .ok ([], false, max 1 0) :=
  ckAtts_cons_accepted c [m] ⟨frame c [m], none⟩ [] 1 [] false 0
    (matchPrefix_frame c hne [m] [] (by simp)) (by simp only [hlen]; exact Nat.le_refl _) rfl
    (ckAtts_nil c _)

theorem ckAtts_corner_err (c : Cfg α) (hne : c.ending ≠ []) (m : List α) (k : Nat)
    (hlen : (frame c [m]).length = c.cap) :
    ckAtts c [m] [⟨frame c [m], some k⟩] = .ok ([m], true, 0) :=
  ckAtts_cons_refused c [m] ⟨frame c [m], some k⟩ [] 1 k [m] false 0
    (matchPrefix_frame c hne [m] [] (by simp)) (by simp only [hlen]; exact Nat.le_refl _) rfl
    (ckAtts_nil c _)

/-- (E) the checker accepts an emit of the specification and tracks its pending lines -/
theorem ckEmit_spec (c : Cfg α) (hne : c.ending ≠ []) (p : List (List α)) (m : List α)
    (orc : List Outcome) (hlen : (frame c p).length ≤ c.cap) :
    ckEmit c p m ((⟨(specWrite c p m orc).1, (specWrite c p m orc).2.2.1⟩ : SOpObs α).render c) =
      .ok (specWrite c p m orc).2.1 := by
  rcases specWrite_cases c p m orc with ⟨hbig, e⟩ |
    ⟨hfit, ⟨k, hf, e⟩ | ⟨n', hf, hc, hr, e⟩ | ⟨n', k, hf, hc, hr, e⟩ | ⟨n', hf, hc, e⟩⟩
  · -- oversize: sent alone
    rw [e]
    rcases direct_cases m orc with ⟨os, d⟩ | ⟨k, os, d⟩ <;> rw [d] <;>
      simp [SOpObs.render, SAtt.render, ckEmit, hbig, pure, Except.pure]
  · -- the flush fails
    obtain ⟨hcnd, _, _, _⟩ := pre_err c p m orc k hf
    rw [pre_flush c p m orc hcnd] at hf e
    have hr := specFlush_res_err c p orc k hf
    rw [e]
    simp only [SOpObs.render, specFlush_render]
    have hb := ckAtts_flush_some c hne p orc hlen k hr [m] [] (p ++ [m]) false 0 (ckAtts_nil c _)
    rw [List.append_nil] at hb
    rw [specFlush_some c p orc k hr]
    have := ckEmit_err c p m _ k (p ++ [m]) true 0 hfit hb (Or.inr (Or.inl hcnd)) (Or.inr (Or.inl rfl))
      (lastErr_of_getLast _ k ((flushBuf_atts (frame c p) orc).2.2 k hr).2) (by simp)
    rw [this]; simp
  · -- corner, accepted
    obtain ⟨h0, hcap, hatt⟩ := corner_att c hne _ m (pre c p m orc).2.2.2 hc
    rw [e]
    simp only [SOpObs.render, List.map_append]
    unfold cor at hr ⊢
    rw [hatt, hr, h0]
    obtain ⟨hz, hreq, _⟩ := (isCorner_iff c _ m).mp hc
    by_cases hcnd : (frame c p).length + (m.length + c.ending.length) > c.cap
    · rw [pre_flush c p m orc hcnd] at hf ⊢
      have hr' := specFlush_res_ok c p orc n' hf
      rw [specFlush_render]
      obtain ⟨b', hb⟩ := ckAtts_flush_none c hne p orc hlen hr' [m] _ _ _ _ (ckAtts_corner_ok c hne m hcap)
      exact ckEmit_ok c p m _ [] b' _ hfit hb (Or.inr (Or.inl hcnd)) (Or.inr (Or.inr rfl))
    · rw [pre_skip c p m orc hcnd] at h0 hz ⊢
      simp only at h0 hz
      subst h0
      simp only [List.map_nil, List.nil_append]
      exact ckEmit_ok c [] m _ [] false _ hfit (ckAtts_corner_ok c hne m hcap)
        (Or.inr (Or.inr ⟨by rw [hz]; rfl, hreq⟩)) (Or.inl hcnd)
  · -- corner, refused
    obtain ⟨h0, hcap, hatt⟩ := corner_att c hne _ m (pre c p m orc).2.2.2 hc
    rw [e]
    simp only [SOpObs.render, List.map_append]
    unfold cor at hr ⊢
    rw [hatt, hr, h0]
    obtain ⟨hz, hreq, _⟩ := (isCorner_iff c _ m).mp hc
    by_cases hcnd : (frame c p).length + (m.length + c.ending.length) > c.cap
    · rw [pre_flush c p m orc hcnd] at hf ⊢
      have hr' := specFlush_res_ok c p orc n' hf
      rw [specFlush_render]
      obtain ⟨b', hb⟩ := ckAtts_flush_none c hne p orc hlen hr' [m] _ _ _ _ (ckAtts_corner_err c hne m k hcap)
      exact ckEmit_err c p m _ k [m] b' _ hfit hb (Or.inr (Or.inl hcnd)) (Or.inr (Or.inr rfl))
        (by simp [lastErr]) (by simp)
    · rw [pre_skip c p m orc hcnd] at h0 hz ⊢
      simp only at h0 hz
      subst h0
      simp only [List.map_nil, List.nil_append]
      exact ckEmit_err c [] m _ k [m] true _ hfit (ckAtts_corner_err c hne m k hcap)
        (Or.inr (Or.inr ⟨by rw [hz]; rfl, hreq⟩)) (Or.inl hcnd) (by simp [lastErr]) (by simp)
  · -- buffered
    rw [e]
    simp only [SOpObs.render]
    by_cases hcnd : (frame c p).length + (m.length + c.ending.length) > c.cap
    · rw [pre_flush c p m orc hcnd] at hf ⊢
      have hr' := specFlush_res_ok c p orc n' hf
      rw [specFlush_render]
      obtain ⟨b', hb⟩ := ckAtts_flush_none c hne p orc hlen hr' [m] [] _ _ _ (ckAtts_nil c [m])
      rw [List.append_nil] at hb
      rw [specFlush_none c p orc hr']
      exact ckEmit_ok c p m _ [m] b' _ hfit hb (Or.inr (Or.inl hcnd)) (Or.inr (Or.inr rfl))
    · rw [pre_skip c p m orc hcnd]
      exact ckEmit_ok c p m [] (p ++ [m]) false 0 hfit (ckAtts_nil c _) (Or.inl rfl) (Or.inl hcnd)

/-! ### whole lives -/

theorem ckLife_spec_aux (c : Cfg α) (hne : c.ending ≠ []) (ops : List (Op α)) (p : List (List α))
    (orc : List Outcome) (hlen : (frame c p).length ≤ c.cap) :
    ckLife c p ops
      (((specOps c p ops orc).1 ++
        [(⟨.ok 0, (specDrop c (specOps c p ops orc).2.1 (specOps c p ops orc).2.2).1⟩ : SOpObs α)]).map
          (SOpObs.render c)) = .ok () := by
  induction ops generalizing p orc with
  | nil =>
    simp only [specOps, List.nil_append, List.map_cons, List.map_nil, ckLife]
    exact ckDrop_spec c hne p orc hlen
  | cons op ops ih =>
    cases op with
    | emit m =>
      simp only [specOps, List.cons_append, List.map_cons, ckLife]
      rw [ckEmit_spec c hne p m orc hlen]
      exact ih _ _ (specWrite_atts c p m orc hlen).1
    | flush =>
      simp only [specOps, List.cons_append, List.map_cons, ckLife]
      rw [ckFlush_spec c hne p orc hlen]
      have hp' : (frame c (specFlush c p orc).2.1).length ≤ c.cap := by
        rcases specFlush_pending c p orc with e | e
        · rw [e]; exact hlen
        · rw [e]; exact Nat.zero_le _
      exact ih _ _ hp'

/-- the checker accepts the whole life of the specification, rendered -/
theorem ckLife_accepts_spec (c : Cfg α) (hne : c.ending ≠ []) (ops : List (Op α)) (orc : List Outcome) :
    ckLife c [] ops ((specLife c ops orc).map (SOpObs.render c)) = .ok () := by
  exact ckLife_spec_aux c hne ops [] orc (Nat.zero_le _)

/-- hence it accepts every life of the concrete writer model -/
theorem ckLife_accepts_model (c : Cfg α) (hne : c.ending ≠ []) (ops : List (Op α)) (orc : List Outcome) :
    ckLife c [] ops (runLife c ops orc) = .ok () := by
  rw [runLife_refines]; exact ckLife_accepts_spec c hne ops orc

end Mlw
