import Cadence.Model.Queue
/-!
The inductive invariant of the queuing-sink transition system and its preservation by every label.
-/
namespace Queue
variable {μ : Type}

def errTok : Outcome → Option Nat
  | .err t => some t
  | _ => none

def isPanic : Outcome → Bool
  | .panic => true
  | _ => false

/-- the event log that a list of wrapped-sink calls with the given outcomes produces: each call is
`enter m`, followed by `handled tok` iff it failed and a handler is configured; only the last call
may be unfinished -/
def blocks : List μ → List Outcome → Bool → List (Ev μ)
  | [], _, _ => []
  | m :: ms, [], hh => .enter m :: blocks ms [] hh
  | m :: ms, o :: os, hh =>
    .enter m :: ((match errTok o with | some t => if hh then [.handled t] else [] | none => []) ++ blocks ms os hh)

def runningCount : Phase μ → Nat
  | .running _ => 1
  | _ => 0

structure Inv (s : St μ) : Prop where
  fifo : s.wrappedLog ++ inflight s.phase ++ somes s.chan = s.accepted
  capOk : ∀ c, s.cap = some c → s.chan.length ≤ c
  subm : s.submitted + s.pendingIncr = s.accepted.length
  drn : s.drained = s.wrappedLog.length
  alive : s.handles ≠ [] → s.stopStage = .idle ∧ s.stopReq = false ∧ none ∉ s.chan ∧ s.phase ≠ .exited
  stopped : s.handles = [] → s.stopStage ≠ .idle
  flagSet : s.stopReq = true ↔ (s.stopStage = .pill ∨ s.stopStage = .done)
  pillOnlyDone : none ∈ s.chan → s.stopStage = .done
  pillLast : ∀ pre post, s.chan = pre ++ none :: post → post = []
  noDeadlock : s.cap ≠ some 0 → s.stopStage = .done → s.phase = .recving → s.chan ≠ []
  exitedDone : s.phase = .exited → somes s.chan = []
  fin : s.wrappedLog.length = s.finished.length + runningCount s.phase
  pan : s.panics = s.finished.countP isPanic
  hlog : s.handlerLog = if s.hasHandler then s.finished.filterMap errTok else []
  tr : s.trace = blocks s.wrappedLog s.finished s.hasHandler ++ (if s.released then [.released] else [])
  rel : s.released = true → s.phase = .exited ∧ s.handles = [] ∧ s.stopStage = .done

/-! ### auxiliary lemmas -/

@[simp] theorem somes_append (a b : List (Option μ)) : somes (a ++ b) = somes a ++ somes b := by
  induction a with
  | nil => rfl
  | cons x xs ih => cases x <;> simp [somes, ih]

@[simp] theorem somes_nil : somes ([] : List (Option μ)) = [] := rfl
@[simp] theorem somes_some (m : μ) (r) : somes (some m :: r) = m :: somes r := rfl
@[simp] theorem somes_none (r : List (Option μ)) : somes (none :: r) = somes r := rfl

theorem room_cap (s : St μ) (h : room s = true) (c : Nat) (hc : s.cap = some c) : s.chan.length < c := by
  simp [room, hc] at h; exact h

theorem not_room (s : St μ) (h : room s = false) : ∃ c, s.cap = some c ∧ c ≤ s.chan.length := by
  unfold room at h
  split at h
  · simp at h
  · rename_i c hc; exact ⟨c, hc, by simpa using h⟩

/-- the events a finished call adds after its `enter` -/
def handledPart (o : Outcome) (hh : Bool) : List (Ev μ) :=
  match errTok o with | some t => if hh then [.handled t] else [] | none => []

theorem blocks_cons_cons (m : μ) (ms : List μ) (o : Outcome) (os : List Outcome) (hh : Bool) :
    blocks (m :: ms) (o :: os) hh = .enter m :: (handledPart o hh ++ blocks ms os hh) := rfl

/-- a new call starts after all earlier ones have finished -/
theorem blocks_snoc_enter (ms : List μ) (m : μ) (os : List Outcome) (hh : Bool)
    (hlen : ms.length = os.length) : blocks (ms ++ [m]) os hh = blocks ms os hh ++ [.enter m] := by
  induction ms generalizing os with
  | nil =>
    cases os with
    | nil => rfl
    | cons o os => simp at hlen
  | cons a ms ih =>
    cases os with
    | nil => simp at hlen
    | cons o os =>
      have hlen' : ms.length = os.length := by simpa using hlen
      show blocks (a :: (ms ++ [m])) (o :: os) hh = _
      rw [blocks_cons_cons, blocks_cons_cons, ih os hlen']
      simp

/-- the running (last) call finishes -/
theorem blocks_finish (ms : List μ) (os : List Outcome) (o : Outcome) (hh : Bool)
    (hlen : ms.length = os.length + 1) :
    blocks ms (os ++ [o]) hh = blocks ms os hh ++ handledPart o hh := by
  induction ms generalizing os with
  | nil => simp at hlen
  | cons a ms ih =>
    cases os with
    | nil =>
      have : ms = [] := by
        have : ms.length = 0 := by simpa using hlen
        exact List.length_eq_zero_iff.mp this
      subst this
      show blocks [a] [o] hh = blocks [a] [] hh ++ handledPart o hh
      rw [blocks_cons_cons]
      simp [blocks]
    | cons o' os =>
      have hlen' : ms.length = os.length + 1 := by simpa using hlen
      show blocks (a :: ms) (o' :: (os ++ [o])) hh = _
      rw [blocks_cons_cons, blocks_cons_cons, ih os hlen']
      simp

theorem blocks_snoc_finish (ms : List μ) (m : μ) (os : List Outcome) (o : Outcome) (hh : Bool)
    (hlen : ms.length = os.length) :
    blocks (ms ++ [m]) (os ++ [o]) hh = blocks ms os hh ++ .enter m :: handledPart o hh := by
  rw [blocks_finish _ _ _ _ (by simp [hlen]), blocks_snoc_enter _ _ _ _ hlen]
  simp

/-! ### the invariant -/

theorem init_inv (cap : Option Nat) (hh : Bool) : Inv (init cap hh : St μ) := by
  cases hh <;> constructor <;> simp [init, inflight, blocks, runningCount]

theorem room_of_empty (s : St μ) (hc : s.cap ≠ some 0) (hnil : s.chan = []) : room s = true := by
  unfold room
  split
  · rfl
  · rename_i c hcap
    have : c ≠ 0 := fun h0 => hc (by rw [hcap, h0])
    simp [hnil]; omega

theorem step_inv (s s' : St μ) (l : Label μ) (o : Obs) (h : Inv s) (hs : step s l = some (s', o)) : Inv s' := by
  obtain ⟨fifo, capOk, subm, drn, alive, stopped, flagSet, pillOnly, pillLast, noDead, exitedDone, fin, pan, hlog, tr, rel⟩ := h
  cases l with
  | emitTry hd m =>
    simp only [step] at hs
    split at hs
    · rename_i hmem
      have hne : s.handles ≠ [] := by intro h0; simp [h0] at hmem
      obtain ⟨hidle, hstop, hpill, hphase⟩ := alive hne
      split at hs
      · rename_i hroom
        simp at hs; obtain ⟨rfl, -⟩ := hs
        refine ⟨?_, ?_, ?_, drn, ?_, ?_, flagSet, ?_, ?_, ?_, ?_, fin, pan, hlog, tr, rel⟩
        · simp [← fifo]
        · intro c hc; have := room_cap s hroom c hc; simp; omega
        · simp; omega
        · intro _; exact ⟨hidle, hstop, by simp [hpill], hphase⟩
        · intro h0; exact absurd h0 hne
        · intro hm
          have : none ∈ s.chan := by simpa using hm
          exact absurd this hpill
        · intro pre post hch
          exfalso
          have hch' : s.chan ++ [some m] = pre ++ none :: post := hch
          have : none ∈ s.chan ++ [some m] := by rw [hch']; simp
          simp [hpill] at this
        · intro _ hst
          have hst' : s.stopStage = .done := hst
          rw [hidle] at hst'; cases hst'
        · intro hex; exact absurd hex hphase
      · simp at hs; obtain ⟨rfl, -⟩ := hs
        exact ⟨fifo, capOk, subm, drn, alive, stopped, flagSet, pillOnly, pillLast, noDead, exitedDone, fin, pan, hlog, tr, rel⟩
    · simp at hs
  | emitCount =>
    simp only [step] at hs
    split at hs
    · simp at hs; obtain ⟨rfl, -⟩ := hs
      exact ⟨fifo, capOk, by simp; omega, drn, alive, stopped, flagSet, pillOnly, pillLast, noDead, exitedDone, fin, pan, hlog, tr, rel⟩
    · simp at hs
  | clone hd =>
    simp only [step] at hs
    split at hs
    · rename_i hmem
      have hne : s.handles ≠ [] := by intro h0; simp [h0] at hmem
      simp at hs; obtain ⟨rfl, -⟩ := hs
      refine ⟨fifo, capOk, subm, drn, fun _ => alive hne, by simp, flagSet, pillOnly, pillLast, noDead, exitedDone, fin, pan, hlog, tr, ?_⟩
      intro hr; exact absurd (rel hr).2.1 hne
    · simp at hs
  | drop hd =>
    simp only [step] at hs
    split at hs
    · rename_i hmem
      have hne : s.handles ≠ [] := by intro h0; simp [h0] at hmem
      obtain ⟨hidle, hstop, hpill, hphase⟩ := alive hne
      have hrel : s.released = true → False := fun hr => hne (rel hr).2.1
      split at hs
      · rename_i hlast
        simp at hs; obtain ⟨rfl, -⟩ := hs
        refine ⟨fifo, capOk, subm, drn, ?_, ?_, ?_, ?_, pillLast, ?_, ?_, fin, pan, hlog, tr, ?_⟩
        · intro h; exact absurd hlast h
        · intro _ hst
          have hst' : StopStage.flag = StopStage.idle := hst
          cases hst'
        · show s.stopReq = true ↔ (StopStage.flag = StopStage.pill ∨ StopStage.flag = StopStage.done)
          simp [hstop]
        · intro hm; exact absurd hm hpill
        · intro _ hst
          have hst' : StopStage.flag = StopStage.done := hst
          cases hst'
        · intro hex; exact absurd hex hphase
        · intro hr; exact (hrel hr).elim
      · rename_i hnl
        simp at hs; obtain ⟨rfl, -⟩ := hs
        exact ⟨fifo, capOk, subm, drn, fun _ => alive hne, fun h => absurd h hnl, flagSet, pillOnly, pillLast, noDead,
          exitedDone, fin, pan, hlog, tr, fun hr => (hrel hr).elim⟩
    · simp at hs
  | stopFlag =>
    simp only [step] at hs
    split at hs
    · rename_i hst
      have h0 : s.handles = [] := by
        by_cases h0 : s.handles = []
        · exact h0
        · have := (alive h0).1; rw [hst] at this; cases this
      simp at hs; obtain ⟨rfl, -⟩ := hs
      refine ⟨fifo, capOk, subm, drn, ?_, ?_, ?_, ?_, pillLast, ?_, exitedDone, fin, pan, hlog, tr, ?_⟩
      · intro hne; exact absurd h0 hne
      · intro _ hst'
        have hst'' : StopStage.pill = StopStage.idle := hst'
        cases hst''
      · show true = true ↔ (StopStage.pill = StopStage.pill ∨ StopStage.pill = StopStage.done)
        simp
      · intro hm
        have := pillOnly hm; rw [hst] at this; cases this
      · intro _ hst'
        have hst'' : StopStage.pill = StopStage.done := hst'
        cases hst''
      · intro hr
        have := (rel hr).2.2; rw [hst] at this; cases this
    · simp at hs
  | stopPill =>
    simp only [step] at hs
    split at hs
    · rename_i hst
      have h0 : s.handles = [] := by
        by_cases h0 : s.handles = []
        · exact h0
        · have := (alive h0).1; rw [hst] at this; cases this
      have hpill : none ∉ s.chan := by
        intro hm; have := pillOnly hm; rw [hst] at this; cases this
      have hreq : s.stopReq = true := flagSet.2 (.inl hst)
      simp at hs; obtain ⟨rfl, -⟩ := hs
      refine ⟨?_, ?_, subm, drn, ?_, ?_, ?_, ?_, ?_, ?_, ?_, fin, pan, hlog, tr, ?_⟩
      · simp only []; split <;> simp [← fifo]
      · intro c hc; simp only []; split
        · rename_i hroom; have := room_cap s hroom c hc; simp; omega
        · exact capOk c hc
      · intro hne; exact absurd h0 hne
      · intro _ hst'
        have hst'' : StopStage.done = StopStage.idle := hst'
        cases hst''
      · show s.stopReq = true ↔ (StopStage.done = StopStage.pill ∨ StopStage.done = StopStage.done)
        simp [hreq]
      · intro _; rfl
      · intro pre post hch
        simp only [] at hch
        split at hch
        · -- the pill was appended at the very end
          rcases List.eq_nil_or_concat post with rfl | ⟨post', x, rfl⟩
          · rfl
          · exfalso
            have h1 : s.chan ++ [none] = (pre ++ none :: post') ++ [x] := by simpa using hch
            have := List.append_inj' h1 rfl
            have hmem' : none ∈ s.chan := by rw [this.1]; simp
            exact hpill hmem'
        · exfalso; have : none ∈ s.chan := by rw [hch]; simp
          exact hpill this
      · intro hc0 _ _
        simp only []
        split
        · simp
        · rename_i hroom
          intro hnil
          have := room_of_empty s hc0 hnil
          exact hroom this
      · intro hex
        have := exitedDone hex
        simp only []; split <;> simp [this]
      · intro hr
        have := (rel hr).2.2; rw [hst] at this; cases this
    · simp at hs
  | wCheck =>
    simp only [step] at hs
    split at hs
    · rename_i hph
      have hrel : s.released = true → False := fun hr => by have := (rel hr).1; simp [hph] at this
      have fin' : s.wrappedLog.length = s.finished.length := by simpa [hph, runningCount] using fin
      split at hs
      · rename_i hcond
        simp at hcond
        simp at hs; obtain ⟨rfl, -⟩ := hs
        refine ⟨by simpa [hph, inflight] using fifo, capOk, subm, drn, ?_, stopped, flagSet, pillOnly, pillLast, by simp,
          by simp [hcond.2], by simpa [runningCount] using fin', pan, hlog, tr, fun hr => (hrel hr).elim⟩
        intro hne; have := (alive hne).2.1; simp [hcond.1] at this
      · rename_i hcond
        simp at hs; obtain ⟨rfl, -⟩ := hs
        refine ⟨by simpa [hph, inflight] using fifo, capOk, subm, drn, ?_, stopped, flagSet, pillOnly, pillLast, ?_, by simp,
          by simpa [runningCount] using fin', pan, hlog, tr, fun hr => (hrel hr).elim⟩
        · intro hne; exact ⟨(alive hne).1, (alive hne).2.1, (alive hne).2.2.1, by simp⟩
        · intro _ hst _ hnil
          have hst' : s.stopReq = true := flagSet.2 (.inr hst)
          have hnil' : s.chan = [] := hnil
          simp [hst', hnil'] at hcond
    · simp at hs
  | wRecv =>
    simp only [step] at hs
    split at hs
    · rename_i hph
      have hrel : s.released = true → False := fun hr => by have := (rel hr).1; simp [hph] at this
      have fin' : s.wrappedLog.length = s.finished.length := by simpa [hph, runningCount] using fin
      split at hs
      · simp at hs
      · rename_i rest hch
        simp at hs; obtain ⟨rfl, -⟩ := hs
        have hrest : rest = [] := pillLast [] rest (by simpa using hch)
        refine ⟨by simpa [hph, hch, inflight, hrest] using fifo, ?_, subm, drn, ?_, stopped, flagSet, ?_, ?_, by simp,
          by simp [hrest], by simpa [runningCount] using fin', pan, hlog, tr, fun hr => (hrel hr).elim⟩
        · intro c hc; have := capOk c hc; simp [hch] at this; show rest.length ≤ c; omega
        · intro hne; have := (alive hne).2.2.1; simp [hch] at this
        · intro hm
          have hm' : none ∈ rest := hm
          simp [hrest] at hm'
        · intro pre post h'; simp [hrest] at h'
      · rename_i m rest hch
        simp at hs; obtain ⟨rfl, -⟩ := hs
        refine ⟨by simpa [hph, hch, inflight] using fifo, ?_, subm, drn, ?_, stopped, flagSet, ?_, ?_, by simp, by simp,
          by simpa [runningCount] using fin', pan, hlog, tr, fun hr => (hrel hr).elim⟩
        · intro c hc; have := capOk c hc; simp [hch] at this; show rest.length ≤ c; omega
        · intro hne
          obtain ⟨a1, a2, a3, _⟩ := alive hne
          exact ⟨a1, a2, fun hm => a3 (by rw [hch]; exact List.mem_cons_of_mem _ hm), by simp⟩
        · intro hm
          exact pillOnly (by rw [hch]; exact List.mem_cons_of_mem _ hm)
        · intro pre post h'
          have h'' : rest = pre ++ none :: post := h'
          exact pillLast (some m :: pre) post (by simp [hch, h''])
    · simp at hs
  | wCount =>
    simp only [step] at hs
    split at hs
    · rename_i m hph
      have hrel : s.released = true → False := fun hr => by have := (rel hr).1; simp [hph] at this
      have fin' : s.wrappedLog.length = s.finished.length := by simpa [hph, runningCount] using fin
      have hrf : s.released = false := by cases hr : s.released <;> simp_all
      simp at hs; obtain ⟨rfl, -⟩ := hs
      refine ⟨by simpa [hph, inflight] using fifo, capOk, subm, by simp [drn], ?_, stopped, flagSet, pillOnly, pillLast,
        by simp, by simp, by simp [runningCount, fin'], pan, hlog, ?_, fun hr => (hrel hr).elim⟩
      · intro hne; exact ⟨(alive hne).1, (alive hne).2.1, (alive hne).2.2.1, by simp⟩
      · show s.trace ++ [Ev.enter m] =
          blocks (s.wrappedLog ++ [m]) s.finished s.hasHandler ++ (if s.released = true then [Ev.released] else [])
        rw [blocks_snoc_enter _ _ _ _ fin', tr, hrf]; simp
    · simp at hs
  | wFinish oc =>
    simp only [step] at hs
    split at hs
    · rename_i m hph
      have hrel : s.released = true → False := fun hr => by have := (rel hr).1; simp [hph] at this
      have fin' : s.wrappedLog.length = s.finished.length + 1 := by simpa [hph, runningCount] using fin
      have hrf : s.released = false := by cases hr : s.released <;> simp_all
      have common : ∀ s'' : St μ, s''.chan = s.chan → s''.accepted = s.accepted → s''.wrappedLog = s.wrappedLog →
          s''.phase = .check → s''.cap = s.cap → s''.submitted = s.submitted → s''.pendingIncr = s.pendingIncr →
          s''.drained = s.drained → s''.handles = s.handles → s''.stopReq = s.stopReq →
          s''.hasHandler = s.hasHandler → s''.released = s.released → s''.finished = s.finished ++ [oc] →
          s''.panics = s.panics + (if isPanic oc then 1 else 0) →
          s''.handlerLog = s.handlerLog ++ (if s.hasHandler then (errTok oc).toList else []) →
          s''.trace = s.trace ++ handledPart oc s.hasHandler →
          s''.stopStage = s.stopStage →
          Inv s'' := by
        intro s'' h1 h2 h3 h4 h5 h6 h7 h8 h9 h10 h11 h12 h13 h14 h15 h16 h17
        refine ⟨by simpa [h1, h2, h3, h4, hph, inflight] using fifo, by simpa [h1, h5] using capOk, by simpa [h2, h6, h7] using subm,
          by simpa [h3, h8] using drn, ?_, by simpa [h9, h17] using stopped, by simpa [h10, h17] using flagSet,
          by simpa [h1, h17] using pillOnly, by simpa [h1] using pillLast, by simp [h4], by simp [h4],
          ?_, ?_, ?_, ?_, ?_⟩
        · intro hne; rw [h9] at hne; rw [h17, h10, h1, h4]
          exact ⟨(alive hne).1, (alive hne).2.1, (alive hne).2.2.1, by simp⟩
        · rw [h3, h4, h13, fin']; simp [runningCount]
        · rw [h14, h13, pan]; cases oc <;> simp [isPanic, List.countP_append]
        · rw [h15, h11, h13, hlog]
          cases s.hasHandler <;> cases oc <;> simp [errTok, List.filterMap_append]
        · rw [h16, h3, h13, h11, h12, blocks_finish _ _ _ _ fin', tr, hrf]; simp
        · intro hr; rw [h12] at hr; exact (hrel hr).elim
      cases oc with
      | ok =>
        simp at hs; obtain ⟨rfl, -⟩ := hs
        exact common _ rfl rfl rfl rfl rfl rfl rfl rfl rfl rfl rfl rfl rfl (by simp [isPanic]) (by simp [errTok])
          (by simp [handledPart, errTok]) rfl
      | err tok =>
        simp at hs; obtain ⟨rfl, -⟩ := hs
        exact common _ rfl rfl rfl rfl rfl rfl rfl rfl rfl rfl rfl rfl rfl (by simp [isPanic])
          (by simp only []; cases s.hasHandler <;> simp [errTok])
          (by simp only []; cases s.hasHandler <;> simp [handledPart, errTok]) rfl
      | panic =>
        simp at hs; obtain ⟨rfl, -⟩ := hs
        exact common _ rfl rfl rfl rfl rfl rfl rfl rfl rfl rfl rfl rfl rfl (by simp [isPanic]) (by simp [errTok])
          (by simp [handledPart, errTok]) rfl
    · simp at hs
  | release =>
    simp only [step] at hs
    split at hs
    · rename_i hph
      split at hs
      · rename_i hcond
        simp at hcond
        obtain ⟨⟨hc0, hcd⟩, hcr⟩ := hcond
        simp at hs; obtain ⟨rfl, -⟩ := hs
        refine ⟨fifo, capOk, subm, drn, alive, stopped, flagSet, pillOnly, pillLast, noDead, exitedDone, fin, pan, hlog, ?_,
          fun _ => ⟨hph, hc0, hcd⟩⟩
        show s.trace ++ [Ev.released] = blocks s.wrappedLog s.finished s.hasHandler ++ (if true = true then [Ev.released] else [])
        rw [tr, hcr]; simp
      · simp at hs
    · simp at hs

theorem reachable_inv {cap hh} (s : St μ) (h : Reachable cap hh s) : Inv s := by
  induction h with
  | init => exact init_inv cap hh
  | step _ hs ih => exact step_inv _ _ _ _ ih hs

theorem step_cfg (s s' : St μ) (l : Label μ) (o : Obs) (hs : step s l = some (s', o)) :
    s'.cap = s.cap ∧ s'.hasHandler = s.hasHandler := by
  cases l with
  | emitTry hd m =>
    simp only [step] at hs
    split at hs
    · split at hs <;> (simp at hs; obtain ⟨rfl, -⟩ := hs; exact ⟨rfl, rfl⟩)
    · simp at hs
  | emitCount =>
    simp only [step] at hs
    split at hs
    · simp at hs; obtain ⟨rfl, -⟩ := hs; exact ⟨rfl, rfl⟩
    · simp at hs
  | clone hd =>
    simp only [step] at hs
    split at hs
    · simp at hs; obtain ⟨rfl, -⟩ := hs; exact ⟨rfl, rfl⟩
    · simp at hs
  | drop hd =>
    simp only [step] at hs
    split at hs
    · split at hs <;> (simp at hs; obtain ⟨rfl, -⟩ := hs; exact ⟨rfl, rfl⟩)
    · simp at hs
  | stopFlag =>
    simp only [step] at hs
    split at hs
    · simp at hs; obtain ⟨rfl, -⟩ := hs; exact ⟨rfl, rfl⟩
    · simp at hs
  | stopPill =>
    simp only [step] at hs
    split at hs
    · simp at hs; obtain ⟨rfl, -⟩ := hs; exact ⟨rfl, rfl⟩
    · simp at hs
  | wCheck =>
    simp only [step] at hs
    split at hs
    · split at hs <;> (simp at hs; obtain ⟨rfl, -⟩ := hs; exact ⟨rfl, rfl⟩)
    · simp at hs
  | wRecv =>
    simp only [step] at hs
    split at hs
    · split at hs
      · simp at hs
      · simp at hs; obtain ⟨rfl, -⟩ := hs; exact ⟨rfl, rfl⟩
      · simp at hs; obtain ⟨rfl, -⟩ := hs; exact ⟨rfl, rfl⟩
    · simp at hs
  | wCount =>
    simp only [step] at hs
    split at hs
    · simp at hs; obtain ⟨rfl, -⟩ := hs; exact ⟨rfl, rfl⟩
    · simp at hs
  | wFinish oc =>
    simp only [step] at hs
    split at hs
    · cases oc <;> (simp at hs; obtain ⟨rfl, -⟩ := hs; exact ⟨rfl, rfl⟩)
    · simp at hs
  | release =>
    simp only [step] at hs
    split at hs
    · split at hs
      · simp at hs; obtain ⟨rfl, -⟩ := hs; exact ⟨rfl, rfl⟩
      · simp at hs
    · simp at hs

theorem reachable_cfg {cap hh} (s : St μ) (h : Reachable cap hh s) : s.cap = cap ∧ s.hasHandler = hh := by
  induction h with
  | init => exact ⟨rfl, rfl⟩
  | step _ hs ih =>
    have := step_cfg _ _ _ _ hs
    exact ⟨this.1.trans ih.1, this.2.trans ih.2⟩

end Queue
