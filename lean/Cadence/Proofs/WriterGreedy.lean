import Cadence.Model.WriterObs
import Cadence.Proofs.WriterRefine
/-!
C19: with an accepting socket, a run of emits packs lines greedily, and greedy in-order packing
uses the fewest datagrams of any in-order packing.
-/
namespace Mlw
variable {α : Type}

theorem bins_mono_and_slack (cap : Nat) (xs : List Nat) :
    (∀ f f', f ≤ f' → bins cap f xs ≤ bins cap f' xs) ∧ (∀ g g', bins cap g xs ≤ 1 + bins cap g' xs) := by
  induction xs with
  | nil => simp [bins]
  | cons y ys ih =>
    obtain ⟨mono, slack⟩ := ih
    constructor
    · intro f f' hff
      simp only [bins]
      by_cases h' : f' + y ≤ cap
      · have h : f + y ≤ cap := by omega
        simp only [h, h', if_true]
        exact mono _ _ (by omega)
      · simp only [h', if_false]
        by_cases h : f + y ≤ cap
        · simp only [h, if_true]; exact slack _ _
        · simp only [h, if_false]; omega
    · intro g g'
      simp only [bins]
      by_cases h : g + y ≤ cap <;> by_cases h' : g' + y ≤ cap <;> simp only [h, h', if_true, if_false]
      · exact slack _ _
      · have := slack (g + y) y; omega
      · have := mono y (g' + y) (by omega); omega
      · omega

theorem bins_append_fit (cap : Nat) (f : Nat) (seg ys : List Nat) (h : f + seg.sum ≤ cap) :
    bins cap f (seg ++ ys) = bins cap (f + seg.sum) ys := by
  induction seg generalizing f with
  | nil => simp
  | cons x xs ih =>
    simp only [List.sum_cons] at h
    have hx : f + x ≤ cap := by omega
    simp only [List.cons_append, bins, hx, if_true, List.sum_cons]
    rw [ih (f + x) (by omega)]
    congr 1; omega

/-- any in-order segmentation into groups of total ≤ cap uses at least as many groups as greedy
packing uses datagrams -/
theorem greedy_minimal (cap : Nat) (segs : List (List Nat)) (hne : segs ≠ [])
    (hfit : ∀ s ∈ segs, s.sum ≤ cap) : 1 + bins cap 0 segs.flatten ≤ segs.length := by
  induction segs with
  | nil => exact absurd rfl hne
  | cons seg rest ih =>
    simp only [List.flatten_cons, List.length_cons]
    rw [bins_append_fit cap 0 seg _ (by simpa using hfit seg (by simp))]
    cases rest with
    | nil => simp [bins]
    | cons r rs =>
      have := ih (by simp) (fun s hs => hfit s (by simp [hs]))
      have sl := (bins_mono_and_slack cap (r :: rs).flatten).2 (0 + seg.sum) 0
      simp only [List.length_cons] at this ⊢
      omega

def lineSize (c : Cfg α) (m : List α) : Nat := m.length + c.ending.length

theorem frame_length (c : Cfg α) (g : List (List α)) :
    (frame c g).length = (g.map (lineSize c)).sum := by
  induction g with
  | nil => simp
  | cons m g ih =>
    have e : frame c (m :: g) = frame c [m] ++ frame c g := frame_append c [m] g
    rw [e, frame_single]
    simp only [List.length_append, List.map_cons, List.sum_cons, lineSize, ih]

theorem frame_snoc_length (c : Cfg α) (cur : List (List α)) (m : List α) :
    (frame c (cur ++ [m])).length = (frame c cur).length + lineSize c m := by
  rw [frame_append, frame_single]; simp only [List.length_append, lineSize]

theorem frame_nil_iff_g (c : Cfg α) (hne : c.ending ≠ []) (p : List (List α)) :
    frame c p = [] ↔ p = [] := by
  constructor
  · intro h
    cases p with
    | nil => rfl
    | cons m g =>
      exfalso
      have e : frame c (m :: g) = frame c [m] ++ frame c g := frame_append c [m] g
      rw [e, frame_single] at h
      have := congrArg List.length h
      have hl : c.ending.length ≠ 0 := fun h0 => hne (List.eq_nil_of_length_eq_zero h0)
      simp only [List.length_append, List.length_nil] at this
      omega
  · intro h; rw [h]; rfl

theorem ending_length_pos (c : Cfg α) (hne : c.ending ≠ []) : 0 < c.ending.length :=
  Nat.pos_of_ne_zero (fun h0 => hne (List.eq_nil_of_length_eq_zero h0))

theorem pack_nil_cons (c : Cfg α) (m : List α) (ms : List (List α)) :
    pack c [] (m :: ms) = pack c [m] ms := by
  simp only [pack, List.nil_append, List.isEmpty_nil, if_true, ite_self]

/-- the number of groups `pack` makes is the greedy bin count -/
theorem pack_length (c : Cfg α) (hne : c.ending ≠ []) (cur ms : List (List α))
    (hcur : (frame c cur).length ≤ c.cap) (hfit : ∀ m ∈ ms, lineSize c m ≤ c.cap) :
    (pack c cur ms).length =
      (if cur.isEmpty then (if ms.isEmpty then 0 else 1 + bins c.cap 0 (ms.map (lineSize c)))
       else 1 + bins c.cap (frame c cur).length (ms.map (lineSize c))) := by
  have _ := hne
  induction ms generalizing cur with
  | nil =>
    cases cur with
    | nil => simp [pack]
    | cons a cur => simp [pack, bins]
  | cons m ms ih =>
    have hm : lineSize c m ≤ c.cap := hfit m (by simp)
    have hfit' : ∀ x ∈ ms, lineSize c x ≤ c.cap := fun x hx => hfit x (by simp [hx])
    have hsn : ¬ (cur ++ [m]).isEmpty = true := by simp
    by_cases hf : (frame c cur).length + (m.length + c.ending.length) ≤ c.cap
    · have hcur' : (frame c (cur ++ [m])).length ≤ c.cap := by
        rw [frame_snoc_length]; exact hf
      have hf' : (frame c cur).length + lineSize c m ≤ c.cap := hf
      have e : pack c cur (m :: ms) = pack c (cur ++ [m]) ms := by simp only [pack, hf, if_true]
      rw [e, ih (cur ++ [m]) hcur' hfit']
      simp only [hsn, frame_snoc_length, List.map_cons, bins, hf', if_true]
      cases cur with
      | nil =>
        simp [hm]
      | cons a cur => simp
    · have hf' : ¬ (frame c cur).length + lineSize c m ≤ c.cap := hf
      cases cur with
      | nil => exfalso; apply hf; simp only [frame_nil, List.length_nil]; unfold lineSize at hm; omega
      | cons a cur =>
        have e : pack c (a :: cur) (m :: ms) = (a :: cur) :: pack c [m] ms := by
          simp only [pack, hf, if_false, List.isEmpty_cons, Bool.false_eq_true]
        have h1 : (frame c [m]).length ≤ c.cap := by
          rw [frame_single]; simpa [lineSize] using hm
        rw [e, List.length_cons, ih [m] h1 hfit']
        have hl : (frame c [m]).length = lineSize c m := by
          rw [frame_single]; simp [lineSize]
        simp only [List.isEmpty_cons, Bool.false_eq_true, if_false, List.map_cons, bins, hf', hl]
        omega

/-- every group `pack` makes fits the capacity, and the groups concatenate to the input -/
theorem pack_spec (c : Cfg α) (cur ms : List (List α))
    (hcur : (frame c cur).length ≤ c.cap) (hfit : ∀ m ∈ ms, lineSize c m ≤ c.cap) :
    (pack c cur ms).flatten = cur ++ ms ∧ ∀ g ∈ pack c cur ms, (frame c g).length ≤ c.cap ∧ g ≠ [] := by
  induction ms generalizing cur with
  | nil =>
    cases cur with
    | nil => simp [pack]
    | cons a cur =>
      simp only [pack, List.isEmpty_cons, Bool.false_eq_true, if_false, List.flatten_cons,
        List.flatten_nil, List.append_nil, List.mem_singleton, true_and]
      intro g hg; subst hg; exact ⟨hcur, by simp⟩
  | cons m ms ih =>
    have hm : lineSize c m ≤ c.cap := hfit m (by simp)
    have hfit' : ∀ x ∈ ms, lineSize c x ≤ c.cap := fun x hx => hfit x (by simp [hx])
    have h1 : (frame c [m]).length ≤ c.cap := by
      rw [frame_single]; simpa [lineSize] using hm
    by_cases hf : (frame c cur).length + (m.length + c.ending.length) ≤ c.cap
    · have hcur' : (frame c (cur ++ [m])).length ≤ c.cap := by
        rw [frame_snoc_length]; exact hf
      have e : pack c cur (m :: ms) = pack c (cur ++ [m]) ms := by simp only [pack, hf, if_true]
      rw [e]
      obtain ⟨i1, i2⟩ := ih (cur ++ [m]) hcur' hfit'
      exact ⟨by rw [i1]; simp, i2⟩
    · cases cur with
      | nil => exfalso; apply hf; simp only [frame_nil, List.length_nil]; unfold lineSize at hm; omega
      | cons a cur =>
        have e : pack c (a :: cur) (m :: ms) = (a :: cur) :: pack c [m] ms := by
          simp only [pack, hf, if_false, List.isEmpty_cons, Bool.false_eq_true]
        rw [e]
        obtain ⟨i1, i2⟩ := ih [m] h1 hfit'
        refine ⟨by rw [List.flatten_cons, i1]; simp, ?_⟩
        intro g hg
        rcases List.mem_cons.mp hg with hg | hg
        · subst hg; exact ⟨hcur, by simp⟩
        · exact i2 g hg

/-- minimality: any other in-order grouping of the same lines into non-empty groups that fit uses at
least as many groups -/
theorem pack_minimal (c : Cfg α) (hne : c.ending ≠ []) (ms : List (List α))
    (hfit : ∀ m ∈ ms, lineSize c m ≤ c.cap)
    (segs : List (List (List α))) (hflat : segs.flatten = ms)
    (hseg : ∀ g ∈ segs, (frame c g).length ≤ c.cap ∧ g ≠ []) :
    (pack c [] ms).length ≤ segs.length := by
  rw [pack_length c hne [] ms (by simp) hfit]
  simp only [List.isEmpty_nil, if_true]
  by_cases hms : ms.isEmpty = true
  · simp [hms]
  · simp only [hms]
    have hsne : segs ≠ [] := by
      intro h; apply hms; rw [← hflat, h]; rfl
    have hm := greedy_minimal c.cap (segs.map (fun g => g.map (lineSize c)))
      (by simpa using hsne)
      (by
        intro s hs
        obtain ⟨g, hg, rfl⟩ := List.mem_map.mp hs
        rw [← frame_length]; exact (hseg g hg).1)
    rw [← List.map_flatten, hflat, List.length_map] at hm
    exact hm

/-! ### the specification with an accepting socket -/

theorem deliveredGroups_cons (o : SOpObs α) (os : List (SOpObs α)) :
    deliveredGroups (o :: os) = o.atts.flatMap SAtt.groupOk ++ deliveredGroups os := by
  simp [deliveredGroups]

theorem emits_step (c : Cfg α) (p : List (List α)) (m : List α) (ms : List (List α))
    (r : Res) (p' : List (List α)) (atts : List (SAtt α))
    (hw : specWrite c p m [] = (r, p', atts, [])) :
    deliveredGroups (specOps c p ((m :: ms).map Op.emit) []).1 ++
      (if (specOps c p ((m :: ms).map Op.emit) []).2.1.isEmpty then []
       else [(specOps c p ((m :: ms).map Op.emit) []).2.1]) =
    atts.flatMap SAtt.groupOk ++
      (deliveredGroups (specOps c p' (ms.map Op.emit) []).1 ++
        (if (specOps c p' (ms.map Op.emit) []).2.1.isEmpty then []
         else [(specOps c p' (ms.map Op.emit) []).2.1])) := by
  simp only [List.map_cons, specOps, hw, deliveredGroups_cons, List.append_assoc]

/-- a corner write (only possible onto nothing pending) with a non-empty terminator: the line is
empty and the terminator alone fills the capacity -/
theorem corner_facts (c : Cfg α) (hne : c.ending ≠ []) (p : List (List α)) (m : List α)
    (hc : isCorner c p m = true) :
    p = [] ∧ m = [] ∧ c.ending.length = c.cap := by
  simp only [isCorner, Bool.and_eq_true, Bool.or_eq_true, beq_iff_eq, List.isEmpty_iff] at hc
  obtain ⟨⟨hfe, hrq⟩, hor⟩ := hc
  have hpos := ending_length_pos c hne
  have hm0 : m.length = 0 := by omega
  exact ⟨(frame_nil_iff_g c hne p).mp hfe, List.eq_nil_of_length_eq_zero hm0, by omega⟩

theorem cornerWrites_corner (c : Cfg α) (hne : c.ending ≠ []) (hel : c.ending.length = c.cap) :
    cornerWrites c ([] : List α) = [c.ending] := by
  have hpos := ending_length_pos c hne
  have h1 : ¬ (([] : List α).length ≥ c.cap) := by simp only [List.length_nil]; omega
  have h2 : c.ending.length ≥ c.cap := by omega
  simp only [cornerWrites, h1, h2, if_true, if_false, List.nil_append]

theorem directs_single_nil (q : List α) :
    directs [q] [] = (none, [⟨q, none⟩], []) := by
  simp [directs, direct]

theorem specFlush_accept (c : Cfg α) (p : List (List α)) (h : frame c p ≠ []) :
    specFlush c p [] = (.ok 0, [], [.group p none], []) := by
  have hb : (frame c p).isEmpty = false := by simpa using h
  simp [specFlush, flushBuf, hb]

/-- with an accepting socket (empty oracle = every write accepted), a run of emits of lines that fit
produces exactly the greedy packing: the groups the socket accepted, followed by the pending group -/
theorem specOps_emits_greedy (c : Cfg α) (hne : c.ending ≠ []) (ms : List (List α)) (p : List (List α))
    (hp : (frame c p).length ≤ c.cap) (hfit : ∀ m ∈ ms, lineSize c m ≤ c.cap) :
    deliveredGroups (specOps c p (ms.map Op.emit) []).1 ++
      (if (specOps c p (ms.map Op.emit) []).2.1.isEmpty then [] else [(specOps c p (ms.map Op.emit) []).2.1])
      = pack c p ms := by
  induction ms generalizing p with
  | nil =>
    simp only [List.map_nil, specOps, deliveredGroups, List.flatMap_nil, List.nil_append, pack]
  | cons m ms ih =>
    have hm : lineSize c m ≤ c.cap := hfit m (by simp)
    have hm' : ¬ (m.length + c.ending.length > c.cap) := by unfold lineSize at hm; omega
    have hfit' : ∀ x ∈ ms, lineSize c x ≤ c.cap := fun x hx => hfit x (by simp [hx])
    have hpos := ending_length_pos c hne
    have h1 : (frame c [m]).length ≤ c.cap := by
      rw [frame_single]; simpa [lineSize] using hm
    -- the packing when the open group is exactly full
    have pack_full : ∀ (cur : List (List α)) (rest : List (List α)), cur ≠ [] →
        (frame c cur).length = c.cap → pack c cur rest = cur :: pack c [] rest := by
      intro cur rest hcne hfull
      have hce : cur.isEmpty = false := by simpa using hcne
      cases rest with
      | nil => simp [pack, hce]
      | cons x rest =>
        have hnf : ¬ (frame c cur).length + (x.length + c.ending.length) ≤ c.cap := by omega
        rw [pack_nil_cons]
        simp only [pack, hnf, if_false, hce, Bool.false_eq_true]
    -- a corner write onto nothing pending
    have corner_write : ∀ (atts0 : List (SAtt α)), isCorner c [] m = true →
        (match (directs (cornerWrites c m) []).1 with | none => Res.ok m.length | some k => Res.err k,
          ([] : List (List α)), atts0 ++ (directs (cornerWrites c m) []).2.1.map (fun a => SAtt.group [m] a.err),
          (directs (cornerWrites c m) []).2.2) = (Res.ok m.length, [], atts0 ++ [SAtt.group [m] none], []) := by
      intro atts0 hc
      obtain ⟨-, hm0, hel⟩ := corner_facts c hne [] m hc
      subst hm0
      rw [cornerWrites_corner c hne hel, directs_single_nil]
      simp
    by_cases hfl : (frame c p).length + (m.length + c.ending.length) > c.cap
    · -- the pending group is flushed first
      have hfne : frame c p ≠ [] := by
        intro h; rw [h] at hfl; simp only [List.length_nil] at hfl; omega
      have hpne : p ≠ [] := fun h => hfne ((frame_nil_iff_g c hne p).mpr h)
      have hpe : p.isEmpty = false := by simpa using hpne
      have hnf : ¬ (frame c p).length + (m.length + c.ending.length) ≤ c.cap := by omega
      have epack : pack c p (m :: ms) = p :: pack c [m] ms := by
        simp only [pack, hnf, if_false, hpe, Bool.false_eq_true]
      cases hc : isCorner c [] m with
      | true =>
        have hw : specWrite c p m [] = (.ok m.length, [], [.group p none, .group [m] none], []) := by
          simp only [specWrite, hm', if_false, hfl, if_true, specFlush_accept c p hfne, hc]
          exact corner_write [.group p none] hc
        obtain ⟨-, hm0, hel⟩ := corner_facts c hne [] m hc
        rw [emits_step c p m ms _ _ _ hw, ih [] (by simp) hfit', epack,
          pack_full [m] ms (by simp) (by rw [frame_single, hm0]; simpa using hel)]
        simp [SAtt.groupOk]
      | false =>
        have hw : specWrite c p m [] = (.ok m.length, [m], [.group p none], []) := by
          simp [specWrite, hm', hfl, specFlush_accept c p hfne, hc]
        rw [emits_step c p m ms _ _ _ hw, ih [m] h1 hfit', epack]
        simp [SAtt.groupOk]
    · have hf : (frame c p).length + (m.length + c.ending.length) ≤ c.cap := by omega
      cases hc : isCorner c p m with
      | true =>
        obtain ⟨hp0, hm0, hel⟩ := corner_facts c hne p m hc
        subst hp0
        have hw : specWrite c [] m [] = (.ok m.length, [], [.group [m] none], []) := by
          simp only [specWrite, hm', if_false, hfl, hc, if_true]
          exact corner_write [] hc
        rw [emits_step c [] m ms _ _ _ hw, ih [] (by simp) hfit', pack_nil_cons,
          pack_full [m] ms (by simp) (by rw [frame_single, hm0]; simpa using hel)]
        simp [SAtt.groupOk]
      | false =>
        have hw : specWrite c p m [] = (.ok m.length, p ++ [m], [], []) := by
          simp [specWrite, hm', hfl, hc]
        have hcur' : (frame c (p ++ [m])).length ≤ c.cap := by
          rw [frame_snoc_length]; exact hf
        have epack : pack c p (m :: ms) = pack c (p ++ [m]) ms := by
          simp only [pack, hf, if_true]
        rw [emits_step c p m ms _ _ _ hw, ih (p ++ [m]) hcur' hfit', epack]
        simp

end Mlw
