import Cadence.Model.Holder
namespace Holder

@[simp] theorem upd_same (f : Nat → Thr) (t : Nat) (x : Thr) : upd f t x t = x := by simp [upd]
theorem upd_other (f : Nat → Thr) (t u : Nat) (x : Thr) (h : u ≠ t) : upd f t x u = f u := by simp [upd, h]

def Stage0 (s : St) : Prop :=
  (∃ m0, s.msgs = [m0] ∧ m0.val = UNSET) ∧ s.accesses = [] ∧ s.cellVal = none ∧ ∀ t, (s.thrs t).pc = .idle

def Stage1 (s : St) (w : Nat) : Prop :=
  (∃ m0 m1, s.msgs = [m0, m1] ∧ m0.val = UNSET ∧ m1.val = LOADING) ∧
  (∀ t, t ≠ w → (s.thrs t).pc = .idle) ∧
  (((s.thrs w).pc = .write ∧ s.accesses = [] ∧ s.cellVal = none) ∨
   ((s.thrs w).pc = .store ∧ ∃ e, s.accesses = [⟨e, w, true⟩] ∧ e ∈ (s.thrs w).seen ∧ s.cellVal = some w))

def Stage2 (s : St) (w e : Nat) : Prop :=
  (∃ m0 m1 m2 v, s.msgs = [m0, m1, m2] ∧ m0.val = UNSET ∧ m1.val = LOADING ∧ m2.val = COMPLETE ∧
      m2.view = some v ∧ e ∈ v) ∧
  s.cellVal = some w ∧
  (∀ a ∈ s.accesses, a.isWrite = true → a.eid = e) ∧
  (∀ t, (s.thrs t).pc = .idle ∨ ((s.thrs t).pc = .read ∧ e ∈ (s.thrs t).seen))

def Inv (s : St) : Prop :=
  s.raced = false ∧
  (Stage0 s ∨ (∃ w, Stage1 s w) ∨ (∃ w e, Stage2 s w e)) ∧
  (∀ t w', Result.some w' ∈ (s.thrs t).results → s.cellVal = some w') ∧
  (∀ t, Result.flag true ∈ (s.thrs t).results → s.msgs.length = 3)

theorem init_inv (progs) : Inv (init progs) := by
  refine ⟨rfl, Or.inl ⟨⟨_, rfl, rfl⟩, rfl, rfl, fun _ => rfl⟩, ?_, ?_⟩ <;> simp [init]

end Holder
