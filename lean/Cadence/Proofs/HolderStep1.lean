import Cadence.Proofs.HolderStep0
namespace Holder

/-- bookkeeping shared by all cases: results / flag part of the invariant for an updated thread
whose new results are the old ones plus `extra`. -/
theorem results_part (s : St) (t : Nat) (th' : Thr) (cell' : Option Nat) (extra : List Result)
    (hres : ∀ u w', Result.some w' ∈ (s.thrs u).results → s.cellVal = some w')
    (hth : th'.results = (s.thrs t).results ++ extra)
    (hcell : ∀ w', s.cellVal = some w' → cell' = some w')
    (hextra : ∀ w', Result.some w' ∈ extra → cell' = some w') :
    ∀ u w', Result.some w' ∈ (upd s.thrs t th' u).results → cell' = some w' := by
  intro u w' hw
  by_cases hu : u = t
  · subst hu
    simp [hth] at hw
    rcases hw with hw | hw
    · exact hcell _ (hres _ _ hw)
    · exact hextra _ hw
  · simp [upd_other _ _ _ _ hu] at hw
    exact hcell _ (hres _ _ hw)

theorem step_inv1 (s s' : St) (t i w : Nat) (h : Inv s) (h1 : Stage1 s w)
    (hs : step Ords.source s t i = some s') : Inv s' := by
  obtain ⟨hr, -, hres, hflag⟩ := h
  obtain ⟨⟨m0, m1, hm, hv0, hv1⟩, hpc, hw⟩ := h1
  have noflag : ∀ u, Result.flag true ∉ (s.thrs u).results := by
    intro u hf
    have := hflag _ hf
    simp [hm] at this
  by_cases htw : t = w
  · subst htw
    rcases hw with ⟨hpcw, hacc, hcell⟩ | ⟨hpcw, e, hacc, hes, hcell⟩
    · -- cell write
      unfold step at hs
      simp only [hpcw] at hs
      simp [hacc] at hs
      subst hs
      refine ⟨by simpa using hr, Or.inr (Or.inl ⟨t, ⟨m0, m1, hm, hv0, hv1⟩, ?_, Or.inr ⟨by simp, s.nextId, rfl, by simp, rfl⟩⟩), ?_, ?_⟩
      · intro u hu; simp [upd_other _ _ _ _ hu, hpc u hu]
      · apply results_part s t _ _ [] hres (by simp)
        · intro w' hw'; simp [hcell] at hw'
        · simp
      · intro u hf
        exfalso
        by_cases hu : u = t
        · subst hu; simp at hf; exact noflag _ hf
        · simp [upd_other _ _ _ _ hu] at hf; exact noflag _ hf
    · -- final store (Release)
      unfold step at hs
      simp only [hpcw] at hs
      simp [Ords.source, Ord.rel] at hs
      subst hs
      refine ⟨hr, Or.inr (Or.inr ⟨t, e, ?_⟩), ?_, ?_⟩
      · refine ⟨⟨m0, m1, ⟨COMPLETE, some (s.nextId :: (s.thrs t).seen)⟩, s.nextId :: (s.thrs t).seen, by simp [hm], hv0, hv1, rfl, rfl, by simp [hes]⟩, hcell, ?_, ?_⟩
        · intro a ha hw'; simp [hacc] at ha; subst ha; rfl
        · intro u
          by_cases hu : u = t
          · subst hu; simp
          · simp [upd_other _ _ _ _ hu, hpc u hu]
      · apply results_part s t _ _ [] hres (by simp) (fun _ h => h) (by simp)
      · intro _ _; simp [hm]
  · -- another thread: only loads / failing CAS are possible
    have hpct := hpc t htw
    unfold step at hs
    simp only [hpct] at hs
    have keep : ∀ (th' : Thr) (ms : List Msg), ms = [m0, m1] → th'.pc = .idle →
        Stage1 { msgs := ms, accesses := s.accesses, cellVal := s.cellVal, nextId := s.nextId + 1,
                 thrs := upd s.thrs t th', raced := s.raced } w := by
      intro th' ms hms hidle
      refine ⟨⟨m0, m1, hms, hv0, hv1⟩, ?_, ?_⟩
      · intro u hu
        by_cases hut : u = t
        · subst hut; simpa using hidle
        · simp [upd_other _ _ _ _ hut, hpc u hu]
      · simpa [upd_other _ _ _ _ (fun h => htw h.symm)] using hw
    have noflag' : ∀ (th' : Thr) (extra : List Result), th'.results = (s.thrs t).results ++ extra →
        Result.flag true ∉ extra → ∀ u, Result.flag true ∉ (upd s.thrs t th' u).results := by
      intro th' extra hth hex u hf
      by_cases hu : u = t
      · subst hu; simp [hth] at hf; rcases hf with hf | hf
        · exact noflag _ hf
        · exact hex hf
      · simp [upd_other _ _ _ _ hu] at hf; exact noflag _ hf
    split at hs
    · simp at hs
    · -- set: CAS must fail
      split at hs
      · rename_i hi
        have hi' : i = 0 ∨ i = 1 := by simp [hm] at hi; omega
        rcases hi' with rfl | rfl
        · simp [hm, hv0] at hs
        · simp [hm, hv1, LOADING, UNSET] at hs
          subst hs
          refine ⟨hr, Or.inr (Or.inl ⟨w, keep _ _ rfl (by simp [hpct])⟩), ?_, ?_⟩
          · apply results_part s t _ _ [] hres (by simp) (fun _ h => h) (by simp)
          · intro u hf; exact absurd hf (noflag' _ [] (by simp) (by simp) u)
      · simp at hs
    · -- get: cannot see COMPLETE
      split at hs
      · rename_i hi
        have hi' : i = 0 ∨ i = 1 := by simp [hm] at hi; omega
        rcases hi' with rfl | rfl
        · simp [hm, hv0, UNSET, COMPLETE] at hs
          subst hs
          refine ⟨hr, Or.inr (Or.inl ⟨w, keep _ _ rfl (by simp [hpct])⟩), ?_, ?_⟩
          · apply results_part s t _ _ [.none] hres (by simp) (fun _ h => h) (by simp)
          · intro u hf; exact absurd hf (noflag' _ [.none] (by simp) (by simp) u)
        · simp [hm, hv1, LOADING, COMPLETE] at hs
          subst hs
          refine ⟨hr, Or.inr (Or.inl ⟨w, keep _ _ rfl (by simp [hpct])⟩), ?_, ?_⟩
          · apply results_part s t _ _ [.none] hres (by simp) (fun _ h => h) (by simp)
          · intro u hf; exact absurd hf (noflag' _ [.none] (by simp) (by simp) u)
      · simp at hs
    · -- isSet
      split at hs
      · rename_i hi
        have hi' : i = 0 ∨ i = 1 := by simp [hm] at hi; omega
        rcases hi' with rfl | rfl
        · simp [hm, hv0, UNSET, COMPLETE] at hs
          subst hs
          refine ⟨hr, Or.inr (Or.inl ⟨w, keep _ _ rfl (by simp [hpct])⟩), ?_, ?_⟩
          · apply results_part s t _ _ [.flag false] hres (by simp) (fun _ h => h) (by simp)
          · intro u hf; exact absurd hf (noflag' _ [.flag false] (by simp) (by simp) u)
        · simp [hm, hv1, LOADING, COMPLETE] at hs
          subst hs
          refine ⟨hr, Or.inr (Or.inl ⟨w, keep _ _ rfl (by simp [hpct])⟩), ?_, ?_⟩
          · apply results_part s t _ _ [.flag false] hres (by simp) (fun _ h => h) (by simp)
          · intro u hf; exact absurd hf (noflag' _ [.flag false] (by simp) (by simp) u)
      · simp at hs

end Holder
