import Cadence.Model.Writer
import Cadence.Proofs.WriterLemmas
import Cadence.Proofs.WriterFraming
import Cadence.Proofs.WriterHistory
import Cadence.Proofs.WriterRefine
