/-! shared parsing helpers of the driver (no proofs depend on these) -/
namespace Drv

def hexVal (c : Char) : Nat :=
  if '0' ≤ c ∧ c ≤ '9' then c.toNat - '0'.toNat
  else if 'a' ≤ c ∧ c ≤ 'f' then c.toNat - 'a'.toNat + 10
  else 0

def unhexGo : List Char → List UInt8 → List UInt8
  | h :: l :: rest, acc => unhexGo rest (UInt8.ofNat (hexVal h * 16 + hexVal l) :: acc)
  | _, acc => acc.reverse

def unhex (s : String) : List UInt8 :=
  if s == "-" then [] else unhexGo s.toList []

def hexDigit (n : Nat) : Char :=
  if n < 10 then Char.ofNat (n + '0'.toNat) else Char.ofNat (n - 10 + 'a'.toNat)

def hex (bs : List UInt8) : String :=
  if bs.isEmpty then "-" else
  String.ofList (bs.flatMap fun b => [hexDigit (b.toNat / 16), hexDigit (b.toNat % 16)])

def splitList (s : String) (sep : String) : List String :=
  if s == "-" || s.isEmpty then [] else s.splitOn sep

def joinWith (sep : String) (xs : List String) : String := sep.intercalate xs

/-- result of one case: agreement of the property's projection, and the first failed predicate clause -/
structure Verdict where
  agree : Bool
  implProj : String
  modelProj : String
  viol : Option (String × String)   -- (property or `P1+P2+…`, clause)
  tags : List String
  malformed : Bool := false

def badCase : Verdict := ⟨false, "", "", none, [], true⟩

end Drv
