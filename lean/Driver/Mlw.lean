import Cadence.Model.Writer
import Cadence.Check.Writer
import Driver.Util
/-! driver side of engine `mlw`: parse a case, run the model, project, compare, evaluate predicates -/
namespace Drv.MlwE
open Mlw

abbrev B := UInt8

def parseOracle (s : String) : List Outcome :=
  (splitList s ",").map fun t =>
    if t == "o" then .ok
    else if t == "i" then .intr
    else .err ((t.drop 1).toString.toNat?.getD 0)

def parseRes (s : String) : Option Res :=
  if s == "panic" then some .panic
  else if s.startsWith "ok" then (s.drop 2).toString.toNat?.map Res.ok
  else if s.startsWith "err" then (s.drop 3).toString.toNat?.map Res.err
  else none

def fmtRes : Res → String
  | .ok n => s!"ok{n}"
  | .err k => s!"err{k}"
  | .panic => "panic"

def parseAtt (s : String) : Option (Attempt B) :=
  if s.endsWith "+" then some ⟨unhex (s.dropEnd 1).toString, none⟩
  else match s.splitOn "!" with
    | [h, k] => k.toNat?.map fun k => ⟨unhex h, some k⟩
    | _ => none

def fmtAtt (a : Attempt B) : String :=
  match a.err with
  | none => hex a.payload ++ "+"
  | some k => hex a.payload ++ "!" ++ toString k

def parseOpObs (s : String) : Option (OpObs B) :=
  match s.splitOn "/" with
  | [r, as] => do
    let res ← parseRes r
    let atts ← (if as.isEmpty then [] else as.splitOn ",").mapM parseAtt
    pure ⟨res, atts⟩
  | _ => none

def parseObs (s : String) : Option (List (OpObs B)) := (s.splitOn ";").mapM parseOpObs

def fmtOpObs (o : OpObs B) : String := fmtRes o.res ++ "/" ++ joinWith "," (o.atts.map fmtAtt)

def fmtObs (os : List (OpObs B)) : String := joinWith ";" (os.map fmtOpObs)

def parseOps (s : String) : List (Op B) :=
  (splitList s ",").map fun t => if t.startsWith "e" then .emit (unhex (t.drop 1).toString) else .flush

/-- what a property's correspondence compares -/
def project (prop : String) (os : List (OpObs B)) : String :=
  match prop with
  | "C05" => joinWith ";" (os.map fun o => joinWith "," (o.atts.map fmtAtt))
  | "C06" => joinWith ";" (os.map fun o => fmtRes o.res ++ "/" ++
      joinWith "," ((o.atts.filter (·.err.isNone)).map fmtAtt))
  | "C19" => joinWith ";" (os.map fun o => toString o.atts.length)
  | "C20" => joinWith ";" (os.map fun o => if o.res = .panic then "panic" else "-")
  | _ => fmtObs os

/-- model-branch labels hit by one history (for the coverage report) -/
def branchTags (c : Cfg B) (ops : List (Op B)) (orc : List Outcome) : List String :=
  let rec go (p : List (List B)) (ops : List (Op B)) (orc : List Outcome) (acc : List String) : List String :=
    match ops with
    | [] => acc
    | .flush :: rest =>
      let r := specFlush c p orc
      let t := if r.2.2.1.isEmpty then "flush-empty" else
        match r.1 with | .err _ => "flush-failed" | _ => if r.2.2.1.length > 1 then "flush-retried" else "flush-ok"
      go r.2.1 rest r.2.2.2 (t :: acc)
    | .emit m :: rest =>
      let r := specWrite c p m orc
      let req := m.length + c.ending.length
      let t :=
        if req > c.cap then (match r.1 with | .ok _ => "bypass-ok" | _ => "bypass-failed")
        else if (frame c p).length + req > c.cap then
          (match r.1 with
            | .err _ => if r.2.2.1.any (fun a => a.err.isNone) then "autoflush-then-corner-failed" else "autoflush-failed"
            | _ => if isCorner c [] m then "autoflush-then-corner" else "autoflush-ok")
        else if isCorner c p m then (match r.1 with | .ok _ => "corner-ok" | _ => "corner-failed")
        else "buffered"
      go r.2.1 rest r.2.2.2 (t :: acc)
  go [] ops orc []

/-- `w<ms>` lets time pass: it is no operation of the writer, and nothing may be written during it.
Returns the case without those ops, or the violation. -/
def stripIdle (opsS obsS : String) : Except (String × String) (String × String) :=
  let ops := splitList opsS ","
  if !ops.any (·.startsWith "w") then .ok (opsS, obsS) else
  let obs := obsS.splitOn ";"
  let paired := ops.zip obs
  if paired.any (fun (o, r) => o.startsWith "w" && r != "ok0/" && r != "ok0/#0") then
    .error ("C19", "the buffered sink wrote to the socket while no operation was in progress (time-based flush)")
  else
    let keep := paired.filter fun (o, _) => !o.startsWith "w"
    let ops' := keep.map (·.1)
    .ok (if ops'.isEmpty then "-" else joinWith "," ops', joinWith ";" (keep.map (·.2) ++ obs.drop ops.length))

/-- `err<k>!`: an error of kind k that is not the very error the socket returned -/
def stripForeign (obsS : String) : String × Bool :=
  let parts := obsS.splitOn ";"
  let foreign := parts.any fun p => ((p.splitOn "/").headD "").endsWith "!"
  (joinWith ";" (parts.map fun p => match p.splitOn "/" with
    | r :: rest => joinWith "/" ((if r.endsWith "!" then (r.dropEnd 1).toString else r) :: rest)
    | [] => p), foreign)

def runMlw (prop : String) (f : List String) (obsS : String) : Verdict :=
  match f with
  | [_, capS, endS, orcS, opsS] =>
    match stripIdle opsS obsS with
    | .error v => ⟨false, obsS, "", some v, ["idle"], false⟩
    | .ok (opsS, obsS) =>
    let (obsS, foreign) := stripForeign obsS
    if foreign then ⟨false, obsS, "", some ("C07", "an emit or flush failed with an error that is not the socket's error (same kind, different error)"), [], false⟩ else
    let c : Cfg B := ⟨capS.toNat?.getD 0, unhex endS⟩
    let orc := parseOracle orcS
    let ops := parseOps opsS
    let model := runLife c ops orc
    match parseObs obsS with
    | none => ⟨false, obsS, fmtObs model, none, [], true⟩
    | some impl =>
      let ip := project prop impl
      let mp := project prop model
      let v := match ckLife c [] ops impl with
        | .ok _ => none
        | .error e => some (e.prop, e.clause)
      ⟨ip == mp, ip, mp, v, branchTags c ops orc, false⟩
  | _ => badCase

/-! ### the buffered spy sink (and the flush delegations of StatsdClient / QueuingMetricSink) -/

structure SpySt where
  st : St B
  occ : Nat
  held : List (List B)

def spyOracle (q : Option Nat) (occ : Nat) : List Outcome :=
  match q with
  | none => []
  | some n => List.replicate (n - occ) .ok ++ List.replicate 8 (.err 15)

def okPayloads (as : List (Attempt B)) : List (List B) := (as.filter (·.err.isNone)).map (·.payload)

def fmtSeen (ps : List (List B)) : String := joinWith "," (ps.map fun p => hex p ++ "+")

def runSpyModel (c : Cfg B) (q : Option Nat) (ops : List String) : List String :=
  let rec go (s : SpySt) (ops : List String) (acc : List String) : List String :=
    match ops with
    | [] =>
      let d := mlwDrop s.st (spyOracle q s.occ)
      let oks := okPayloads d.1
      -- first the wrappers are dropped (nothing may be written), then the sink itself
      match q with
      | none => (("ok0/" ++ fmtSeen (s.held ++ oks)) :: "ok0/" :: acc).reverse
      | some _ => (("ok0/" ++ fmtSeen (s.held ++ oks)) :: s!"ok0/#{oks.length}" :: "ok0/#0" :: acc).reverse
    | t :: rest =>
      if t == "r" then
        go { s with occ := 0, held := [] } rest (("ok0/" ++ fmtSeen s.held) :: acc)
      else
        let r := if t.startsWith "e" then mlwWrite c s.st (unhex (t.drop 1).toString) (spyOracle q s.occ)
                 else mlwFlush s.st (spyOracle q s.occ)
        let oks := okPayloads r.2.2.1
        match q with
        | none => go { st := r.2.1, occ := 0, held := [] } rest ((fmtRes r.1 ++ "/" ++ fmtSeen oks) :: acc)
        | some _ =>
          go { st := r.2.1, occ := s.occ + oks.length, held := s.held ++ oks } rest
            ((fmtRes r.1 ++ s!"/#{oks.length}") :: acc)
  go ⟨⟨0, []⟩, 0, []⟩ ops []

def runSpy (prop : String) (f : List String) (obsS : String) : Verdict :=
  match f with
  | [_, capS, qS, opsS] =>
    match stripIdle opsS obsS with
    | .error v => ⟨false, obsS, "", some v, ["idle"], false⟩
    | .ok (opsS, obsS) =>
    let c : Cfg B := ⟨if capS == "d" then 512 else capS.toNat?.getD 0, [10]⟩
    let q := if qS == "u" then none else qS.toNat?
    let opsL := splitList opsS ","
    let model := joinWith ";" (runSpyModel c q opsL)
    -- predicates: only when every write is visible (unbounded receiver queue)
    let nops := opsL.length
    let wrapObs := (obsS.splitOn ";").getD nops ""
    let v : Option (String × String) :=
      if wrapObs != "ok0/" && wrapObs != "ok0/#0" && wrapObs != "" then
        some ("C19", "dropping a wrapper (client / queuing sink) around the buffered sink made it write to the socket")
      else
      if q.isSome then none else
      match parseObs (joinWith ";" (((obsS.splitOn ";").take nops) ++ ((obsS.splitOn ";").drop (nops + 1)))) with
      | none => none
      | some impl =>
        match ckLife c [] (parseOps opsS) impl with
        | .ok _ => none
        | .error e => some (e.prop, e.clause)
    let same := if prop == "C19" || prop == "C05" then
        -- results are not part of these projections
        (obsS.splitOn ";").map (fun o => (o.splitOn "/").getD 1 "") == (model.splitOn ";").map (fun o => (o.splitOn "/").getD 1 "")
      else obsS == model
    ⟨same, obsS, model, v, ["spy" ++ (if q.isSome then "-bounded" else "")], false⟩
  | _ => badCase

end Drv.MlwE
