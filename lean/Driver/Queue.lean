import Cadence.Model.QueueRun
import Cadence.Model.Queue0
import Driver.Util
/-! driver side of engine `queue` -/
namespace Drv.QueueE
open Queue

def parseOp (t : String) : Option HOp :=
  let r := (t.drop 1).toString
  if t.startsWith "e" then
    match r.splitOn ":" with
    | [h, m] => h.toNat?.map fun h => .emit h m (if m == "-" then 0 else m.length / 2)
    | _ => none
  else if t.startsWith "c" then r.toNat?.map HOp.clone
  else if t.startsWith "d" then r.toNat?.map HOp.drop
  else if t.startsWith "f" then r.toNat?.map HOp.flush
  else if t.startsWith "s" then r.toNat?.map HOp.stats
  else if t.startsWith "t" then r.toNat?.map HOp.sinkStats
  else if t == "z" then some (.fin .ok 1)
  else if t == "k" then some (.fin .ok 0)
  else if t == "p" then some (.fin .panic 0)
  else if t.startsWith "x" then r.toNat?.map fun k => .fin (.err 0) k
  else none

def parseEv (t : String) : Option HEv :=
  if t == "D" then some .dropped else if t == "F" then some .flushed else if t == "T" then some .timeout
  else if t.startsWith "E" then
    match (t.drop 1).toString.splitOn ":" with
    | [m, c] => some (.enter m (c == "w"))
    | _ => none
  else if t.startsWith "H" then
    match (t.drop 1).toString.splitOn ":" with
    | [k, tok, c] => k.toNat?.map fun k => .handled k tok (c == "w")
    | _ => none
  else none

def parseRes (t : String) : Option HRes :=
  if t == "ok" then some (.ok none) else if t == "idle" then some .idle
  else if t == "nohandle" then some .nohandle else if t == "blocked" then some .blocked
  else if t == "panic" then some .panic else if t == "skipped" then some .skipped else if t == "slow" then some .slow
  else if t.startsWith "ok" then (t.drop 2).toString.toNat?.map fun n => .ok (some n)
  else if t.startsWith "err" then (t.drop 3).toString.toNat?.map HRes.err
  else if t.startsWith "S" then
    match ((t.drop 1).toString.splitOn ".").mapM String.toNat? with
    | some [a, b, c, d] => some (.stats a b c d)
    | _ => none
  else if t.startsWith "K" then
    match ((t.drop 1).toString.splitOn ".").mapM String.toNat? with
    | some [a, b, c, d] => some (.sinkStats a b c d)
    | _ => none
  else none

def parseObs1 (t : String) : Option HObs :=
  match t.splitOn "|" with
  | [r, e] => do
    let res ← parseRes r
    let evs ← (if e == "-" then some [] else (e.splitOn ",").mapM parseEv)
    pure ⟨res, evs⟩
  | _ => none

def fmtEv : HEv → String
  | .enter m w => s!"E{m}:{if w then "w" else "c"}"
  | .handled k t w => s!"H{k}:{t}:{if w then "w" else "c"}"
  | .flushed => "F" | .dropped => "D" | .timeout => "T"

def fmtRes : HRes → String
  | .ok none => "ok" | .ok (some n) => s!"ok{n}" | .err k => s!"err{k}" | .idle => "idle"
  | .nohandle => "nohandle" | .blocked => "blocked" | .panic => "panic" | .skipped => "skipped" | .slow => "slow"
  | .stats a b c d => s!"S{a}.{b}.{c}.{d}"
  | .sinkStats a b c d => s!"K{a}.{b}.{c}.{d}"

def fmtObs1 (o : HObs) : String :=
  fmtRes o.res ++ "|" ++ (if o.evs.isEmpty then "-" else joinWith "," (o.evs.map fmtEv))

def isEmitRes : HRes → Bool
  | .ok (some _) | .err _ => true
  | _ => false

/-- what each property's correspondence compares -/
def project (prop : String) (os : List HObs) : String :=
  let evs (p : HEv → Bool) (o : HObs) := joinWith "," ((o.evs.filter p).map fmtEv)
  let per (f : HObs → String) := joinWith ";" (os.map f)
  match prop with
  | "C08" => per fun o => (if isEmitRes o.res then fmtRes o.res else "") ++ "|" ++
      evs (fun e => match e with | .enter _ _ | .timeout => true | _ => false) o
  | "C09" => per fun o => (match o.res with | .ok none => "ok" | .blocked => "blocked" | .panic => "panic" | .slow => "slow" | _ => "") ++ "|" ++
      evs (fun e => match e with | .enter _ _ | .dropped | .timeout => true | _ => false) o
  | "C10" => per fun o => (if isEmitRes o.res || o.res == .blocked || o.res == .panic then fmtRes o.res else "") ++ "|" ++
      joinWith "," ((o.evs.filterMap fun e => match e with | .enter _ w => some (if w then "w" else "c") | _ => none))
  | "C11" => per fun o => (match o.res with | .stats _ _ _ p => s!"p{p}" | _ => "") ++ "|" ++
      evs (fun e => match e with | .enter _ _ | .timeout => true | _ => false) o
  | "C15" => per fun o => (match o.res with | .stats _ _ _ _ => fmtRes o.res | r => if isEmitRes r then fmtRes r else "")
  | "C14" => per fun o => (match o.res with | .sinkStats _ _ _ _ => fmtRes o.res | _ => "")
  | "C06" => per fun o => if o.evs.contains .flushed then fmtRes o.res ++ "|F" else ""
  | "C19" => per fun o => if o.evs.contains .flushed then "F" else ""
  | "C16" => per fun o => evs (fun e => match e with | .enter _ _ | .handled _ _ _ => true | _ => false) o
  | "C20" => per fun o => if o.res == .panic then "panic" else ""
  | _ => per fmtObs1

def opTags (ops : List HOp) (os : List HObs) : List String :=
  let t1 := ops.filterMap fun
    | .fin .panic _ => some "finish-panic" | .fin (.err _) _ => some "finish-err" | .clone _ => some "clone"
    | .drop _ => some "drop" | .stats _ => some "stats" | _ => none
  let t2 := os.filterMap fun o => match o.res with
    | .err _ => some "emit-refused" | .idle => some "finish-idle" | _ => none
  let t3 := if os.any (fun o => o.evs.any (· == .dropped)) then ["released"] else []
  (t1 ++ t2 ++ t3).eraseDups

def runQueue (prop : String) (f : List String) (obsS : String) : Verdict :=
  match f with
  | [_, capS, hS, opsS] =>
    let cap := if capS == "u" then none else capS.toNat?
    let hh := hS == "1" || hS == "2"
    -- `w<ms>` is idle time: no operation of the sink; nothing may happen during it
    let opToks := splitList opsS ","
    let obsToks := obsS.splitOn ";"
    let idleBad := (opToks.zip obsToks).any fun (o, r) => o.startsWith "w" && r != "ok|-"
    let keep := (opToks.zip obsToks).filter fun (o, _) => !o.startsWith "w"
    let opToks := if opToks.any (·.startsWith "w") then keep.map (·.1) else opToks
    let obsToks := if keep.length < obsToks.length && (splitList opsS ",").any (·.startsWith "w") then keep.map (·.2) else obsToks
    if idleBad then ⟨false, obsS, "", some ("C08+C09", "while the sink was idle something happened (an event with no cause)"), ["idle"], false⟩ else
    match opToks.mapM parseOp, obsToks.mapM parseObs1 with
    | some ops, some impl =>
      let impl := if opsS == "-" then [] else impl
      let model := modelRun cap hh ops
      let ip := project prop impl
      let mp := project prop model
      let v := match ckHistory cap hh {} ops impl with
        | .ok _ => none
        | .error e => some (e.prop, e.clause)
      -- an undelivered / lost metric is a C08 and a C09 matter, and a C11 one when a panic occurred
      let hadPanic := ops.any fun o => match o with | .fin .panic _ => true | _ => false
      let also : List String := match v with
        | some (p, cl) =>
          if (cl.splitOn "never handed").length > 1 || (cl.splitOn "before every accepted").length > 1 then
            (["C08", "C09"] ++ (if hadPanic then ["C11"] else [])).filter (· != p)
          else if hadPanic && (p == "C08" || p == "C09") then ["C11"] else []
        | none => []
      let v := v.map fun (p, cl) => ("+".intercalate (p :: also), cl)
      ⟨ip == mp, ip, mp, v, opTags ops model, false⟩
    | _, _ => badCase
  | _ => badCase

/-- zero-capacity queue: outside the model; only absence of panics / blocking is checked (C20) -/
def runQueue0 (_prop : String) (f : List String) (obsS : String) : Verdict :=
  let obs := obsS.splitOn ";"
  let bad := obs.any fun o => o.startsWith "panic" || o.startsWith "blocked"
  -- a rendezvous queue holds nothing: while the worker is inside the wrapped sink no emit can be accepted
  let ops := match f with | [_, _, opsS] => splitList opsS "," | _ => []
  let over : Bool := ((ops.zip obs).foldl (fun (acc : Bool × Bool) (p : String × String) =>
      let (inside, viol) := acc
      let (op, o) := p
      let res := (o.splitOn "|").headD ""
      let evs := (o.splitOn "|").getD 1 ""
      let entered := (evs.splitOn ",").any (·.startsWith "E")
      let viol' := viol || (inside && op.startsWith "e" && res.startsWith "ok")
      let inside' := if (op == "k" || op == "z" || op == "p" || op.startsWith "x") && res == "ok" then entered else (inside || entered)
      (inside', viol')) (false, false)).2
  let v := if bad then some ("C20", "a zero-capacity queuing sink panicked or blocked a caller")
    else if over then some ("C10", "a zero-capacity queue accepted a metric while the worker was busy inside the wrapped sink (capacity exceeded)")
    else none
  -- correspondence with the rendezvous model (`Cadence.Model.Queue0`): whether an emit finds the worker
  -- waiting is a race the harness does not steer, so a refusal is taken from the implementation; everything
  -- else (an acceptance only when the model's worker waits, deliveries, release, counters) is the model's
  let hh := match f with | [_, hS, _] => hS == "1" || hS == "2" | _ => false
  let keep := (ops.zip obs).filter fun (o, _) => !o.startsWith "w"
  match (keep.map (·.1)).mapM parseOp, (keep.map (·.2)).mapM parseObs1 with
  | some hops, some impl =>
    if bad || hops.length != impl.length then ⟨true, "", "", v, ["queue-capacity-0"], false⟩ else
    let refused := impl.map fun o => match o.res with | .err _ => true | _ => false
    let model := Queue0.modelRun hh (hops.zip refused)
    let ip := project _prop impl
    let mp := project _prop model
    -- the property predicates, which are capacity-agnostic apart from the capacity / refusal clauses of the
    -- emit (capacity 0: the `over` clause above): run with "no limit", refused emits left out
    let v := match v with
      | some x => some x
      | none =>
        -- a refusal is legitimate at capacity 0 whenever the worker is not waiting (not steered by the
        -- harness) and changes nothing: such emits are left out before the predicates run
        let kept := (hops.zip impl).filter fun (op, o) => match op, o.res with
          | .emit _ _ _, .err _ => !o.evs.isEmpty
          | _, _ => true
        match ckHistory none hh {} (kept.map (·.1)) (kept.map (·.2)) with
        | .ok _ => none
        | .error e => some (e.prop, "capacity 0: " ++ e.clause)
    let tags := ["queue-capacity-0"] ++ (opTags hops model).map (· ++ "-cap0") ++
      (if model.any (fun o => match o.res with | .ok (some _) => true | _ => false) then ["accepted-cap0"] else [])
    ⟨ip == mp, ip, mp, v, tags, false⟩
  | _, _ => ⟨true, "", "", v, ["queue-capacity-0"], false⟩

def runStress (_prop : String) (_f : List String) (obsS : String) : Verdict :=
  if obsS == "ok" then ⟨true, "ok", "ok", none, ["stress"], false⟩
  else
    let p := if obsS.startsWith "wrapped-sink" then "C09" else if obsS.startsWith "queued" || obsS.startsWith "submitted" then "C15"
             else if obsS.startsWith "refused" then "C10" else "C08"
    let also := if obsS.startsWith "queued-panicked" then ["C20"] else []
    ⟨true, obsS, obsS, some ("+".intercalate (p :: also), "free-running producers: " ++ obsS), ["stress"], false⟩

def runBurst (_prop : String) (_f : List String) (obsS : String) : Verdict :=
  if obsS == "ok" then ⟨true, "ok", "ok", none, ["burst"], false⟩
  else ⟨true, obsS, obsS, some ("C10", "concurrent producers against a blocked wrapped sink: " ++ obsS), ["burst"], false⟩

def runDropRace (_prop : String) (_f : List String) (obsS : String) : Verdict :=
  if obsS == "ok" then ⟨true, "ok", "ok", none, ["drop-race"], false⟩
  else ⟨true, obsS, obsS, some ("C09+C08", "concurrent drops of the last handles: " ++ obsS), ["drop-race"], false⟩

def runFirst (_prop : String) (_f : List String) (obsS : String) : Verdict :=
  if obsS == "ok" then ⟨true, "ok", "ok", none, ["first-emits-together"], false⟩
  else ⟨true, obsS, obsS, some ("C08+C10", "first emits on a fresh sink from several handles at once: " ++ obsS), ["first-emits-together"], false⟩

def runNoThread (_prop : String) (_f : List String) (obsS : String) : Verdict :=
  if obsS.startsWith "accepted-a-metric" then
    ⟨true, obsS, obsS, some ("C08+C11", "the worker thread could not be created: " ++ obsS), ["no-worker-thread"], false⟩
  else ⟨true, obsS, obsS, none, ["no-worker-thread-" ++ (if obsS == "constructor-failed-loudly" then "loud" else "inconclusive")], false⟩

def runUnwind (_prop : String) (_f : List String) (obsS : String) : Verdict :=
  if obsS == "ok" then ⟨true, "ok", "ok", none, ["last-drop-by-unwinding"], false⟩
  else ⟨true, obsS, obsS, some ("C09+C08", "last handle dropped by a panicking owner: " ++ obsS), ["last-drop-by-unwinding"], false⟩

def runDeep (_prop : String) (_f : List String) (obsS : String) : Verdict :=
  if obsS == "ok" then ⟨true, "ok", "ok", none, ["deep-unbounded"], false⟩
  else ⟨true, obsS, obsS, some ("C10", "an unbounded queue with a parked worker: " ++ obsS), ["deep-unbounded"], false⟩

def runStop0 (_prop : String) (_f : List String) (obsS : String) : Verdict :=
  if obsS == "ok" then ⟨true, "ok", "ok", none, ["capacity-0-last-drop"], false⟩
  else if (obsS.splitOn "no-emit-was-accepted").length > 1 then
    ⟨true, obsS, obsS, some ("C10", "a zero-capacity queuing sink whose worker waits for a metric: " ++ obsS), ["capacity-0-last-drop"], false⟩
  else ⟨true, obsS, obsS, some ("C09+C08", "the last handle of a zero-capacity queuing sink dropped while the worker returns to recv(): " ++ obsS), ["capacity-0-last-drop"], false⟩

def runEmitDrop (_prop : String) (_f : List String) (obsS : String) : Verdict :=
  if obsS == "ok" then ⟨true, "ok", "ok", none, ["emit-then-last-drop"], false⟩
  else ⟨true, obsS, obsS, some ("C09+C08", "emit immediately followed by the last drop: " ++ obsS), ["emit-then-last-drop"], false⟩

def runLatency (_prop : String) (_f : List String) (obsS : String) : Verdict :=
  if obsS == "ok" then ⟨true, "ok", "ok", none, ["latency"], false⟩
  else ⟨true, obsS, obsS, some ("C10", "emit did not return promptly: " ++ obsS), ["latency"], false⟩

end Drv.QueueE
