import Cadence.Model.Sinks
import Cadence.Check.Writer
import Driver.Util
import Driver.Mlw
/-! driver side of engine `sock` -/
namespace Drv.SockE
open Mlw Sinks

abbrev B := UInt8

def fnv (p : List B) : UInt64 :=
  p.foldl (fun h b => (h ^^^ b.toUInt64) * 0x100000001b3) 0xcbf29ce484222325

def hex16 (x : UInt64) : String :=
  String.ofList ((List.range 16).reverse.map fun i => hexDigit ((x >>> (4 * i).toUInt64).toNat % 16))

def dgrepr (p : List B) : String :=
  if p.length ≤ 256 then hex p else s!"L{p.length}h{hex16 (fnv p)}"

def genMetric (len : Nat) : List B := (List.range len).map fun i => (97 + i % 26).toUInt8

structure SSt where
  st : St B := ⟨0, []⟩
  stats : Stats := {}
  inflight : List (List B) := []    -- accepted datagrams the peer has not read yet
  received : List (List B) := []   -- everything the peer has read (ground truth for C14)

def parseResKind (r : String) : Option Nat :=
  if r.startsWith "err" then (r.drop 3).toString.toNat? else none

/-- one op on the model; returns (state, model obs string, attempts (for predicates)) -/
def modelOp (buffered gone : Bool) (c : Cfg B) (auto : Bool) (s : SSt) (op : String) (implRes : String) (dsent : Nat) :
    SSt × String :=
  let oracle : List Outcome :=
    if gone then List.replicate 4 (.err 0)
    else List.replicate dsent .ok ++ (match parseResKind implRes with | some k => [.err k] | none => []) ++ List.replicate 2 (.err 98)
  let fin (s : SSt) (res : String) (atts : List (Attempt B)) (st' : St B) (drainNow : Bool) : SSt × String :=
    let stats' := s.stats.updateAll (attemptStats atts)
    let oks := (atts.filter (·.err.isNone)).map (·.payload)
    let ds := stats'.packetsSent - s.stats.packetsSent
    let dd := stats'.packetsDropped - s.stats.packetsDropped
    let infl := s.inflight ++ oks
    let (out, infl', recv') := if drainNow then (infl, [], s.received ++ infl) else ([], infl, s.received)
    ({ st := st', stats := stats', inflight := infl', received := recv' },
     s!"{res}/{ds}.{dd}/" ++ (if out.isEmpty then "~" else joinWith "," (out.map dgrepr)))
  if op.startsWith "e" || op.startsWith "g" then
    let m := if op.startsWith "e" then unhex (op.drop 1).toString else genMetric ((op.drop 1).toString.toNat?.getD 0)
    if buffered then
      let r := mlwWrite c s.st m oracle
      fin s (MlwE.fmtRes r.1) r.2.2.1 r.2.1 auto
    else
      let r := unbufferedEmit m oracle
      fin s (MlwE.fmtRes r.1) r.2.1 s.st auto
  else if op == "f" then
    if buffered then
      let r := mlwFlush s.st oracle
      fin s (MlwE.fmtRes r.1) r.2.2.1 r.2.1 auto
    else fin s "ok0" [] s.st auto
  else if op == "s" || op == "q" then
    fin s s!"S{s.stats.bytesSent}.{s.stats.packetsSent}.{s.stats.bytesDropped}.{s.stats.packetsDropped}" [] s.st auto
  else if op == "r" then fin s "ok0" [] s.st true
  else if op == "R" then fin s "ok0" [] s.st auto
  else (s, "badop")

def parseDs (t : String) : Nat × Nat :=
  match t.splitOn "." with
  | [a, b] => (a.toNat?.getD 0, b.toNat?.getD 0)
  | _ => (0, 0)

structure Viol where
  prop : String
  clause : String

/-- property-driven checks on the implementation's observation of one op (ground truth: what the
peer socket actually read) -/
def ckOp (buffered : Bool) (op : String) (res : String) (ds dd : Nat) (dgs : List String) (auto : Bool)
    (accSent accDropped : Nat × Nat) (seen : List String) : Option Viol :=
  if res == "panic" then some ⟨"C20", "a socket sink call panicked"⟩ else
  if res == "blocked" then some ⟨"C13", "a socket sink call did not return (blocked for 3 s on a socket whose peer keeps reading)"⟩ else
  if buffered && (op.startsWith "e" || op.startsWith "g") && res.startsWith "ok" &&
      res ≠ s!"ok{(if op.startsWith "e" then (unhex (op.drop 1).toString).length else (op.drop 1).toString.toNat?.getD 0)}" then
    some ⟨"C06+C05+C13+C07", "a buffered emit acknowledged a byte count other than the metric's length (a truncated or partial send)"⟩ else
  if buffered && res.startsWith "ok" && dd > 0 then
    some ⟨"C06+C07+C12", "the call returned Ok although a send attempted during it was refused by the socket"⟩ else
  if !buffered && (op.startsWith "e" || op.startsWith "g") then
    let m := if op.startsWith "e" then unhex (op.drop 1).toString else genMetric ((op.drop 1).toString.toNat?.getD 0)
    if ds + dd ≠ 1 then some ⟨"C13+C14", "an unbuffered emit did not make exactly one send attempt (or did not count it)"⟩
    else if res.startsWith "ok" then
      if res ≠ s!"ok{m.length}" then some ⟨"C13", "emit returned a byte count other than the metric's length"⟩
      else if auto && dgs ≠ [dgrepr m] then some ⟨"C13", "the datagram on the wire is not exactly the metric's bytes"⟩
      else if ds ≠ 1 then some ⟨"C14", "an accepted emit was not counted as sent"⟩ else none
    else if auto && !dgs.isEmpty then some ⟨"C13", "emit reported an error but a datagram was sent"⟩
    else if dd ≠ 1 then some ⟨"C14", "a refused emit was not counted as dropped"⟩ else none
  else if res.startsWith "S" then
    match ((res.drop 1).toString.splitOn ".").mapM String.toNat? with
    | some [bs, ps, bd, pd] =>
      if ps ≠ accSent.2 ∨ pd ≠ accDropped.2 then some ⟨"C14", "packet counters do not add up to the send attempts made"⟩
      else if auto && ps ≠ seen.length then some ⟨"C14", "packets_sent differs from the number of datagrams the socket accepted"⟩
      else if auto && bs ≠ accSent.1 then some ⟨"C14", "bytes_sent differs from the total size of the accepted datagrams"⟩
      else if !buffered && bd ≠ accDropped.1 then some ⟨"C14", "bytes_dropped differs from the total size of the refused emits"⟩
      else none
    | _ => some ⟨"C14", "stats could not be read"⟩
  else none

def dgLen (d : String) : Nat :=
  if d.startsWith "L" then ((d.drop 1).toString.splitOn "h").head!.toNat?.getD 0
  else if d == "-" then 0 else d.length / 2

def runSock (prop : String) (f : List String) (obsS : String) : Verdict :=
  match f with
  | [_, kind, capS, _nb, drainS, opsS] =>
    let buffered := kind.startsWith "b"
    let gone := kind.endsWith "gone"
    let c := bufferedCfg (if capS == "d" || capS == "-" then none else capS.toNat?)
    let auto := drainS == "a"
    let ops := splitList opsS ","
    -- `err<k>!`: the sink returned an error that is not an OS error, i.e. not the socket's own error
    let foreign := (obsS.splitOn ";").any fun o => ((o.splitOn "/").headD "").endsWith "!"
    if foreign then
      ⟨false, obsS, "", some (if buffered then "C07+C13" else "C13", "the sink failed with an error that is not the socket's error (rebuilt: errno lost)"), [kind], false⟩ else
    if (obsS.splitOn ";").any (·.startsWith "decreased") then
      ⟨false, obsS, "", some ("C14", "a counter of the sink decreased (send attempts and their sizes only ever add up)"), [kind], false⟩ else
    -- a receiver that starts late (`…late`): from its first `R` on it is bound and drained after every call, so
    -- every emit and flush must succeed
    let lateBad : Bool := kind.endsWith "late" && (
      let paired := ops.zip (obsS.splitOn ";")
      let after := (paired.dropWhile fun (o, _) => o != "R").drop 1
      after.any fun (o, r) => (o.startsWith "e" || o == "f") && !(((r.splitOn "/").headD "").startsWith "ok"))
    if lateBad then
      ⟨false, obsS, "", some ("C13+C14", "the receiver is bound and drained, yet an emit / flush was reported as failed (was the send attempted at all?)"), [kind], false⟩ else
    let obs := obsS.splitOn ";"
    if obs.length ≠ ops.length + 2 && !(obs.any (·.startsWith "stuck")) then badCase else
    let rec go (s : SSt) (ops obs : List String) (mo io : List String) (v : Option Viol)
        (accS accD : Nat × Nat) (seen : List String) (opsRun : List (Op B)) (implObs : List (OpObs B)) (clean : Bool) :
        (SSt × List String × List String × Option Viol × List String × List (Op B) × List (OpObs B) × Bool) :=
      match ops, obs with
      | op :: ops', o :: obs' =>
        match o.splitOn "/" with
        | [res, dsd, dgS] =>
          let (ds, dd) := parseDs dsd
          let dgs := if dgS == "~" then [] else dgS.splitOn ","
          let (s', m) := modelOp buffered gone c auto s op res ds
          -- sizes of refused unbuffered emits are the metric's length
          let mlen := if op.startsWith "e" then (unhex (op.drop 1).toString).length else if op.startsWith "g" then (op.drop 1).toString.toNat?.getD 0 else 0
          let accS' := (accS.1 + (dgs.map dgLen).foldl (· + ·) 0, accS.2 + ds)
          let accD' := (accD.1 + (if !buffered && dd == 1 then mlen else 0), accD.2 + dd)
          let seen' := seen ++ dgs
          let v' := match v with
            | some x => some x
            | none => ckOp buffered op res ds dd dgs auto accS' accD' seen'
          -- reconstruct the writer-level observation for the framing / conservation checker
          let isEmit := op.startsWith "e" || op.startsWith "g"
          let wop : Option (Op B) := if isEmit then some (.emit (if op.startsWith "e" then unhex (op.drop 1).toString else genMetric ((op.drop 1).toString.toNat?.getD 0)))
            else if op == "f" then some .flush else none
          let big := dgs.any (·.startsWith "L")
          let wres : Option Res := MlwE.parseRes res
          let (opsRun', implObs') := match wop, wres with
            | some w, some r => (opsRun ++ [w], implObs ++ [⟨r, dgs.map fun d => ⟨unhex d, none⟩⟩])
            | _, _ => (opsRun, implObs)
          go s' ops' obs' (m :: mo) (o :: io) v' accS' accD' seen' opsRun' implObs' (clean && dd == 0 && !big && auto)
        | _ => (s, mo, io, some ⟨"C20", "malformed observation"⟩, seen, opsRun, implObs, false)
      | _, _ => (s, mo, io, v, seen, opsRun, implObs, clean)
    let (s1, mo, io, v, _seen, opsRun, implObs, clean) := go {} ops obs [] [] none (0, 0) (0, 0) [] [] [] true
    -- closing sequence: peer drains; sink dropped; peer drains
    let closing := obs.drop ops.length
    let pre := s!"ok0/0.0/" ++ (if s1.inflight.isEmpty then "~" else joinWith "," (s1.inflight.map dgrepr))
    let d := if buffered then (mlwDrop s1.st (if gone then [.err 0] else [])).1 else []
    let doks := (d.filter (·.err.isNone)).map (·.payload)
    let post := "ok0/x.x/" ++ (if doks.isEmpty then "~" else joinWith "," (doks.map dgrepr))
    let mAll := joinWith ";" (mo.reverse ++ [pre, post])
    let iAll := joinWith ";" (io.reverse ++ closing)
    -- C05/C06 on the datagrams actually received (only when every write was visible and accepted)
    let decoyHit := closing.any fun x => x.startsWith "decoy"
    let v2 : Option Viol := match v with
      | some x => some x
      | none =>
        if decoyHit then some ⟨"C13", "datagrams were sent to an address other than the first one the given address resolves to"⟩ else
        if buffered && clean && !gone && !(closing.any fun x => (x.splitOn "/").any fun y => (y.splitOn ",").any (·.startsWith "L")) then
          let dropObs : OpObs B := match closing with
            | [_, dp] => (match dp.splitOn "/" with
                | [_, _, dgS] => ⟨.ok 0, (if dgS == "~" then [] else dgS.splitOn ",").map fun x => ⟨unhex x, none⟩⟩
                | _ => ⟨.ok 0, []⟩)
            | _ => ⟨.ok 0, []⟩
          match ckLife c [] opsRun (implObs ++ [dropObs]) with
          | .ok _ => none
          | .error e => some ⟨if e.prop == "C05" || e.prop == "C06" then "C13+" ++ e.prop else e.prop, "on the wire: " ++ e.clause⟩
        else none
    let proj (x : String) : String :=
      match prop with
      | "C14" => joinWith ";" ((x.splitOn ";").map fun o => match o.splitOn "/" with
          | [r, d, _] => (if r.startsWith "S" then r else "") ++ "/" ++ d
          | _ => o)
      | "C13" | "C05" => joinWith ";" ((x.splitOn ";").map fun o => match o.splitOn "/" with
          | [r, _, g] => (if r.startsWith "S" then "" else r) ++ "/" ++ g
          | _ => o)
      | "C19" => joinWith ";" ((x.splitOn ";").map fun o => match o.splitOn "/" with
          | [_, _, g] => if g == "~" then "0" else toString (g.splitOn ",").length
          | _ => o)
      | _ => x
    ⟨proj iAll == proj mAll, proj iAll, proj mAll, v2.map (fun e => (e.prop, e.clause)),
      [kind, if auto then "drain-auto" else "drain-manual"] ++ (if clean then [] else ["with-refusals-or-large"]), false⟩
  | _ => badCase

/-! ### multi-threaded runs (C12, C14 under concurrency) -/

def splitLines (p : List B) : List (List B) :=
  -- pieces between '\n'; a trailing '\n' yields a final empty piece, which is dropped
  let rec go (p : List B) (cur : List B) (acc : List (List B)) : List (List B) :=
    match p with
    | [] => (if cur.isEmpty then acc else cur.reverse :: acc).reverse
    | b :: bs => if b == 10 then go bs [] (cur.reverse :: acc) else go bs (b :: cur) acc
  go p [] []

def parseTid (l : List B) : Option (Nat × Nat) :=
  -- t<thread>.<seq>.
  match (String.ofList (l.map fun b => Char.ofNat b.toNat)).splitOn "." with
  | t :: i :: _ => do
    let tid ← ((t.drop 1).toString.toNat?)
    let seq ← i.toNat?
    pure (tid, seq)
  | _ => none

def runMt (_prop : String) (f : List String) (obsS : String) : Verdict :=
  match f, obsS.splitOn "|" with
  | [_, kind, capS, thrS, perS, flS], [summary, statsS, dgS] =>
    let cap := capS.toNat?.getD 64
    let threads := thrS.toNat?.getD 0
    let per := perS.toNat?.getD 0
    let c : Cfg B := ⟨cap, [10]⟩
    let dgs := if dgS == "-" then [] else (dgS.splitOn ",").map unhex
    let fail (p cl : String) : Verdict := ⟨true, obsS.take 200 |>.toString, "", some (p, cl), ["mt-" ++ kind], false⟩
    let badN : Nat := (((summary.drop 3).toString.splitOn ".").headD "0").toNat?.getD 0
    if badN ≥ 1000000 then
      fail "C12+C20" "a sink call panicked under concurrency (poisoned lock or arithmetic)" else
    if !summary.startsWith "bad0." then fail "C12" "an emit or flush failed or returned a wrong byte count under concurrency" else
    if kind == "unix" then
      -- unbuffered sink: one datagram per emit, stats exact under concurrency (C14)
      let ids := dgs.filterMap parseTid
      if ids.length ≠ dgs.length ∨ ids.length ≠ threads * per ∨ ids.eraseDups.length ≠ ids.length then
        fail "C13" "unbuffered sink under concurrency: datagrams are not exactly the emitted metrics, once each"
      else if statsS ≠ s!"S{(dgs.map List.length).foldl (· + ·) 0}.{dgs.length}.0.0" then
        fail "C14" "socket stats are not exact under concurrent emitters"
      else ⟨true, "", "", none, ["mt-unix-unbuffered"], false⟩
    else
    -- framing of every datagram
    let framed := dgs.all fun d =>
      (d.getLast? == some 10 && d.length ≤ cap) || (!d.contains 10 && d.length + 1 > cap)
    if !framed then fail "C12" "a datagram of the combined stream is not whole lines within capacity / a lone oversize metric" else
    let lines := dgs.flatMap splitLines
    let ids := lines.filterMap parseTid
    if ids.length ≠ lines.length then fail "C12" "a line of the combined stream is not a metric that was emitted" else
    let lossy := kind == "budp" && ids.length < threads * per   -- the kernel may drop loopback UDP under load: not concluded from
    if ids.length ≠ threads * per && !lossy then fail "C12" "acknowledged metrics are missing from or duplicated in the combined stream" else
    if ids.eraseDups.length ≠ ids.length then fail "C12" "a metric appears twice in the combined stream" else
    -- per-thread program order of buffered metrics
    let buffered := (lines.zip ids).filter fun (l, _) => l.length + 1 ≤ cap
    let ordered := (List.range threads).all fun t =>
      let seqs := (buffered.filter fun (_, id) => id.1 == t).map fun (_, id) => id.2
      seqs.zip (seqs.drop 1) |>.all fun (a, b) => a < b
    if !ordered then fail "C12" "a thread's buffered metrics left out of its program order" else
    -- stats exact under concurrency (socket-backed sink)
    let statsOk := kind != "bunix" || statsS == s!"S{(dgs.map List.length).foldl (· + ·) 0}.{dgs.length}.0.0"
    if !statsOk then fail "C14" "socket stats are not exact under concurrent emitters" else
    -- every emit returned Ok: whatever the kernel lost afterwards, the sink itself must have sent every
    -- acknowledged byte and dropped nothing (its own accounting)
    let mlen (t i : Nat) : Nat := max (6 + (t * 5) % 23) (3 + (toString t).length + (toString i).length)
    let expBytes : Nat := (List.range threads).foldl (fun acc t => (List.range per).foldl (fun a i =>
      let l := mlen t i
      a + (if l + 1 ≤ cap then l + 1 else l)) acc) 0
    let sentOk : Bool := kind != "budp" || (match ((statsS.drop 1).toString.splitOn ".").map String.toNat? with
      | [some b, some p, some bd, some pd] => b == expBytes && bd == 0 && pd == 0 && p ≥ dgs.length
      | _ => false)
    if !sentOk then fail "C12+C14" "every emit was acknowledged, yet the sink's own counters show bytes it never sent (or dropped)" else
    -- flush-free runs: the datagram boundaries are the model's for the observed linearisation
    if flS == "0" && !lossy then
      let bl := buffered.map (·.1)
      let model := (specLife c (bl.map Op.emit) []).flatMap fun o => o.atts.filterMap fun a =>
        match a with | .group ms none => some (frame c ms) | _ => none
      let implB := dgs.filter fun d => d.getLast? == some 10 && d.length ≤ cap
      ⟨model == implB, s!"{implB.length} buffered datagrams", s!"{model.length} buffered datagrams", none, ["mt-" ++ kind, "mt-linearised"], false⟩
    else ⟨true, "", "", none, ["mt-" ++ kind, "mt-with-flushes"], false⟩
  | _, _ => badCase

/-- ECONNREFUSED injection: the kernel refused some sends of the control socket, so it refused sends
of the sink's identically prepared socket too; the sink must have reported and counted refusals -/
def runCr (_prop : String) (_f : List String) (obsS : String) : Verdict :=
  if obsS.startsWith "redirected" then
    ⟨true, obsS, obsS, some ("C13", "after a refusal the sink sent to the second address of the list it was built from: " ++ obsS), ["conn-refused"], false⟩ else
  match obsS.splitOn " " with
  | [sinkS, ctlS] =>
    let nums := ((sinkS.drop 4).toString.splitOn ".").map fun x => x.toNat?.getD 0
    let errs := nums.getD 0 0
    let dropped := nums.getD 1 0
    let refused := (ctlS.drop 3).toString.toNat?.getD 0
    if refused ≥ 2 && errs == 0 then
      ⟨true, obsS, obsS, some ("C07+C13", "the kernel refused sends (ECONNREFUSED on the control socket) but no emit reported the socket's error"), ["conn-refused"], false⟩
    else if refused ≥ 2 && dropped == 0 then
      ⟨true, obsS, obsS, some ("C14", "the kernel refused sends (ECONNREFUSED on the control socket) but no refused send was counted"), ["conn-refused"], false⟩
    else ⟨true, obsS, obsS, none, [if refused ≥ 2 then "conn-refused" else "conn-refused-not-reproduced"], false⟩
  | _ => ⟨true, obsS, obsS, none, ["conn-refused-setup-failed"], false⟩

/-- more than 4 GiB through one sink: the counters are true totals (C14) -/
def runBig (_prop : String) (_f : List String) (obsS : String) : Verdict :=
  if obsS == "ok" then ⟨true, "ok", "ok", none, ["more-than-4GiB"], false⟩
  else if obsS == "setup-failed" then ⟨true, obsS, obsS, none, ["more-than-4GiB-setup-failed"], false⟩
  else ⟨true, obsS, obsS, some (if obsS == "panic" then "C14+C20" else "C14", "long history on one sink: " ++ obsS), ["more-than-4GiB"], false⟩

/-- send attempts as the kernel saw them (strace) against the sink's counters (C14) -/
def runStrace (_prop : String) (_f : List String) (obsS : String) : Verdict :=
  if obsS == "ok" then ⟨true, "ok", "ok", none, ["attempts-by-strace"], false⟩
  else if obsS == "strace-unavailable" then ⟨true, obsS, obsS, none, ["strace-unavailable"], false⟩
  else ⟨true, obsS, obsS, some ("C14", "send attempts counted by the kernel differ from the sink's counters: " ++ obsS), ["attempts-by-strace"], false⟩

/-- emit + flush on one thread against flushing threads: the emitter's metric is on the wire once its flush returned -/
def runFlushRace (_prop : String) (_f : List String) (obsS : String) : Verdict :=
  if obsS == "ok" then ⟨true, "ok", "ok", none, ["flush-race"], false⟩
  else if obsS == "setup-failed" then ⟨true, obsS, obsS, none, ["flush-race-setup-failed"], false⟩
  else ⟨true, obsS, obsS, some ("C12+C06+C13", "concurrent flushes: " ++ obsS), ["flush-race"], false⟩

/-- UDP sink constructors on an empty address list: `InvalidInput`, no panic, no sink -/
def runCtor (_prop : String) (_f : List String) (obsS : String) : Verdict :=
  if obsS == "inv,inv,inv" then ⟨true, obsS, obsS, none, ["ctor-empty-address-list"], false⟩
  else if obsS == "setup-failed" then ⟨true, obsS, obsS, none, ["ctor-setup-failed"], false⟩
  else ⟨false, obsS, "inv,inv,inv", some (if (obsS.splitOn "panic").length > 1 then "C20+C13" else "C13", "a UDP sink constructor given an address that resolves to nothing: " ++ obsS), ["ctor-empty-address-list"], false⟩

def runLock (_prop : String) (_f : List String) (obsS : String) : Verdict :=
  if obsS == "ok" then ⟨true, "ok", "ok", none, ["lock-contention"], false⟩
  else if obsS == "ok-not-blocked" then ⟨true, "ok", "ok", none, ["lock-contention-not-set-up"], false⟩
  else
    -- a flush that returns while data it should have written is still buffered is a C06 matter as well
    let p := if (obsS.splitOn "flush").length > 1 then "C12+C06+C13" else "C12"
    ⟨true, obsS, obsS, some (p, "lock contention scenario: " ++ obsS), ["lock-contention"], false⟩

end Drv.SockE
