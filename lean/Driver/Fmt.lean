import Cadence.Model.Client
import Cadence.Check.Format
import Driver.Util
/-! driver side of engine `fmt` -/
namespace Drv.FmtE
open Fmt

def parseF64Tok (t : String) : Option FloatTok :=
  -- f<16 hex>=<text>
  if !t.startsWith "f" then none else
  match (t.drop 1).toString.splitOn "=" with
  | [h, txt] =>
    let bits := h.toList.foldl (fun acc c => acc * 16 + hexVal c) 0
    some ⟨bits, txt.toUTF8.toList⟩
  | _ => none

def parseDur (t : String) : Option (Nat × Nat) :=
  match t.splitOn "s" with
  | [a, b] => do
    let s ← a.toNat?
    let n ← b.toNat?
    pure (s, n)
  | _ => none

def listToks (t : String) : List String := if t == "[]" then [] else t.splitOn "_"

def entryOf (s : String) : Option Entry :=
  match s with
  | "count_i64" => some .count_i64 | "count_i32" => some .count_i32 | "count_u64" => some .count_u64
  | "count_u32" => some .count_u32 | "incr" => some .incr | "decr" => some .decr
  | "time_u64" => some .time_u64 | "time_dur" => some .time_dur | "time_vu64" => some .time_vu64
  | "time_vdur" => some .time_vdur | "gauge_u64" => some .gauge_u64 | "gauge_f64" => some .gauge_f64
  | "meter_u64" => some .meter_u64 | "hist_u64" => some .hist_u64 | "hist_f64" => some .hist_f64
  | "hist_dur" => some .hist_dur | "hist_vu64" => some .hist_vu64 | "hist_vf64" => some .hist_vf64
  | "hist_vdur" => some .hist_vdur | "dist_u64" => some .dist_u64 | "dist_f64" => some .dist_f64
  | "dist_vu64" => some .dist_vu64 | "dist_vf64" => some .dist_vf64 | "set_i64" => some .set_i64
  | _ => none

def parseArg (e : Entry) (t : String) : Option Arg :=
  match e with
  | .incr | .decr => some .none
  | .count_i64 | .set_i64 => t.toInt?.map Arg.i64
  | .count_i32 => t.toInt?.map Arg.i32
  | .count_u32 => t.toNat?.map Arg.u32
  | .count_u64 | .time_u64 | .gauge_u64 | .meter_u64 | .hist_u64 | .dist_u64 => t.toNat?.map Arg.u64
  | .gauge_f64 | .hist_f64 | .dist_f64 => (parseF64Tok t).map Arg.f64
  | .time_dur | .hist_dur => (parseDur t).map fun d => Arg.dur d.1 d.2
  | .time_vu64 | .hist_vu64 | .dist_vu64 => ((listToks t).mapM String.toNat?).map Arg.vu64
  | .hist_vf64 | .dist_vf64 => ((listToks t).mapM parseF64Tok).map Arg.vf64
  | .time_vdur | .hist_vdur => ((listToks t).mapM parseDur).map Arg.vdur

def parseBOp (t : String) : Option BOp :=
  let r := (t.drop 1).toString
  if t.startsWith "T" then
    match r.splitOn ":" with
    | [k, v] => some (.tag (unhex k) (unhex v))
    | _ => none
  else if t.startsWith "V" then some (.tagv (unhex r))
  else if t.startsWith "C" then some (.cid (unhex r))
  else if t.startsWith "S" then r.toNat?.map BOp.ts
  else if t.startsWith "R" then (parseF64Tok r).map BOp.rate
  else none

def parseBOps (t : String) : Option (List BOp) := if t == "-" then some [] else (t.splitOn "+").mapM parseBOp

def parseTags (t : String) : Option (List Tag) :=
  if t == "-" then some [] else
  (t.splitOn ",").mapM fun x =>
    if x.startsWith "~" then some ⟨none, unhex (x.drop 1).toString⟩
    else match x.splitOn ":" with
      | [k, v] => some ⟨some (unhex k), unhex v⟩
      | _ => none

def parseErr (t : String) : Option ErrRepr :=
  if t == "inv" then some .inv else
  match t.splitOn ":" with
  | ["io", "os", tok] =>
    -- an OS error: identified by its errno; "kind" 200 + errno
    let n := tok.toNat?.getD 0
    some (.io (200 + (n - 1000000)) n)
  | ["io", k, tok] =>
    -- an error the scripted sink did not make has no numeric token: it can never equal an expected one
    some (.io (k.toNat?.getD 99) (tok.toNat?.getD 0))
  | _ => none

def parseCallObs (t : String) : Option CallObs :=
  match t.splitOn "/" with
  | [r, em, hd] => do
    let res ← (if r == "unit" then some CallRes.unit
               else if r.startsWith "ok:" then some (CallRes.ok (unhex (r.drop 3).toString))
               else (parseErr r).map CallRes.err)
    let emits := if em == "~" then [] else (em.splitOn ",").map unhex
    let hs ← (if hd == "~" then some [] else (hd.splitOn ",").mapM parseErr)
    pure ⟨res, emits, hs⟩
  | _ => none

def fmtErr : ErrRepr → String
  | .inv => "inv"
  | .io k t => if k ≥ 200 then s!"io:os:{t}" else s!"io:{k}:{t}"

def fmtCallObs (o : CallObs) : String :=
  (match o.result with
   | .unit => "unit"
   | .ok t => "ok:" ++ hex t
   | .err e => fmtErr e) ++ "/" ++
  (if o.emits.isEmpty then "~" else joinWith "," (o.emits.map hex)) ++ "/" ++
  (if o.handler.isEmpty then "~" else joinWith "," (o.handler.map fmtErr))

structure PCall where
  entry : Entry
  form : Form
  key : Str
  arg : Arg
  bops : List BOp
  sink : SinkOut

def parseCall (t : String) : Option PCall :=
  match t.splitOn "/" with
  | [e, f, k, v, b, s] => do
    let entry ← entryOf e
    let form ← (if f == "p" then some Form.plain else if f == "t" then some Form.trySend else if f == "s" then some Form.send else none)
    let arg ← parseArg entry v
    let bops ← parseBOps b
    let sink ← (if s == "a" || s.startsWith "b" then some SinkOut.accept
                else if s.startsWith "o" then ((s.drop 1).toString.toNat?).map fun n => SinkOut.refuse (200 + n)
                else ((s.drop 1).toString.toNat?).map SinkOut.refuse)
    pure ⟨entry, form, unhex k, arg, bops, sink⟩
  | _ => none

/-- the part of an emitted line a property's correspondence compares (sections of the text) -/
def sectionOf (prop : String) (t : Str) : String :=
  let fields := splitOn PIPE t
  match prop with
  | "C02" =>
    let base := fields.headD []
    let vals := (splitOn COLON base).drop 1
    let rate := (fields.filter fun f => f.head? == some AT)
    hex (joinSep COLON vals) ++ "@" ++ hex (joinSep PIPE rate)
  | "C04" =>
    let tg := fields.filter fun f => f.head? == some HASH
    let cd := fields.filter fun f => f.take 2 == [LC, COLON]
    hex (joinSep PIPE tg) ++ "c" ++ hex (joinSep PIPE cd)
  | _ => hex t

def projectCall (prop : String) (o : CallObs) : String :=
  match prop with
  | "C03" => (match o.result with | .ok _ => "ok" | .unit => "unit" | .err e => fmtErr e) ++ "/" ++
      toString o.emits.length ++ "/" ++ joinWith "," (o.handler.map fmtErr)
  | "C02" | "C04" =>
    (match o.result with | .ok _ => "ok" | .unit => "unit" | .err e => fmtErr e) ++ "/" ++
      joinWith "," (o.emits.map (sectionOf prop))
  | "C20" => "-"
  | _ => fmtCallObs o

def bad : Verdict := badCase

def callTags (c : PCall) (o : CallObs) : List String :=
  let f := match c.form with | .plain => "plain" | .trySend => "try_send" | .send => "send"
  let r := match o.result, o.handler with
    | .ok _, _ => "accepted"
    | .err .inv, _ => "invalid"
    | .err (.io _ _), _ => "refused"
    | .unit, [] => "quiet-ok"
    | .unit, _ => "quiet-handled"
  let secs := c.bops.map fun | .tag _ _ => "tag" | .tagv _ => "tagv" | .cid _ => "cid" | .ts _ => "ts" | .rate _ => "rate"
  [f ++ "-" ++ r] ++ secs.eraseDups.map ("sec-" ++ ·)

def runFmt (prop : String) (f : List String) (obsS : String) : Verdict :=
  match f with
  | [_, pfx, tagsS, cidS, callsS] =>
    match parseTags tagsS with
    | none => bad
    | some tags =>
      let cfg : ClientCfg := ⟨unhex pfx, tags, if cidS == "~" then none else some (unhex cidS)⟩
      let calls := callsS.splitOn ";"
      let obs := obsS.splitOn ";"
      if calls.length ≠ obs.length then bad else
      let rec go (i : Nat) (cs os : List String) (ip mp : List String) (v : Option (String × String)) (tg : List String) : Verdict :=
        match cs, os with
        | c :: cs', o :: os' =>
          match parseCall c, parseCallObs o with
          | some pc, some io =>
            let tok := match pc.sink with | .refuse k => if k ≥ 200 then 1000000 + (k - 200) else i + 1 | _ => i + 1
            match call cfg pc.entry pc.form pc.key pc.arg pc.bops pc.sink tok with
            | none => bad
            | some mo =>
              let v' := match v with
                | some x => some x
                | none => match ckCall cfg pc.entry pc.form pc.key pc.arg pc.bops pc.sink tok io with
                  | .ok _ => none
                  | .error e => some (e.prop, e.clause)
              go (i + 1) cs' os' (projectCall prop io :: ip) (projectCall prop mo :: mp) v' (callTags pc mo ++ tg)
          | _, _ => if o == "panic/~/~" || o.startsWith "panic" then
                      ⟨prop != "C20" && false, "panic", "no-panic", some ("C03+C20", "a metric call panicked"), tg, false⟩
                    else bad
        | _, _ =>
          let ips := joinWith ";" ip.reverse
          let mps := joinWith ";" mp.reverse
          ⟨ips == mps, ips, mps, v, tg, false⟩
      go 0 calls obs [] [] none []
  | _ => bad

def ctorOf (s : String) : Option (Ctor × Bool × Bool) :=   -- (ctor, signed?, float?)
  match s with
  | "Counter" => some (.counter, true, false) | "Timer" => some (.timer, false, false)
  | "Gauge" => some (.gauge, false, false) | "Gauge_f64" => some (.gaugeF, false, true)
  | "Meter" => some (.meter, false, false) | "Histogram" => some (.histogram, false, false)
  | "Histogram_f64" => some (.histogramF, false, true) | "Distribution" => some (.distribution, false, false)
  | "Distribution_f64" => some (.distributionF, false, true) | "Set" => some (.set, true, false)
  | _ => none

def runStd (_prop : String) (f : List String) (obsS : String) : Verdict :=
  match f with
  | [_, ctorS, pfx, key, valS] =>
    match ctorOf ctorS with
    | none => bad
    | some (c, signed, flt) =>
      let v? : Option Val := if flt then (parseF64Tok valS).map Val.float
        else if signed then valS.toInt?.map Val.signed else valS.toNat?.map Val.unsigned
      match v? with
      | none => bad
      | some v =>
        if obsS == "panic" then ⟨false, "panic", "no-panic", some ("C20", "a constructor panicked"), [], false⟩ else
        let m := standalone c (unhex pfx) (unhex key) v
        let vi := match ckStandalone c (unhex pfx) (unhex key) v (unhex obsS) with
          | .ok _ => none
          | .error e => some (e.prop, e.clause)
        ⟨hex m == obsS, obsS, hex m, vi, ["standalone"], false⟩
  | _ => bad

/-- `MetricBackend::send_metric` hands the sink exactly the metric's string, once, undecorated, and
returns the sink's own error; `consume_error` hands the error to the client's handler, once -/
def runRaw (_prop : String) (f : List String) (obsS : String) : Verdict :=
  match f with
  | [_, textH, sinkS, mode] =>
    let expected :=
      if mode == "c" then "unit/~/inv"
      else if sinkS == "a" || sinkS.startsWith "b" then s!"ok/{textH}/~"
      else if sinkS.startsWith "o" then s!"io:os:{1000000 + ((sinkS.drop 1).toString.toNat?.getD 0)}/{textH}/~"
      else s!"io:{(sinkS.drop 1).toString}:1/{textH}/~"
    let v : Option (String × String) :=
      if obsS.startsWith "panic" then some ("C03+C20", "send_metric / consume_error panicked")
      else if obsS != expected then some ("C03", "send_metric did not hand the sink exactly the metric once and return the sink's answer / consume_error did not reach the handler once")
      else none
    ⟨obsS == expected, obsS, expected, v, ["metric-backend"], false⟩
  | _ => bad

/-- a flush through the client / a queuing wrapper (with or without handler): the wrapped sink's answer,
its error included, comes back unchanged; one flush of the sink; no handler call -/
def runCfl (_prop : String) (f : List String) (obsS : String) : Verdict :=
  match f with
  | [_, _via, ans] =>
    let res := if ans == "a" then "ok" else "err" ++ (ans.drop 1).toString
    let expected := s!"{res}/1/0"
    let v : Option (String × String) :=
      if obsS.startsWith "panic" then some ("C06+C07+C20", "a flush through a wrapper panicked")
      else if obsS != expected then some ("C06+C07", "a flush through the client / the queuing wrapper did not flush the wrapped sink exactly once and return its answer (its very error) unchanged, without involving the handler")
      else none
    ⟨obsS == expected, obsS, expected, v, ["wrapper-flush"], false⟩
  | _ => bad

/-- handler scenarios (panicking, re-entrant, concurrent handler): two invocations each -/
def runHdl (_prop : String) (_f : List String) (obsS : String) : Verdict :=
  let expected := "a2,b2,c2"
  let v : Option (String × String) :=
    if obsS == expected then none
    else some ("C03", "a failed quiet send did not reach the error handler exactly once (a: after an earlier handler invocation panicked, b: from inside the handler, c: while another thread's handler invocation was running): " ++ obsS)
  ⟨obsS == expected, obsS, expected, v, ["handler-scenarios"], false⟩

/-- `impl Display for MetricValue` against `Val.render` -/
def runVal (_prop : String) (f : List String) (obsS : String) : Verdict :=
  match f with
  | [_, variant, valS] =>
    let items := listToks valS
    let v? : Option Val := match variant with
      | "signed" => valS.toInt?.map Val.signed
      | "unsigned" => valS.toNat?.map Val.unsigned
      | "float" => (parseF64Tok valS).map Val.float
      | "psigned" => (items.mapM String.toInt?).map Val.psigned
      | "punsigned" => (items.mapM String.toNat?).map Val.punsigned
      | _ => (items.mapM parseF64Tok).map Val.pfloat
    match v? with
    | none => bad
    | some v =>
      if obsS == "panic" then ⟨false, "panic", hex v.render, some ("C20", "formatting a MetricValue panicked"), ["metric-value"], false⟩
      else ⟨hex v.render == obsS, obsS, hex v.render, none, ["metric-value"], false⟩
  | _ => bad

end Drv.FmtE
