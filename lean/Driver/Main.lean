import Driver.Mlw
import Driver.Fmt
import Driver.Queue
import Driver.Sock
import Driver.Holder
import Driver.Macros
import Std.Data.HashMap
import Std.Data.HashSet
/-!
`driver <property>`: reads one case per line on stdin (`<engine> <fields…> => <implementation observation>`),
runs the model on the same case, compares the property's projection, evaluates the property's executable
predicates on the implementation's observation, and prints

  D <lineno> <impl projection> <model projection>     model and implementation disagree
  P <lineno> <property> <clause>                      a predicate failed on the implementation's observation
  X <lineno>                                          malformed case / observation
  S <case line>                                       a few sample cases
  STATS cases=… agree=… nontrivial=… tag:<t>=<n> …
-/
open Drv

structure DAcc where
  n : Nat := 0
  agree : Nat := 0
  dis : Nat := 0
  pred : Nat := 0
  bad : Nat := 0
  tags : Std.HashMap String Nat := {}
  seen : Std.HashSet UInt64 := {}
  nontrivial : Nat := 0
  samples : Nat := 0

def trivialTag (t : String) : Bool := t == "buffered" || t == "flush-empty" || t == "plain-accepted"

def dispatch (prop : String) (line : String) : Verdict :=
  match line.splitOn " => " with
  | [caseS, obsS] =>
    let f := caseS.splitOn " "
    match f.head? with
    | some "mlw" => MlwE.runMlw prop f obsS
    | some "spy" => MlwE.runSpy prop f obsS
    | some "fmt" => FmtE.runFmt prop f obsS
    | some "fmtn" => FmtE.runFmt prop f obsS
    | some "std" => FmtE.runStd prop f obsS
    | some "val" => FmtE.runVal prop f obsS
    | some "raw" => FmtE.runRaw prop f obsS
    | some "queue" => QueueE.runQueue prop f obsS
    | some "qstress" => QueueE.runStress prop f obsS
    | some "queue0" => QueueE.runQueue0 prop f obsS
    | some "qburst" => QueueE.runBurst prop f obsS
    | some "qlatency" => QueueE.runLatency prop f obsS
    | some "qdroprace" => QueueE.runDropRace prop f obsS
    | some "qemitdrop" => QueueE.runEmitDrop prop f obsS
    | some "qstop0" => QueueE.runStop0 prop f obsS
    | some "qdeep" => QueueE.runDeep prop f obsS
    | some "qfirst" => QueueE.runFirst prop f obsS
    | some "qnothread" => QueueE.runNoThread prop f obsS
    | some "qunwind" => QueueE.runUnwind prop f obsS
    | some "sockbig" => SockE.runBig prop f obsS
    | some "sockstrace" => SockE.runStrace prop f obsS
    | some "sockflushrace" => SockE.runFlushRace prop f obsS
    | some "sockctor" => SockE.runCtor prop f obsS
    | some "hdl" => FmtE.runHdl prop f obsS
    | some "cfl" => FmtE.runCfl prop f obsS
    | some "sock" => SockE.runSock prop f obsS
    | some "sockmt" => SockE.runMt prop f obsS
    | some "socklock" => SockE.runLock prop f obsS
    | some "sockcr" => SockE.runCr prop f obsS
    | some "holder" => HolderE.runHolder prop f obsS
    | some "holdern" => HolderE.runHolder prop f obsS
    | some "holdermiri" => HolderE.runMiri prop f obsS
    | some "mac" => MacrosE.runMac prop f obsS
    | some "macn" => MacrosE.runMac prop f obsS
    | some "mact" => MacrosE.runMact prop f obsS
    | _ => badCase
  | _ => badCase

partial def loop (prop : String) (h : IO.FS.Stream) (out : IO.FS.Stream) (a : DAcc) : IO DAcc := do
  let raw ← h.getLine
  if raw.isEmpty then return a
  let line := (raw.dropEndWhile (· == '\n')).toString
  if line.isEmpty || line.startsWith "#" then loop prop h out a else
  let v := dispatch prop line
  let n := a.n + 1
  let mut a := { a with n := n }
  if v.malformed then
    out.putStrLn s!"X {n}"
    a := { a with bad := a.bad + 1 }
  else
    if v.agree then a := { a with agree := a.agree + 1 }
    else
      out.putStrLn s!"D {n} {v.implProj} {v.modelProj}"
      a := { a with dis := a.dis + 1 }
    match v.viol with
    | some e =>
      for p2 in e.1.splitOn "+" do
        out.putStrLn s!"P {n} {p2} {e.2}"
      a := { a with pred := a.pred + 1 }
    | none => pure ()
    let mut tags := a.tags
    for t in v.tags do
      tags := tags.insert t (tags.getD t 0 + 1)
    let hsh := hash line
    let fresh := !a.seen.contains hsh
    let nt := fresh && v.tags.any (fun t => !trivialTag t)
    a := { a with tags := tags, seen := a.seen.insert hsh, nontrivial := a.nontrivial + (if nt then 1 else 0) }
    if nt && a.samples < 6 && n % 997 == 1 then
      out.putStrLn s!"S {line}"
      a := { a with samples := a.samples + 1 }
  loop prop h out a

def main (args : List String) : IO UInt32 := do
  let prop := args.headD "ALL"
  let stdin ← IO.getStdin
  let stdout ← IO.getStdout
  let a ← loop prop stdin stdout {}
  let tagS := " ".intercalate (a.tags.toList.map fun (k, v) => s!"tag:{k}={v}")
  stdout.putStrLn s!"STATS cases={a.n} agree={a.agree} disagree={a.dis} predfail={a.pred} malformed={a.bad} distinct={a.seen.size} nontrivial={a.nontrivial} {tagS}"
  return 0
