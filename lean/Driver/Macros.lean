import Cadence.Model.Macros
import Driver.Fmt
/-! driver side of engine `macros` -/
namespace Drv.MacrosE
open Fmt Drv.FmtE

def fmtEv : MEv → String
  | .eval i => toString i
  | .emit t => "E" ++ hex t
  | .handled e => "H" ++ fmtErr e
  | .panic => "PANIC"

def parsePairs (t : String) : Option (List (Str × Str)) :=
  if t == "-" then some [] else
  (t.splitOn ",").mapM fun x => match x.splitOn ":" with
    | [k, v] => some (unhex k, unhex v)
    | _ => none

/-- property-driven checks on one invocation's observed events -/
def ckInv (global : Option ClientCfg) (ntags : Nat) (evs : List String) (expected : List MEv) : Option (String × String) :=
  match global with
  | none =>
    if evs == ["PANIC"] then none
    else if evs.contains "PANIC" then some ("C17", "arguments were evaluated before the panic for the unset global client")
    else some ("C17", "no panic although no global client is set")
  | some _ =>
    if evs.contains "PANIC" then some ("C17", "the macro panicked although a global client is set") else
    let evals := evs.filter fun e => e.toNat?.isSome
    if evals ≠ (List.range (2 + 2 * ntags)).map toString then some ("C17", "an argument expression was not evaluated exactly once, in source order")
    else if (evs.filter (·.startsWith "E")).length > 1 then some ("C17", "more than one emit for one macro invocation")
    else if evs ≠ expected.map fmtEv then some ("C17", "the macro did not send what the tagged quiet call on the global client sends")
    else none

def runMac (_prop : String) (f : List String) (obsS : String) : Verdict :=
  match f with
  | [_, pfx, tagsS, cidS, invsS] =>
    match parseTags tagsS with
    | none => badCase
    | some tags =>
      let configured : Option ClientCfg := if pfx == "UNSET" then none else some ⟨unhex pfx, tags, if cidS == "~" then none else some (unhex cidS)⟩
      let invs := invsS.splitOn ";"
      let late := invs.contains "SET"
      if obsS.endsWith ";PRINTED" then
        ⟨false, obsS, "", some ("C17", "a macro invocation printed to stdout / stderr (failures are reported to the client's error handler only)"), ["printed"], false⟩ else
      let obs := obsS.splitOn ";"
      if invs.length ≠ obs.length then badCase else
      let rec go (i : Nat) (is os : List String) (mp : List String) (v : Option (String × String)) (tg : List String)
          (global : Option ClientCfg) : Verdict :=
        match is, os with
        | inv :: is', o :: os' =>
          if inv == "SET" then go (i + 1) is' os' ("set" :: mp) v ("late-set" :: tg) configured else
          match inv.splitOn "/" with
          | ["apanic", _, _, _, _] =>
            -- the key is evaluated, the value expression panics: nothing is sent, nothing reported
            let tr := if global.isNone then [MEv.panic] else [MEv.eval 0, MEv.eval 1, MEv.panic]
            let m := joinWith "," (tr.map fmtEv)
            let v' := match v with
              | some x => some x
              | none => if o == m then none else some ("C17", "an invocation whose argument expression panics did not evaluate its arguments in order up to the panic and send nothing")
            go (i + 1) is' os' (m :: mp) v' ("argument-panics" :: tg) global
          | ["hnest", k, vS, _, s] =>
            -- the sink refuses the gauge; the handler, once invoked, invokes `statsd_count!("from.handler", 1)`
            -- itself, whose metric is accepted: evals, E(outer), H(err), then the inner invocation's E
            let sink := SinkOut.refuse ((s.drop 1).toString.toNat?.getD 0)
            match entryOf "count_i64", entryOf "gauge_u64" with
            | some ec, some eg =>
              match parseArg ec "1", parseArg eg vS with
              | some a1, some ag =>
                match macroTrace global ec "from.handler".toUTF8.toList a1 [] .accept (i + 1),
                      macroTrace global eg (unhex k) ag [] sink (i + 1) with
                | some inner, some outer =>
                  let tr := if global.isNone then [MEv.panic] else outer ++ inner.drop 2
                  let m := joinWith "," (tr.map fmtEv)
                  let v' := match v with
                    | some x => some x
                    | none =>
                      if o == m then none
                      else if global.isNone then some ("C17", "no panic (or arguments evaluated) although no global client is set")
                      else some ("C17", "a macro invoked from the global client's error handler did not send what the tagged quiet call sends (or the outer one did not report its failure to the handler once)")
                  go (i + 1) is' os' (m :: mp) v' ("from-handler" :: tg) global
                | _, _ => badCase
              | _, _ => badCase
            | _, _ => badCase
          | ["nest", k, vS, _, s] =>
            -- statsd_gauge!(key, { statsd_count!("inner.calls", 1); v }): the inner invocation is complete
            -- (sent, accepted) before the outer one sends
            let sink := if s == "a" then SinkOut.accept else SinkOut.refuse ((s.drop 1).toString.toNat?.getD 0)
            match entryOf "count_i64", entryOf "gauge_u64" with
            | some ec, some eg =>
              match parseArg ec "1", parseArg eg vS with
              | some a1, some ag =>
                match macroTrace global ec "inner.calls".toUTF8.toList a1 [] .accept (i + 1),
                      macroTrace global eg (unhex k) ag [] sink (i + 1) with
                | some inner, some outer =>
                  let tr := if global.isNone then [MEv.panic] else [MEv.eval 0, MEv.eval 1] ++ inner.drop 2 ++ outer.drop 2
                  let m := joinWith "," (tr.map fmtEv)
                  let v' := match v with
                    | some x => some x
                    | none =>
                      if o == m then none
                      else if global.isNone then some ("C17", "no panic (or arguments evaluated) although no global client is set")
                      else some ("C17", "a macro invocation inside an argument expression, or the invocation around it, did not send what the tagged quiet call sends")
                  go (i + 1) is' os' (m :: mp) v' ("nested" :: tg) global
                | _, _ => badCase
              | _, _ => badCase
            | _, _ => badCase
          | [e, k, vS, tp, s] =>
            match entryOf e, parsePairs tp with
            | some entry, some pairs =>
              match parseArg entry vS with
              | none => badCase
              | some arg =>
                let sink := if s == "a" then SinkOut.accept else SinkOut.refuse ((s.drop 1).toString.toNat?.getD 0)
                match macroTrace global entry (unhex k) arg pairs sink (i + 1) with
                | none => badCase
                | some tr =>
                  let m := joinWith "," (tr.map fmtEv)
                  let evs := if o == "-" then [] else o.splitOn ","
                  let v' := match v with | some x => some x | none => ckInv global pairs.length evs tr
                  go (i + 1) is' os' (m :: mp) v' (s!"arity-{pairs.length}" :: (if tr.any (fun x => match x with | .handled _ => true | _ => false) then "handled" else "sent") :: tg) global
            | _, _ => badCase
          | _ => badCase
        | _, _ =>
          let mps := joinWith ";" mp.reverse
          ⟨mps == obsS, obsS, mps, v, (if global.isNone then ["unset"] else []) ++ tg.eraseDups, false⟩
      go 0 invs obs [] none [] (if late then none else configured)
  | _ => badCase

/-- the macros expanded in a crate built with `cfg(test)`: same behaviour -/
def runMact (_prop : String) (f : List String) (obsS : String) : Verdict :=
  let expected := match f with
    | [_, "unset"] => "PANIC"
    | _ => "0,1,E" ++ hex "p.k:1|c".toUTF8.toList
  let v : Option (String × String) :=
    if obsS == expected then none
    else if obsS == "test-binary-missing" then some ("C17", "the cfg(test) expansion of the macros could not be built or run")
    else some ("C17", "expanded inside a crate compiled with cfg(test) the macro does not panic iff unset / send what the tagged quiet call sends: " ++ obsS)
  ⟨obsS == expected, obsS, expected, v, ["cfg-test-expansion"], false⟩

end Drv.MacrosE
