import Cadence.Model.Holder
import Driver.Util
/-! driver side of engine `holder` -/
namespace Drv.HolderE
open Holder

def ordName : Ord → String
  | .relaxed => "Relaxed" | .acquire => "Acquire" | .release => "Release" | .acqRel => "AcqRel" | .seqCst => "SeqCst"

def ordOf (s : String) : Option Ord :=
  match s with
  | "Relaxed" => some .relaxed | "Acquire" => some .acquire | "Release" => some .release
  | "AcqRel" => some .acqRel | "SeqCst" => some .seqCst | _ => none

def parseProg (p : String) : List Call :=
  -- `m` (a macro invocation on the global client) is a `get` as far as the holder is concerned
  p.toList.filterMap fun c => if c == 's' then some .set else if c == 'g' || c == 'm' then some .get else if c == 'i' then some .isSet else none

/-- the event token and, if the call completes with this step, its result -/
def describe (o : Ords) (s : St) (t i : Nat) : Option (String × Option String) :=
  let th := s.thrs t
  match th.pc with
  | .idle =>
    match th.calls, s.msgs[i]? with
    | .set :: _, some m =>
      if m.val = UNSET ∧ i + 1 = s.msgs.length then some (s!"C.{ordName o.casSucc}.{ordName o.casFail}.ok{m.val}", none)
      else some (s!"C.{ordName o.casSucc}.{ordName o.casFail}.er{m.val}", some "u")
    | .get :: _, some m =>
      some (s!"L.{ordName o.loadOrd}.{m.val}", if m.val = COMPLETE then none else some "N")
    | .isSet :: _, some m =>
      some (s!"L.{ordName o.loadOrd}.{m.val}", some (if m.val = COMPLETE then "T" else "F"))
    | _, _ => none
  | .write => some ("G", none)
  | .store => some (s!"S.{COMPLETE}.{ordName o.storeOrd}", some "u")
  | .read => some ("G", some (match s.cellVal with | some w => s!"P{w + 1}@0" | none => "P?"))

structure Acc where
  cur : List (List String)          -- per thread: events of the call in progress
  done : List (List String)         -- per thread: finished calls

def setAt {β} (l : List β) (i : Nat) (x : β) : List β := l.set i x

/-- run the sequentially consistent schedule (every load reads the latest message) -/
def modelRun (o : Ords) (progs : List (List Call)) (sched : List Nat) : String :=
  let n := progs.length
  let s0 := init fun t => progs.getD t []
  -- every shim operation takes two grants: the first performs it, the second only lets the plain
  -- code after it run (no model step)
  let rec go (s : St) (sched : List Nat) (a : Acc) (post : List Bool) : Acc :=
    match sched with
    | [] => a
    | t :: rest =>
      if post.getD t false then go s rest a (setAt post t false) else
      let i := s.msgs.length - 1
      match describe o s t i, step o s t i with
      | some (ev, fin), some s' =>
        let tok := s!"{s.nextId}:{ev}"
        let curT := a.cur.getD t [] ++ [tok]
        match fin with
        | some r =>
          let call := "+".intercalate curT ++ "=" ++ r
          go s' rest ⟨setAt a.cur t [], setAt a.done t (a.done.getD t [] ++ [call])⟩ (setAt post t true)
        | none => go s' rest ⟨setAt a.cur t curT, a.done⟩ (setAt post t true)
      | _, _ => go s rest a post
  let a := go s0 sched ⟨List.replicate n [], List.replicate n []⟩ (List.replicate n false)
  "/".intercalate (a.done.map fun calls => ",".intercalate calls)

/-- orderings seen in the implementation's events (source orderings where none was seen) -/
def observedOrds (obs : String) : Ords :=
  let toks := (obs.splitOn "/").flatMap fun th => (th.splitOn ",").flatMap fun c => ((c.splitOn "=").headD "").splitOn "+"
  let evs := toks.map fun t => (t.splitOn ":").getD 1 ""
  let find (p : String) (k : Nat) (dflt : Ord) : Ord :=
    match evs.find? (·.startsWith p) with
    | some e => (ordOf ((e.splitOn ".").getD k "")).getD dflt
    | none => dflt
  ⟨find "C." 1 .acqRel, find "C." 2 .relaxed, find "S." 2 .release, find "L." 1 .acquire⟩

def ordsEq (a b : Ords) : Bool :=
  a.casSucc == b.casSucc && a.casFail == b.casFail && a.storeOrd == b.storeOrd && a.loadOrd == b.loadOrd

/-- bounded search of the weak-memory model for an execution with a data race on the cell or a `get`
that reads an unwritten cell, over every coherence-permitted message choice -/
def explore (o : Ords) (nthreads : Nat) : Nat → St → List (Nat × Nat) → Option (List (Nat × Nat))
  | 0, _, _ => none
  | fuel + 1, s, path =>
    if s.raced then some path.reverse else
    let choices := (List.range nthreads).flatMap fun t => (List.range s.msgs.length).map fun i => (t, i)
    choices.firstM fun (t, i) =>
      match step o s t i with
      | none => none
      | some s' =>
        let bad := s'.raced || (List.range nthreads).any fun u => (s'.thrs u).results.contains .none && s'.msgs.length == 3 && false
        if bad then some ((t, i) :: path).reverse else explore o nthreads fuel s' ((t, i) :: path)

def probePrograms : List (List (List Call)) := [[[.set], [.get]], [[.set], [.get, .get]], [[.set, .get], [.get]]]

def findRace (o : Ords) : Option String :=
  probePrograms.firstM fun progs =>
    match explore o progs.length 12 (init fun t => progs.getD t []) [] with
    | some path => some (s!"programs={progs.map fun p => p.map fun c => match c with | .set => "s" | .get => "g" | .isSet => "i"} schedule(thread,message-read)={path}")
    | none => none

def evSeq (tok : String) : Nat := ((tok.splitOn ":").headD "0").toNat?.getD 0
def evBody (tok : String) : String := (tok.splitOn ":").getD 1 ""

/-- predicates on the implementation's observation alone -/
def ckObs (progs : List String) (obs : String) : Option (String × String) :=
  let threads := obs.splitOn "/"
  let calls : List (Nat × String × List String × String) :=   -- (thread, kind, events, result)
    (threads.zipIdx.flatMap fun (th, t) =>
      ((th.splitOn ",").zip ((progs.getD t "").toList.map toString)).map fun (c, k) =>
        let parts := c.splitOn "="
        (t, k, (parts.headD "").splitOn "+", parts.getD 1 ""))
  let allEvs := calls.flatMap fun (_, _, evs, _) => evs
  if (obs.splitOn "LIVELOCK").length > 1 then
    some ("C18", "a call kept making atomic operations without completing (it spins on another thread's progress)") else
  if calls.any (fun (_, k, evs, r) => k == "d" && (evs.any (· != "") || r != "D")) then
    some ("C18", "formatting the holder with Debug read the cell or the state (an unsynchronised read that can race with a set)") else
  -- (the numeric values of the states are the implementation's business: only ok / er matters here)
  let casOk := calls.filter fun (_, k, evs, _) => k == "s" && evs.any fun e => (evBody e).startsWith "C." && (((evBody e).splitOn ".").getD 3 "").startsWith "ok"
  if casOk.length > 1 then some ("C18", "more than one set won") else
  if calls.any (fun (_, _, _, r) => r == "panic") || obs.contains "panic" then some ("C20", "a holder call panicked") else
  let winner := casOk.head?.map (·.1)
  let winnerEvs : List String := (casOk.head?.map fun (_, _, evs, _) => evs).getD []
  let storeSeq : Option Nat := (winnerEvs.find? fun e => (evBody e).startsWith "S.").map evSeq
  let anySet := calls.any fun (_, k, _, _) => k == "s"
  if anySet && casOk.isEmpty then some ("C18", "sets were made on a fresh holder but none of them won") else
  -- a set publishes COMPLETE only after the cell write
  let badOrder := casOk.any fun (_, _, evs, _) =>
    match evs.findIdx? (fun e => evBody e == "G"), evs.findIdx? (fun e => (evBody e).startsWith "S.") with
    | some g, some s => s < g
    | none, some _ => true
    | _, _ => false
  if badOrder then some ("C18", "the completion flag was published before the value was written") else
  let losersTouch := calls.any fun (t, k, evs, _) => k == "s" && some t ≠ winner && evs.any fun e => evBody e == "G" || (evBody e).startsWith "S."
  if losersTouch then some ("C18", "a later set disturbed the stored value") else
  let gets := calls.filter fun (_, k, _, _) => k == "g" || k == "m"
  let wrongGet := gets.any fun (_, _, evs, r) =>
    let loadSeq := (evs.head?.map evSeq).getD 0
    let after : Bool := match storeSeq with | some s => decide (loadSeq > s) | none => false
    if after then r != s!"P{(winner.getD 0) + 1}@0" else r != "N"
  if wrongGet then some ("C18", "a get returned something other than 'not set' before / the one winning instance after the set completed") else
  let wrongIs := calls.any fun (_, k, evs, r) => k == "i" &&
    (let loadSeq := (evs.head?.map evSeq).getD 0
     let after : Bool := match storeSeq with | some s => decide (loadSeq > s) | none => false
     r != (if after then "T" else "F"))
  if wrongIs then some ("C18", "is_set reported set before the set completed, or not set after") else
  -- the orderings actually written in the source, as traced: explore the weak-memory model with them
  let o := observedOrds obs
  if ordsEq o Ords.source then none else
  match findRace o with
  | some w => some ("C18", "with the orderings traced from the source the memory model admits a data race on the cell: " ++ w)
  | none => none

def runHolder (_prop : String) (f : List String) (obsS : String) : Verdict :=
  match f with
  | [_, progsS, schedS] =>
    if obsS == "hook-guard-off" then badCase else
    let progs := ((if progsS.startsWith "D:" || progsS.startsWith "G:" then (progsS.drop 2).toString else progsS)).splitOn "/"
    let sched := (splitList schedS ",").filterMap String.toNat?
    -- a Debug call is no operation of the model: `=D` with no events at its position
    let model0 := modelRun Ords.source (progs.map parseProg) sched
    let model := "/".intercalate (((model0.splitOn "/").zip progs).map fun (th, p) =>
      let calls := if th == "" then [] else th.splitOn ","
      let rec weave (ks : List Char) (cs : List String) : List String :=
        match ks with
        | [] => cs
        | 'd' :: ks' => "=D" :: weave ks' cs
        | _ :: ks' => match cs with
          | c :: cs' => c :: weave ks' cs'
          | [] => []
      ",".intercalate (weave p.toList calls))
    let v := ckObs progs obsS
    let tags := (if obsS.contains "er" then ["losing-set"] else []) ++ (if obsS.contains "=N" then ["get-before-complete"] else []) ++
      (if obsS.contains "=P" then ["get-after-complete"] else []) ++ (if progs.length > 2 then ["three-threads"] else []) ++
      (if progsS.startsWith "G:" then ["global-functions"] else [])
    ⟨model == obsS, obsS, model, v, tags, false⟩
  | _ => badCase

/-- real threads under Miri (supporting evidence for the modelling assumption "what `get` / `is_set` do
through the cell pointer is a read"): a data race or aliasing violation it reports is a C18 violation -/
def runMiri (_prop : String) (_f : List String) (obsS : String) : Verdict :=
  if obsS == "ok" then ⟨true, "ok", "ok", none, ["miri"], false⟩
  else if obsS == "miri-unavailable" then ⟨true, obsS, obsS, none, ["miri-unavailable"], false⟩
  else ⟨true, obsS, obsS, some ("C18", "real threads on the holder under Miri: " ++ obsS), ["miri"], false⟩

end Drv.HolderE
